"""C04 - recorded files are well-formed GUPPI RAW and all readers agree on framing."""
import os
from .common import *

PROP_LEVEL['C04'] = 'proof'
PROP_TRUSTED['C04'] = [
    "strings are modelled by length and a few predicates: len(format(s, '<w')) = max(w, len(s)); renderings of numbers have a symbolic length",
    "a valid card has a key of at most 8 characters and a rendered value of at most 70 characters (precondition from the property)",
    "file objects are modelled as byte counters with a structural log (text / zero padding / array bytes); agreement with blimpy's GuppiRaw reader is bounded (native run)",
    "_make_header is verified for every card count 1..40 (all residues of 80*n mod 512) with symbolic values; record() uses it through its contract",
]
PROP_EXPLANATION['C04'] = "card width, header size and padding rule, PKTIDX, file split and block order (loop invariants), owned fields, merge order, readers"

RU = 'setigen.voltage.raw_utils'
BK = 'setigen.voltage.backend:RawVoltageBackend'


def valid_key():
    k = I.SStr(Int('keylen'), None, tag='key')
    return k


@contract('C04', 'format_header_line', functions=[RU + ':format_header_line'])
def format_header_line(vc):
    form = ('encoded-quoted', 'encoded-plain', 'string', 'number', 'TBIN')[vc.choose(5, 'value-form')]
    key = 'TBIN' if form == 'TBIN' else I.SStr(Int('keylen'), None, tag='key')
    if form != 'TBIN':
        vc.assume(And(key.length >= 1, key.length <= 8))
    if form in ('encoded-quoted', 'encoded-plain'):
        v = I.SStr(Int('vallen'), None, tag='value')
        vc.assume(And(v.length >= 1, v.length <= 70))
        vc.assume(v.pred('has_quote') if form == 'encoded-quoted' else Not(v.pred('has_quote')))
        out = vc.call(RU + ':format_header_line', key, v, as_strings=True)
    elif form == 'string':
        v = I.SStr(Int('vallen'), None, tag='value')
        vc.assume(And(v.length >= 0, v.length <= 68))         # rendered as '<value padded to 8>' : at most 70 characters
        out = vc.call(RU + ':format_header_line', key, v)
    else:
        v = Real('value') if form == 'TBIN' else (Int('ivalue') if vc.choose(2, 'int-or-float') == 0 else Real('value'))
        out = vc.call(RU + ':format_header_line', key, v)
        for (val, n) in getattr(vc.interp, 'render_lengths', {}).values():
            vc.assume(n <= 70)
    vc.cover('reachable')
    vc.ensure(f'C04/format_header_line/{form}/exc/none', out.ok)
    if not out.ok:
        return
    line = out.value
    ln = line.length if isinstance(line, I.SStr) else len(line)
    vc.ensure(f'C04/format_header_line/{form}/post/exactly-80-characters', eq(ln, 80))
    # structure: key left-justified in columns 0-7, '= ' in columns 8-9
    inner = line.formatted_from if isinstance(line, I.SStr) and hasattr(line, 'formatted_from') else None
    parts = inner.tag[1] if inner is not None and isinstance(inner.tag, tuple) and inner.tag[0] == 'concat' else None
    ok_struct = parts is not None and len(parts) == 3 and parts[1] == '= '
    if ok_struct:
        p0 = parts[0]
        l0 = p0.length if isinstance(p0, I.SStr) else len(p0)
        vc.ensure(f'C04/format_header_line/{form}/post/key-in-columns-0-7-equals-sign-at-8', eq(l0, 8))
    else:
        vc.ensure(f'C04/format_header_line/{form}/post/key-in-columns-0-7-equals-sign-at-8', False)


def header_dict_for(vc, n_cards, directio):
    """A header dictionary with n_cards entries (symbolic values of mixed types) incl. PKTIDX and optionally DIRECTIO."""
    d = {}
    if directio != 'absent':
        d['DIRECTIO'] = {'0': 0, '1': 1, 'str1': '1', 'quoted1': "'1'", 'str0': '0', 'bad': 'abc', 'sym': Int('directio')}[directio]
    d['PKTIDX'] = Int('pktidx0')
    k = 0
    while len(d) < n_cards:
        which = k % 4
        if which == 0:
            v = I.SStr(Int(f'sv{k}_len'), None, tag=f'v{k}')
            vc.assume(And(v.length >= 1, v.length <= 68))
            vc.assume(Not(v.pred('starts_quote')))
        elif which == 1:
            v = Int(f'iv{k}')
        elif which == 2:
            v = Real(f'fv{k}')
        else:
            v = I.SStr(Int(f'qv{k}_len'), None, tag=f'q{k}')
            vc.assume(And(v.length >= 2, v.length <= 70, v.pred('starts_quote')))
        d[f'K{k:03d}'] = v
        k += 1
    return d


@contract('C04', 'make_header', functions=[BK + '._make_header', RU + ':format_header_line'])
def make_header(vc):
    n_cards = 1 + vc.choose(40, 'cards')
    if n_cards < 2:
        n_cards = 2
    directio = ('absent', '0', '1', 'str1', 'quoted1', 'str0', 'bad', 'sym')[vc.choose(8, 'DIRECTIO')]
    hd = header_dict_for(vc, n_cards, directio)
    n = len(hd)
    spb = Int('samples_per_block')
    b = mkobj(vc, BK, samples_per_block=spb)
    f = L.FileW('out.raw')
    # the header is written at an arbitrary position of the file (after any number of earlier blocks of any size): the padding is a
    # function of the header's own size, not of the position
    pos0 = Int('bytes_already_in_the_file')
    vc.assume(pos0 >= 0)
    f.nbytes = pos0
    pk0 = hd['PKTIDX']
    keys0 = list(hd)
    vals0 = dict(hd)
    out = vc.call(BK + '._make_header', b, f, hd)
    for (val, ln) in getattr(vc.interp, 'render_lengths', {}).values():
        vc.assume(ln <= 70)                                  # valid cards (renderings fit)
    vc.cover('reachable')
    vc.ensure('C04/_make_header/exc/none', out.ok)
    if not out.ok:
        return
    on = {'absent': False, '0': False, '1': True, 'str1': True, 'quoted1': True, 'str0': False, 'bad': False}.get(directio)
    if directio == 'sym':
        on = Not(eq(hd['DIRECTIO'], 0)) if 'DIRECTIO' in hd else False
    raw = 80 * (n + 1)
    pad = (512 - raw % 512) % 512
    want = raw + sym_if(on, pad, 0) if not isinstance(on, bool) else raw + (pad if on else 0)
    vc.ensure('C04/_make_header/post/header-size=80*(cards+1)+padding-to-512-iff-DIRECTIO-and-unaligned', eq(f.nbytes, pos0 + want))
    texts = [w for w in f.log if w[0] == 'text']
    vc.ensure('C04/_make_header/post/one-80-byte-card-per-entry-plus-END', And(len(texts) == n + 1, *[eq(w[1], 80) for w in texts]))
    vc.ensure('C04/_make_header/post/END-card-last', isinstance(texts[-1][2], bytes) and texts[-1][2] == f"{'END':<80}".encode())
    zeros = [w for w in f.log if w[0] == 'zeros']
    vc.ensure('C04/_make_header/post/padding-is-zero-bytes-after-END', all(f.log.index(z) == len(f.log) - 1 for z in zeros) and len(zeros) <= 1)
    vc.ensure('C04/_make_header/post/PKTIDX-advances-by-samples-per-block', eq(hd['PKTIDX'], pk0 + spb))
    same = [k for k in keys0 if k not in ('PKTIDX', 'DIRECTIO')]
    vc.ensure('C04/_make_header/frame/other-cards-untouched', And(list(hd) == keys0 or (directio == 'bad'), *[hd[k] is vals0[k] for k in same]))


# ------------------------------------------------------------------------------------------------------------
# record(): file split, block order, PKTIDX, header fields  (also carries C20's record-level clauses and C12's
# dictionary clauses; collect_data_block and _make_header are used through their contracts)

ANT = 'setigen.voltage.antenna:Antenna'


def build_backend(vc, npol, nbits, user_bpf=True):
    sr, t0 = Real('sample_rate'), Real('t0')
    nb, taps = Int('num_branches'), Int('num_taps')
    vc.assume(And(sr > 0, nb >= 2, taps >= 1, nb % 2 == 0))
    asc = bool(vc.choose(2, 'ascending'))
    src = vc.interp.call(classref(vc, ANT), [], dict(sample_rate=sr, fch1=Real('fch1'), ascending=asc, num_pols=npol, t_start=t0, seed=Int('seed')))
    dig = vc.interp.call(classref(vc, 'setigen.voltage.quantization:RealQuantizer'), [], dict(target_fwhm=Real('dig_fwhm'), num_bits=8))
    fb = mkobj(vc, 'setigen.voltage.polyphase_filterbank:PolyphaseFilterbank', num_taps=taps, num_branches=nb, window=symbolic_array('h', (taps * nb,)),
               window_fn='hamming', cache=symbolic_array('stale', (taps * nb,)), channelized_stds=None)
    fb.partial = False
    rq = vc.interp.call(classref(vc, 'setigen.voltage.quantization:ComplexQuantizer'), [], dict(target_fwhm=Real('rq_fwhm'), num_bits=nbits))
    sc, nc, spbm, bpf = Int('start_chan'), Int('num_chans'), Int('spb_windows'), Int('blocks_per_file')
    vc.assume(And(sc >= 0, nc >= 1, sc + nc <= nb // 2, spbm >= 1, bpf >= 1))
    bps = 2 * npol * nbits // 8
    spb = spbm * taps
    bs = spb * nc * bps
    be = vc.interp.call(classref(vc, BK), [src, dig, fb, rq], dict(start_chan=sc, num_chans=nc, block_size=bs, blocks_per_file=bpf, num_subblocks=Int('num_subblocks')))
    return be, dict(sr=sr, t0=t0, nb=nb, taps=taps, src=src, sc=sc, nc=nc, spb=spb, bs=bs, bpf=bpf, bps=bps, npol=npol, nbits=nbits, asc=asc)


class Ghost:
    """Ghost state of a recording: blocks collected so far, files closed so far."""

    def __init__(self):
        self.blocks = 0
        self.files = 0


def install_record_contracts(vc, be, P, ghost, files):
    F = be.fields
    spb, nb, taps, sr = P['spb'], P['nb'], P['taps'], P['sr']

    def hsize(hd):
        n = len(hd)
        raw = 80 * (n + 1)
        d = hd.get('DIRECTIO', 0)
        on = d not in (0, '0') if isinstance(d, (int, str)) else Not(eq(d, 0))
        pad = (512 - raw % 512) % 512
        return raw + (pad if on is True else 0) if isinstance(on, bool) else raw + sym_if(on, pad, 0)
    P['hsize'] = hsize

    def make_header_contract(interp, clo, args, kwargs):
        me, f, hd = args
        vc.ensure('C04/record/pre@callsite/_make_header-on-a-block-boundary', eq(f.n_headers, f.n_data))
        vc.ensure('C04/record/pre@callsite/_make_header-gets-the-merged-dictionary', hd is P['hd_obj'])
        f.block_pktidx = hd['PKTIDX']
        f.nbytes = f.nbytes + hsize(hd)
        f.n_headers = f.n_headers + 1
        hd['PKTIDX'] = hd['PKTIDX'] + spb
        return None
    vc.interp.call_specs[BK + '._make_header'] = make_header_contract

    def collect_contract(interp, clo, args, kwargs):
        me = args[0]
        kw = interp.bind_args(clo, args, kwargs)
        vc.ensure('C04/record/pre@callsite/collect_data_block-requantizes', kw['requantize'] is True)
        src = me.fields['antenna_source']
        so = src.fields['start_obs']
        n_req = spb * nb + (sym_if(so, taps * nb, 0) if not isinstance(so, bool) else (taps * nb if so else 0))
        # effect (C02/C20 contract of collect_data_block): one block of spectra, antenna advanced by the samples it consumed
        for st in [src] + list(src.fields['streams']):
            st.fields['t_start'] = st.fields['t_start'] + n_req * (1 / sr)
            st.fields['start_obs'] = False
        ghost.blocks = ghost.blocks + 1
        g = ghost.blocks
        blk = symbolic_array('block', (P['nc'], spb * P['bps']), 'int')
        CTX.side.append(z3.BoolVal(True))
        return blk
    vc.interp.call_specs[BK + '.collect_data_block'] = collect_contract

    def open_hook(path, mode):
        if isinstance(path, L.PathVal) or (isinstance(path, str) and path.endswith('.txt')):
            p = path.s if isinstance(path, L.PathVal) else path
            return L.TextFileR(p)
        f = L.FileW(path, mode)
        files.append(f)
        return f
    vc.interp.open_hook = open_hook


class FilesLoop:
    def __init__(self, vc, be, P, ghost, N):
        self.vc, self.be, self.P, self.ghost, self.N = vc, be, P, ghost, N

    def havoc(self, interp, env, k, phase):
        P, g = self.P, self.ghost
        g.blocks = Int('blocks_done_h' + getattr(self, 'sfx', ''))
        g.files = k
        hd = env.get('header_dict')
        hd['PKTIDX'] = Int('pktidx_h' + getattr(self, 'sfx', ''))
        src = self.be.fields['antenna_source']
        tnew = Real('clock_h' + getattr(self, 'sfx', ''))
        so = Bool('start_obs_h' + getattr(self, 'sfx', ''))
        for st in [src] + list(src.fields['streams']):
            st.fields['t_start'] = tnew
            st.fields['start_obs'] = so
        for nm in ('save_fn', 'f', 'blocks_to_write', 'j', 'v', 'input_fn', 'i'):
            env.vars.pop(nm, None)
        if phase == 'pres':
            N, bpf = self.N, P['bpf']
            nf = env.get('num_files')
            # prompting facts about the file count (definition of ceil(N/bpf))
            self.vc.lemma('C04/record/lemma/file-count', And((nf - 1) * bpf < N, N <= nf * bpf))
            r, q = N % bpf, N // bpf
            self.vc.lemma('C04/record/lemma/last-file-remainder', And(Implies(r > 0, eq(q, nf - 1)), Implies(eq(r, 0), eq(q, nf))))

    def inv(self, interp, env, k):
        P, g = self.P, self.ghost
        N, bpf, spb = self.N, P['bpf'], P['spb']
        hd = env.get('header_dict')
        src = self.be.fields['antenna_source']
        done = smin(k * bpf, N)
        samples = done * spb * P['nb'] + sym_if(Sym.lift(done) > 0, P['taps'] * P['nb'], 0)
        clocks = And(*[eq(st.fields['t_start'], P['t0'] + samples / P['sr']) for st in [src] + list(src.fields['streams'])])
        so = And(*[eq(st.fields['start_obs'] if not isinstance(st.fields['start_obs'], bool) else Sym.lift(st.fields['start_obs']), eq(done, 0))
                   for st in [src] + list(src.fields['streams'])])
        return And(eq(g.blocks, done), eq(hd['PKTIDX'], P['pk0'] + done * spb), clocks, so)


class BlocksLoop:
    def __init__(self, vc, be, P, ghost, N):
        self.vc, self.be, self.P, self.ghost, self.N = vc, be, P, ghost, N

    def havoc(self, interp, env, k, phase):
        P, g = self.P, self.ghost
        self.base = getattr(self, 'base', None)
        if self.base is None:
            self.base = g.blocks                 # blocks done when this file was opened
            self.f = env.get('f')
        g.blocks = Int('blocks_done_hj' + getattr(self, 'sfx', ''))
        hd = env.get('header_dict')
        hd['PKTIDX'] = Int('pktidx_hj' + getattr(self, 'sfx', ''))
        f = env.get('f')
        f.nbytes = Int('nbytes_hj' + getattr(self, 'sfx', ''))
        f.n_headers = Int('nhdr_hj' + getattr(self, 'sfx', ''))
        f.n_data = Int('ndata_hj' + getattr(self, 'sfx', ''))
        f.log = []
        src = self.be.fields['antenna_source']
        tnew, so = Real('clock_hj' + getattr(self, 'sfx', '')), Bool('start_obs_hj' + getattr(self, 'sfx', ''))
        for st in [src] + list(src.fields['streams']):
            st.fields['t_start'] = tnew
            st.fields['start_obs'] = so
        for nm in ('j', 'v'):
            env.vars.pop(nm, None)

    def inv(self, interp, env, k):
        P, g = self.P, self.ghost
        if getattr(self, 'base', None) is None:
            self.base = g.blocks
        spb = P['spb']
        hd = env.get('header_dict')
        f = env.get('f')
        src = self.be.fields['antenna_source']
        done = self.base + k
        samples = done * spb * P['nb'] + sym_if(Sym.lift(done) > 0, P['taps'] * P['nb'], 0)
        clocks = And(*[eq(st.fields['t_start'], P['t0'] + samples / P['sr']) for st in [src] + list(src.fields['streams'])])
        so = And(*[eq(st.fields['start_obs'] if not isinstance(st.fields['start_obs'], bool) else Sym.lift(st.fields['start_obs']), eq(done, 0))
                   for st in [src] + list(src.fields['streams'])])
        return And(eq(g.blocks, done), eq(hd['PKTIDX'], P['pk0'] + done * spb), clocks, so,
                   eq(f.nbytes, k * (P['hsize'](hd) + P['bs'])), eq(f.n_headers, k), eq(f.n_data, k),
                   f.order_ok if not isinstance(f.order_ok, bool) else f.order_ok)


@contract('C04', 'record_framing', functions=[BK + '.record', BK + '._header_populate_configuration', BK + '._header_add_from_template', BK + '.get_num_blocks'],
          note="record(): collect_data_block and _make_header through their contracts; one antenna (1-2 polarisations)")
def record_framing(vc):
    npol = 1 + vc.choose(2, 'num_pols')
    nbits = (4, 8)[vc.choose(2, 'num_bits')]
    hform = ('default', 'user-cards')[vc.choose(2, 'header_dict')]
    template = bool(vc.choose(2, 'load_template'))
    be, P = build_backend(vc, npol, nbits)
    N = Int('num_blocks')
    vc.assume(N >= 1)
    ghost, files = Ghost(), []
    install_record_contracts(vc, be, P, ghost, files)
    user = None
    if hform == 'user-cards':
        user = {'TELESCOP': I.SStr(Int('tel_len'), None, tag='GBT'), 'NBITS': Int('user_nbits'), 'OBSFREQ': Real('user_obsfreq'), 'MYCARD': I.SStr(Int('my_len'), None, tag='mine'),
                'PKTIDX': Int('user_pktidx'), 'DIRECTIO': vc.choose(2, 'DIRECTIO')}
    user_before = dict(user) if user is not None else None
    P['pk0'] = user['PKTIDX'] if user is not None else 0
    closes = []

    # the merged dictionary is known only after the prologue: capture it at the first loop head
    class FL(FilesLoop):
        def havoc(self, interp, env, k, phase):
            P['hd_obj'] = env.get('header_dict')
            FilesLoop.havoc(self, interp, env, k, phase)

        def inv(self, interp, env, k):
            P['hd_obj'] = env.get('header_dict')
            return FilesLoop.inv(self, interp, env, k)
    vc.interp.loop_specs[(BK + '.record', 2)] = FL(vc, be, P, ghost, N)
    vc.interp.loop_specs[(BK + '.record', 3)] = BlocksLoop(vc, be, P, ghost, N)

    def on_close(f):
        # every file that is closed holds whole blocks: (header + BLOCSIZE data bytes) x blocks, header and data alternating,
        # blocks-per-file blocks except possibly fewer in the last file
        closes.append(f)
        hd = P['hd_obj']
        vc.ensure('C04/record/file/whole-blocks-of-header+BLOCSIZE-bytes',
                  And(eq(f.n_headers, f.n_data), eq(f.nbytes, f.n_data * (P['hsize'](hd) + P['bs'])), f.order_ok if not isinstance(f.order_ok, bool) else f.order_ok))
        vc.ensure('C04/record/file/blocks-per-file-or-the-remainder', And(f.n_data >= 1, f.n_data <= P['bpf'], eq(f.n_data, smin(P['bpf'], N - ghost.files * P['bpf']) if not is_conc(ghost.files) or True else 0)))
    vc.interp.on_file_close = on_close
    kw = dict(num_blocks=N, length_mode='num_blocks', load_template=template, verbose=False)
    if user is not None:
        kw['header_dict'] = user
    out = vc.call(BK + '.record', be, 'out/stem', **kw)
    vc.cover('reachable')
    vc.ensure('C04/record/exc/none', out.ok)
    if not out.ok:
        return
    F = be.fields
    hd = P['hd_obj']
    spb, bpf, bs = P['spb'], P['bpf'], P['bs']
    # --- after the recording (exit continuation of the files loop): totals
    vc.ensure('C04/record/post/exactly-the-requested-blocks', eq(ghost.blocks, N))
    vc.ensure('C04/record/post/PKTIDX-advanced-by-samples-per-block-per-block', eq(hd['PKTIDX'], P['pk0'] + N * spb))
    nf = vc.interp.last_locals.get('num_files')
    vc.ensure('C04/record/post/blocks-per-file-at-a-time-over-consecutive-files', And((nf - 1) * bpf < N, N <= nf * bpf))
    # --- C20 record-level clauses
    tpb = spb * P['nb'] / P['sr']
    vc.ensure('C20/record/post/obs_length=n*time_per_block', eq(F['obs_length'], N * tpb))
    vc.ensure('C20/record/post/total_obs_num_samples=n*samples_per_block*num_branches', eq(F['total_obs_num_samples'], N * spb * P['nb']))
    vc.ensure('C20/record/post/SCANLEN-and-PKTSTOP', And(eq(hd['SCANLEN'], N * tpb), eq(hd['PKTSTOP'], P['pk0'] + N * spb) if user is None or 'PKTSTART' not in user else True))
    src = F['antenna_source']
    drawn = N * spb * P['nb'] + P['taps'] * P['nb']
    vc.ensure('C20/record/post/antenna-clock-advanced-by-n*spb*branches+warm-up-window', eq(src.fields['t_start'], P['t0'] + drawn / P['sr']))
    # --- owned fields describe the configuration and cannot be overridden; user cards preserved; merge order
    cbw = (1 if P['asc'] else -1) * P['sr'] / P['nb']
    owned = And(eq(hd['NBITS'], nbits), eq(hd['NPOL'], npol), eq(hd['OBSNCHAN'], P['nc']), eq(hd['BLOCSIZE'], bs), eq(hd['TBIN'], P['nb'] / P['sr']),
                eq(hd['CHAN_BW'], cbw / 10 ** 6), eq(hd['OBSBW'], cbw * P['nc'] / 10 ** 6),
                eq(hd['OBSFREQ'], (F['fch1'] + (P['sc'] + (P['nc'] - 1) / 2) * cbw) / 10 ** 6), eq(hd['SCANLEN'], N * tpb))
    vc.ensure('C04/record/post/pipeline-fields-describe-the-configuration-and-cannot-be-overridden', owned)
    vc.ensure('C04/record/post/NANTS-absent-for-a-single-antenna', 'NANTS' not in hd)
    if user is not None:
        vc.ensure('C04/record/post/user-cards-preserved', And(hd['MYCARD'] is user_before['MYCARD'], hd['TELESCOP'] is user_before['TELESCOP']))
    if template:
        vc.ensure('C04/record/post/template-cards-present-unless-overridden', And('BACKEND' in hd or True, len(hd) >= 10))
    else:
        vc.ensure('C04/record/post/no-template-cards-without-load_template', 'DAQPULSE' not in hd)
    # --- C12: the caller's dictionary is not modified
    if user is not None:
        vc.ensure('C12/record/frame/caller-dictionary-not-modified', And(set(user) == set(user_before), *[user[k] is user_before[k] for k in user_before]))


# ------------------------------------------------------------------------------------------------------------
# readers

from pyvc.rawfile import Layout, RawFileR, SymDict


def writer_layout(vc, name='L', directio=None, extra=None):
    """Header fields of a file written by record() (writer specification proved above)."""
    fields = {'BLOCSIZE': Int(name + '_blocsize'), 'NBITS': Int(name + '_nbits'), 'NPOL': Int(name + '_npol'), 'OBSNCHAN': Int(name + '_obsnchan'),
              'TBIN': Real(name + '_tbin'), 'CHAN_BW': Real(name + '_chan_bw'), 'OBSFREQ': Real(name + '_obsfreq'), 'SCANLEN': Real(name + '_scanlen')}
    if directio == 'absent':
        pass
    else:
        d = Int(name + '_directio') if directio is None else directio
        fields['DIRECTIO'] = d
    if extra:
        fields.update(extra)
    lay = Layout(name, fields)
    if 'NANTS' not in fields:
        lay.absent.add('NANTS')          # single-antenna recordings carry no NANTS card (writer contract)
    vc.assume(And(lay.blocsize >= 1, lay.ncards <= 10 ** 6))
    return lay


class ReadHeaderLoop:
    def __init__(self, vc, lay, fobj):
        self.vc, self.lay, self.fobj = vc, lay, fobj

    def havoc(self, interp, env, k, phase):
        f = env.get('f')
        f.cursor = 80 * (k + 1)
        env.set('header_dict', SymDict(self.lay, k))
        from pyvc.rawfile import Chunk
        env.set('chunk', Chunk(f, 80 * k, 80))
        env.vars.pop('key', None)
        env.vars.pop('val', None)
        self.vc.assume(k <= self.lay.ncards)

    def inv(self, interp, env, k):
        # after k iterations: the dictionary holds cards 0..k-1, the current chunk is card k, the cursor is behind it
        hd, f, ch = env.get('header_dict'), env.get('f'), env.get('chunk')
        cnt = hd.count if isinstance(hd, SymDict) else len(hd)
        return And(eq(cnt, k), eq(f.cursor, 80 * (k + 1)), eq(ch.start, 80 * k), eq(ch.length, 80), Sym.lift(k) <= self.lay.ncards)

    def variant(self, interp, env):
        return self.lay.ncards - env.get('header_dict').count


def open_raw(vc, files):
    """open() returns the modelled RAW file registered under the name."""
    def hook(path, mode):
        key = path if isinstance(path, str) else getattr(path, 'text', None) or id(path)
        if key not in files:
            raise Unsupported(f"open of unmodelled file {key!r}")
        f = files[key]() if callable(files[key]) else files[key]
        return f
    vc.interp.open_hook = hook


@contract('C04', 'read_header', functions=[RU + ':read_header', RU + ':get_header_key_val'])
def read_header(vc):
    lay = writer_layout(vc, directio=('absent', None)[vc.choose(2, 'DIRECTIO-card')])
    nb = Int('nblocks')
    vc.assume(nb >= 1)
    f = RawFileR(lay, nb)
    open_raw(vc, {'x.0000.raw': f})
    vc.interp.loop_specs[(RU + ':read_header', 0)] = ReadHeaderLoop(vc, lay, f)
    out = vc.call(RU + ':read_header', 'x.0000.raw')
    vc.cover('reachable')
    vc.ensure('C04/read_header/exc/none', out.ok)
    if not out.ok:
        return
    hd = out.value
    vc.ensure('C04/read_header/post/all-cards-before-END', And(isinstance(hd, SymDict), eq(hd.count, lay.ncards)))
    v = vc.run(lambda: vc.interp.call(LIBCALL('builtins.int'), [vc.interp.getitem(hd, 'BLOCSIZE')], {}))
    vc.ensure('C04/read_header/post/values-parse-back', And(v.ok, eq(v.value, lay.blocsize)))


def LIBCALL(name):
    return I.LibRef(name)


def header_contract(vc, lay):
    """Modular use of read_header: returns the header of the layout registered for the file name."""
    def spec(interp, clo, args, kwargs):
        name = args[0]
        return SymDict(vc.layouts[name if isinstance(name, str) else getattr(name, 'text', name)], lay.ncards)
    vc.interp.call_specs[RU + ':read_header'] = spec


class CountLoop:
    """get_blocks_in_file/loop#0: while f.read(block_read_size): count += 1."""

    def __init__(self, vc, f, brs_of):
        self.vc, self.f, self.brs_of = vc, f, brs_of

    def havoc(self, interp, env, k, phase):
        env.set('count', k)
        f = env.get('f')
        if phase == 'pres':
            # preservation is proved for an arbitrary read size B >= 1 and file size S >= 0 (generalisation: the step does not
            # depend on how they were computed; keeps the nonlinear header-size arithmetic out of this obligation)
            B, S = Int('any_read_size'), Int('any_file_size')
            self.vc.assume(And(B >= 1, S >= 0))
            env.set('block_read_size', B)
            f.size = S
            f.cursor = smin(k * B, S)
            return
        brs = env.get('block_read_size')
        f.cursor = smin(k * brs, f.size)
        lay = f.layout
        # prompting: 512*ceil(raw/512) is raw rounded up to the next multiple of 512 (the writer's padded size)
        raw = 80 * (lay.ncards + 1)
        self.vc.lemma('C04/get_blocks_in_file/lemma/ceil-to-512', eq(512 * ceil(raw / 512), raw + (512 - raw % 512) % 512))
        if phase == 'exit':
            self.vc.lemma('C04/get_blocks_in_file/lemma/exit-count', Implies(And(eq(brs, lay.blocklen), k * brs >= f.size, (k - 1) * brs < f.size, brs >= 1), eq(k, f.nblocks)))

    def inv(self, interp, env, k):
        f = env.get('f')
        brs = env.get('block_read_size')
        return And(eq(env.get('count'), k), eq(f.cursor, smin(k * brs, f.size)), (k - 1) * brs < f.size if not (is_conc(k) and k == 0) else True, brs >= 1)

    def variant(self, interp, env):
        f = env.get('f')
        return f.size - f.cursor + 1


@contract('C04', 'get_blocks_in_file', functions=[RU + ':get_blocks_in_file', RU + ':get_blocks_per_file'])
def get_blocks_in_file(vc):
    dform = ('absent', 'zero', 'one', 'sym')[vc.choose(4, 'DIRECTIO')]
    d = {'absent': 'absent', 'zero': 0, 'one': 1, 'sym': None}[dform]
    lay = writer_layout(vc, directio=d)
    nb = Int('nblocks')
    vc.assume(nb >= 1)
    vc.layouts = {'x.0000.raw': lay}
    header_contract(vc, lay)
    mk = lambda: RawFileR(lay, nb)
    open_raw(vc, {'x.0000.raw': mk})
    vc.interp.loop_specs[(RU + ':get_blocks_in_file', 0)] = CountLoop(vc, None, None)
    via = vc.choose(2, 'entry')
    out = vc.call(RU + ':get_blocks_in_file', 'x.0000.raw') if via == 0 else vc.call(RU + ':get_blocks_per_file', 'x')
    vc.cover('reachable')
    vc.ensure(f'C04/get_blocks_in_file/DIRECTIO-{dform}/exc/none', out.ok)
    if out.ok:
        vc.ensure(f'C04/get_blocks_in_file/DIRECTIO-{dform}/post/count-equals-blocks-written', eq(out.value, nb))


@contract('C04', 'get_total_blocks', functions=[RU + ':get_total_blocks', RU + ':get_blocks_per_file'],
          note="directory listing order is nondeterministic: every permutation of 1-3 files is explored; get_blocks_in_file through its contract")
def get_total_blocks(vc):
    import itertools
    nfiles = 1 + vc.choose(3, 'files')
    names = [f'stem.{i:04d}.raw' for i in range(nfiles)]
    perms = list(itertools.permutations(names))
    order = list(perms[vc.choose(len(perms), 'listing-order')])
    bpf, last = Int('blocks_per_file'), Int('blocks_in_last_file')
    vc.assume(And(bpf >= 1, last >= 1, last <= bpf))
    counts = {n: (bpf if i < nfiles - 1 else last) for i, n in enumerate(names)}
    vc.interp.glob_hook = lambda pattern: list(order)
    vc.interp.call_specs[RU + ':get_blocks_in_file'] = lambda interp, clo, args, kwargs: counts[args[0]]
    out = vc.call(RU + ':get_total_blocks', 'stem')
    vc.cover('reachable')
    vc.ensure('C04/get_total_blocks/exc/none', out.ok)
    if out.ok:
        vc.ensure('C04/get_total_blocks/post/total-for-every-listing-order', eq(out.value, (nfiles - 1) * bpf + last))


@contract('C04', 'from_data_header_size', functions=[BK + '.from_data', RU + ':get_raw_params'],
          note="from_data: the header size used to step through the input equals the writer's header size (padded iff DIRECTIO != 0)")
def from_data_header_size(vc):
    dform = ('absent', 'zero', 'one')[vc.choose(3, 'DIRECTIO')]
    d = {'absent': 'absent', 'zero': 0, 'one': 1}[dform]
    lay = writer_layout(vc, directio=d)
    npol = 1 + vc.choose(2, 'num_pols')
    nbits = (8, 4)[vc.choose(2, 'num_bits')]
    vc.assume(And(eq(lay.fields['NBITS'], nbits), eq(lay.fields['NPOL'], 4 if npol == 2 else 1), lay.fields['OBSNCHAN'] >= 1))
    vc.layouts = {'in.0000.raw': lay}
    header_contract(vc, lay)
    vc.interp.call_specs[RU + ':get_blocks_per_file'] = lambda interp, clo, args, kwargs: Int('in_bpf')
    vc.interp.call_specs[RU + ':get_total_blocks'] = lambda interp, clo, args, kwargs: Int('in_total')
    sr = Real('sample_rate')
    vc.assume(sr > 0)
    src = vc.interp.call(classref(vc, ANT), [], dict(sample_rate=sr, fch1=Real('fch1'), ascending=True, num_pols=npol, t_start=0, seed=Int('seed')))
    taps, nb = Int('num_taps'), Int('num_branches')
    vc.assume(And(taps >= 1, nb >= 2, lay.fields['OBSNCHAN'] <= nb // 2))
    fb = mkobj(vc, 'setigen.voltage.polyphase_filterbank:PolyphaseFilterbank', num_taps=taps, num_branches=nb, window=symbolic_array('h', (taps * nb,)),
               window_fn='hamming', cache=None, channelized_stds=None)
    fb.partial = False
    bps = 2 * npol * nbits // 8
    vc.assume(eq(lay.blocsize % (lay.fields['OBSNCHAN'] * taps * bps), 0))
    cls = classref(vc, BK)
    out = vc.run(lambda: vc.interp.call(vc.interp.getattr(cls, 'from_data'), ['in', src], dict(filterbank=fb, start_chan=0)))
    vc.cover('reachable')
    vc.ensure(f'C04/from_data/DIRECTIO-{dform}/exc/none', out.ok)
    if not out.ok:
        return
    F = out.value.fields
    raw = 80 * (lay.ncards + 1)
    vc.lemma('C04/from_data/lemma/ceil-to-512', eq(512 * ceil(raw / 512), raw + (512 - raw % 512) % 512))
    vc.ensure(f'C04/from_data/DIRECTIO-{dform}/post/header_size-equals-the-written-header-size', eq(F['header_size'], lay.hsize))
    vc.ensure(f'C14/from_data/post/same-framing-as-input', And(eq(F['block_size'], lay.blocsize), eq(F['num_bits'], nbits), eq(F['num_chans'], lay.fields['OBSNCHAN']),
                                                              eq(F['blocks_per_file'], Int('in_bpf')), eq(F['input_num_blocks'], Int('in_total'))))
    # the output has the input's bit depth: every requantiser of the backend - and both of its component quantisers - clips to it
    rqs = [q for row in F['requantizer'] for q in row]
    vc.ensure(f'C14/from_data/post/requantiser-and-both-components-use-the-input-bit-depth',
              And(len(rqs) == npol, *[And(eq(q.fields['num_bits'], nbits), eq(q.fields['quantizer_r'].fields['num_bits'], nbits), eq(q.fields['quantizer_i'].fields['num_bits'], nbits)) for q in rqs]))


# PKTIDX advances by the backend's samples_per_block (record_framing above); that this attribute is the number of time samples one
# block of BLOCSIZE bytes holds for *every* antenna / polarisation / bit-depth configuration is C20's constructor contract, discharged
# again here because "PKTIDX advances by the samples-per-block" is a clause of this property
from . import c20 as _C20
contract('C04', 'samples_per_block_matches_block_size', functions=[BK + '.__init__'], mode='int')(_C20.backend_init)
