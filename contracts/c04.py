"""C04 - recorded files are well-formed GUPPI RAW and all readers agree on framing."""
import os
from .common import *

PROP_LEVEL['C04'] = 'proof'
PROP_TRUSTED['C04'] = [
    "strings are modelled by length and a few predicates: len(format(s, '<w')) = max(w, len(s)); renderings of numbers have a symbolic length",
    "a valid card has a key of at most 8 characters and a rendered value of at most 70 characters (precondition from the property)",
    "file objects are modelled as byte counters with a structural log (text / zero padding / array bytes); agreement with blimpy's GuppiRaw reader is bounded (native run)",
    "_make_header is verified for every card count 1..40 (all residues of 80*n mod 512) with symbolic values; record() uses it through its contract",
]
PROP_EXPLANATION['C04'] = "card width, header size and padding rule, PKTIDX, file split and block order (loop invariants), owned fields, merge order, readers"

RU = 'setigen.voltage.raw_utils'
BK = 'setigen.voltage.backend:RawVoltageBackend'


def valid_key():
    k = I.SStr(Int('keylen'), None, tag='key')
    return k


@contract('C04', 'format_header_line', functions=[RU + ':format_header_line'])
def format_header_line(vc):
    form = ('encoded-quoted', 'encoded-plain', 'string', 'number', 'TBIN')[vc.choose(5, 'value-form')]
    key = 'TBIN' if form == 'TBIN' else I.SStr(Int('keylen'), None, tag='key')
    if form != 'TBIN':
        vc.assume(And(key.length >= 1, key.length <= 8))
    if form in ('encoded-quoted', 'encoded-plain'):
        v = I.SStr(Int('vallen'), None, tag='value')
        vc.assume(And(v.length >= 1, v.length <= 70))
        vc.assume(v.pred('has_quote') if form == 'encoded-quoted' else Not(v.pred('has_quote')))
        out = vc.call(RU + ':format_header_line', key, v, as_strings=True)
    elif form == 'string':
        v = I.SStr(Int('vallen'), None, tag='value')
        vc.assume(And(v.length >= 0, v.length <= 68))         # rendered as '<value padded to 8>' : at most 70 characters
        out = vc.call(RU + ':format_header_line', key, v)
    else:
        v = Real('value') if form == 'TBIN' else (Int('ivalue') if vc.choose(2, 'int-or-float') == 0 else Real('value'))
        out = vc.call(RU + ':format_header_line', key, v)
        for (val, n) in getattr(vc.interp, 'render_lengths', {}).values():
            vc.assume(n <= 70)
    vc.cover('reachable')
    vc.ensure(f'C04/format_header_line/{form}/exc/none', out.ok)
    if not out.ok:
        return
    line = out.value
    ln = line.length if isinstance(line, I.SStr) else len(line)
    vc.ensure(f'C04/format_header_line/{form}/post/exactly-80-characters', eq(ln, 80))
    # structure: key left-justified in columns 0-7, '= ' in columns 8-9
    inner = line.formatted_from if isinstance(line, I.SStr) and hasattr(line, 'formatted_from') else None
    parts = inner.tag[1] if inner is not None and isinstance(inner.tag, tuple) and inner.tag[0] == 'concat' else None
    ok_struct = parts is not None and len(parts) == 3 and parts[1] == '= '
    if ok_struct:
        p0 = parts[0]
        l0 = p0.length if isinstance(p0, I.SStr) else len(p0)
        vc.ensure(f'C04/format_header_line/{form}/post/key-in-columns-0-7-equals-sign-at-8', eq(l0, 8))
    else:
        vc.ensure(f'C04/format_header_line/{form}/post/key-in-columns-0-7-equals-sign-at-8', False)


def header_dict_for(vc, n_cards, directio):
    """A header dictionary with n_cards entries (symbolic values of mixed types) incl. PKTIDX and optionally DIRECTIO."""
    d = {}
    if directio != 'absent':
        d['DIRECTIO'] = {'0': 0, '1': 1, 'str1': '1', 'quoted1': "'1'", 'str0': '0', 'bad': 'abc', 'sym': Int('directio')}[directio]
    d['PKTIDX'] = Int('pktidx0')
    k = 0
    while len(d) < n_cards:
        which = k % 4
        if which == 0:
            v = I.SStr(Int(f'sv{k}_len'), None, tag=f'v{k}')
            vc.assume(And(v.length >= 1, v.length <= 68))
            vc.assume(Not(v.pred('starts_quote')))
        elif which == 1:
            v = Int(f'iv{k}')
        elif which == 2:
            v = Real(f'fv{k}')
        else:
            v = I.SStr(Int(f'qv{k}_len'), None, tag=f'q{k}')
            vc.assume(And(v.length >= 2, v.length <= 70, v.pred('starts_quote')))
        d[f'K{k:03d}'] = v
        k += 1
    return d


@contract('C04', 'make_header', functions=[BK + '._make_header', RU + ':format_header_line'])
def make_header(vc):
    n_cards = 1 + vc.choose(40, 'cards')
    if n_cards < 2:
        n_cards = 2
    directio = ('absent', '0', '1', 'str1', 'quoted1', 'str0', 'bad', 'sym')[vc.choose(8, 'DIRECTIO')]
    hd = header_dict_for(vc, n_cards, directio)
    n = len(hd)
    spb = Int('samples_per_block')
    b = mkobj(vc, BK, samples_per_block=spb)
    f = L.FileW('out.raw')
    pk0 = hd['PKTIDX']
    keys0 = list(hd)
    vals0 = dict(hd)
    out = vc.call(BK + '._make_header', b, f, hd)
    for (val, ln) in getattr(vc.interp, 'render_lengths', {}).values():
        vc.assume(ln <= 70)                                  # valid cards (renderings fit)
    vc.cover('reachable')
    vc.ensure('C04/_make_header/exc/none', out.ok)
    if not out.ok:
        return
    on = {'absent': False, '0': False, '1': True, 'str1': True, 'quoted1': True, 'str0': False, 'bad': False}.get(directio)
    if directio == 'sym':
        on = Not(eq(hd['DIRECTIO'], 0)) if 'DIRECTIO' in hd else False
    raw = 80 * (n + 1)
    pad = (512 - raw % 512) % 512
    want = raw + sym_if(on, pad, 0) if not isinstance(on, bool) else raw + (pad if on else 0)
    vc.ensure('C04/_make_header/post/header-size=80*(cards+1)+padding-to-512-iff-DIRECTIO-and-unaligned', eq(f.nbytes, want))
    texts = [w for w in f.log if w[0] == 'text']
    vc.ensure('C04/_make_header/post/one-80-byte-card-per-entry-plus-END', And(len(texts) == n + 1, *[eq(w[1], 80) for w in texts]))
    vc.ensure('C04/_make_header/post/END-card-last', isinstance(texts[-1][2], bytes) and texts[-1][2] == f"{'END':<80}".encode())
    zeros = [w for w in f.log if w[0] == 'zeros']
    vc.ensure('C04/_make_header/post/padding-is-zero-bytes-after-END', all(f.log.index(z) == len(f.log) - 1 for z in zeros) and len(zeros) <= 1)
    vc.ensure('C04/_make_header/post/PKTIDX-advances-by-samples-per-block', eq(hd['PKTIDX'], pk0 + spb))
    same = [k for k in keys0 if k not in ('PKTIDX', 'DIRECTIO')]
    vc.ensure('C04/_make_header/frame/other-cards-untouched', And(list(hd) == keys0 or (directio == 'bad'), *[hd[k] is vals0[k] for k in same]))
