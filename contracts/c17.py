"""C17 - derived frames (slice, de-drift, integrate) keep data and axis registration."""
from .common import *

PROP_LEVEL['C17'] = 'proof'
PROP_TRUSTED['C17'] = [
    "np.round half-even; astropy sigma_clip (normalize=True branch) trusted and not verified",
    "check_waterfall() with an attached blimpy Waterfall is covered by C03's assumed contract; here waterfall is None",
]
PROP_EXPLANATION['C17'] = "index contracts of get_slice/dedrift/integrate at symbolic pixel, inherited attributes, copy-not-view"

FR = FRAME


def axes_of(res):
    return res.fields['fs'], res.fields['ts']


def inherited(vc, tag, res, f, p, df=None, dt=None):
    R, F = res.fields, f.fields
    vc.ensure(f'C17/{tag}/post/inherits-orientation', R['ascending'] == F['ascending'])
    vc.ensure(f'C17/{tag}/post/inherits-df', eq(R['df'], p['df'] if df is None else df))
    vc.ensure(f'C17/{tag}/post/inherits-dt', eq(R['dt'], p['dt'] if dt is None else dt))
    vc.ensure(f'C17/{tag}/post/inherits-t_start', eq(R['t_start'], F['t_start']))
    vc.ensure(f'C17/{tag}/post/inherits-source_name', R['source_name'] is F['source_name'])
    vc.ensure(f'C17/{tag}/post/data-is-copy-not-view', R['data'].root() is not F['data'].root())


@contract('C17', 'get_slice', functions=['setigen.slice:get_slice', FR + '.from_data', FR + '.__init__', FR + '._update_fs', FR + '.check_waterfall'])
def get_slice(vc):
    asc = bool(vc.choose(2, 'ascending'))
    f, p = frame_obj(vc, asc)
    l, r = Int('l'), Int('r')
    vc.assume(And(l >= 0, l < r, r <= p['n']))
    writes0 = f.fields['data'].writes
    out = vc.call('setigen.slice:get_slice', f, l, r)
    vc.cover('reachable')
    vc.ensure('C17/get_slice/exc/none', out.ok)
    if not out.ok:
        return
    res = out.value
    i, j = fresh_idx('i', 'j')
    inr = And(i >= 0, i < p['T'], j >= 0, j < r - l)
    R = res.fields
    vc.ensure('C17/get_slice/post/shape', And(eq(R['fchans'], r - l), eq(R['tchans'], p['T']), eq(R['data'].shape[0], p['T']), eq(R['data'].shape[1], r - l)))
    vc.ensure('C17/get_slice/post/data-columns-l..r-1', Implies(inr, eq(R['data'].at((i, j)), p['data'].at((i, l + j)))))
    vc.ensure('C17/get_slice/post/fs-columns-l..r-1', Implies(inr, eq(R['fs'].at((j,)), p['fs'].at((l + j,)))))
    vc.ensure('C17/get_slice/post/ts', Implies(inr, eq(R['ts'].at((i,)), p['ts'].at((i,)))))
    vc.ensure('C17/get_slice/post/fmin-fmax', And(eq(R['fmin'], p['fs'].at((l,))), eq(R['fmax'], p['fs'].at((r - 1,)))))
    vc.ensure('C17/get_slice/frame/parent-data-untouched', f.fields['data'].writes == writes0)
    inherited(vc, 'get_slice', res, f, p)


class DedriftLoop:
    """Invariant of dedrift/loop#0 (row map loop): rows < k hold the shifted parent rows."""

    def __init__(self, vc, p, d, i_s, j_s):
        self.vc, self.p, self.d, self.i, self.j = vc, p, d, i_s, j_s

    def off(self, row):
        p = self.p
        return round_half_even(abs(self.d) * row * p['dt'] / p['df'])

    def spec(self, row, col, W, mo):
        p = self.p
        if self.dsign_nonneg:
            return p['data'].at((row, col + self.off(row)))
        return p['data'].at((row, p['n'] - self.off(row) - W + col))

    def havoc(self, interp, env, k, phase):
        W = env.get('tr_data').shape[1]
        self.W = W
        env.set('tr_data', symbolic_array('tr_data_h', (self.p['T'], W)))
        for nm in ('offset', 'start_idx', 'end_idx', 'i'):
            env.vars.pop(nm, None)
        if phase == 'pres':
            p = self.p
            x = abs(self.d) * p['dt'] / p['df']
            self.vc.lemma('C17/dedrift/lemma/offset-monotone', And(x >= 0, x * k <= x * p['T']))
            self.vc.lemma('C17/dedrift/lemma/offset-argument-form', And(eq(abs(self.d) * k * p['dt'] / p['df'], x * k),
                                                                         eq(abs(self.d) * p['T'] * p['dt'] / p['df'], x * p['T'])))
            mo = round_half_even(abs(self.d) * p['T'] * p['dt'] / p['df'])
            self.vc.lemma('C17/dedrift/lemma/0<=offset<=max_offset', And(self.off(k) >= 0, self.off(k) <= mo))

    def inv(self, interp, env, k):
        tr = env.get('tr_data')
        W = tr.shape[1]
        mo = env.get('max_offset')
        inr = And(self.i >= 0, self.i < k, self.j >= 0, self.j < W)
        return Implies(inr, eq(tr.at((self.i, self.j)), self.spec(self.i, self.j, W, mo)))


@contract('C17', 'dedrift', functions=['setigen.dedrift:dedrift', FR + '.from_data', FR + '.__init__', FR + '._update_fs'])
def dedrift(vc):
    asc = bool(vc.choose(2, 'ascending'))
    nonneg = bool(vc.choose(2, 'drift>=0'))
    f, p = frame_obj(vc, asc)
    d = Real('drift_rate')
    vc.assume(d >= 0 if nonneg else d < 0)
    i, j = fresh_idx('i', 'j')
    spec = DedriftLoop(vc, p, d, i, j)
    spec.dsign_nonneg = nonneg
    vc.interp.loop_specs[('setigen.dedrift:dedrift', 0)] = spec
    mo = round_half_even(abs(d) * p['T'] * p['dt'] / p['df'])
    # lemma (monotone rounding): off(row) <= mo for rows in range -- instantiated at the rows the proof uses
    out = vc.call('setigen.dedrift:dedrift', f, d)
    vc.cover('reachable')
    too_high = mo >= p['n']
    if not out.ok:
        vc.ensure('C17/dedrift/exc/only-ValueError', out.exc == 'ValueError')
        vc.ensure('C17/dedrift/exc/rejects-only-rates-leaving-no-channels', too_high)
        return
    vc.ensure('C17/dedrift/post/accepts-only-rates-leaving-channels', Not(too_high))
    res = out.value
    R = res.fields
    W = p['n'] - mo
    inr = And(i >= 0, i < p['T'], j >= 0, j < W)
    vc.ensure('C17/dedrift/post/shape', And(eq(R['fchans'], W), eq(R['tchans'], p['T'])))
    off_i = spec.off(i)
    if nonneg:
        vc.ensure('C17/dedrift/post/row-i-shifted-by-round(|d|*i*dt/df)', Implies(inr, eq(R['data'].at((i, j)), p['data'].at((i, j + off_i)))))
        vc.ensure('C17/dedrift/post/row0-keeps-frequencies', Implies(And(j >= 0, j < W), eq(R['fs'].at((j,)), p['fs'].at((j,)))))
    else:
        vc.ensure('C17/dedrift/post/row-i-shifted-by-round(|d|*i*dt/df)', Implies(inr, eq(R['data'].at((i, j)), p['data'].at((i, j + mo - off_i)))))
        vc.ensure('C17/dedrift/post/row0-keeps-frequencies', Implies(And(j >= 0, j < W), eq(R['fs'].at((j,)), p['fs'].at((j + mo,)))))
    inherited(vc, 'dedrift', res, f, p)


@contract('C17', 'dedrift_metadata_rate', functions=['setigen.dedrift:dedrift'])
def dedrift_meta(vc):
    f, p = frame_obj(vc, True)
    has = bool(vc.choose(2, 'has-key'))
    d = Real('drift_rate')
    if has:
        f.fields['metadata']['drift_rate'] = d
    i, j = fresh_idx('i', 'j')
    spec = DedriftLoop(vc, p, d, i, j)
    spec.dsign_nonneg = True
    vc.assume(d >= 0)
    vc.interp.loop_specs[('setigen.dedrift:dedrift', 0)] = spec
    out = vc.call('setigen.dedrift:dedrift', f)
    if not has:
        vc.ensure('C17/dedrift/exc/KeyError-iff-no-rate', And(not out.ok, out.exc == 'KeyError'))
    else:
        vc.ensure('C17/dedrift/post/uses-metadata-rate', Or(out.ok, out.exc == 'ValueError'))


@contract('C17', 'integrate', functions=['setigen.integrate:integrate', 'setigen.integrate:spectrum', 'setigen.integrate:timeseries',
                                         'setigen.spectrum:Spectrum.__init__', 'setigen.timeseries:TimeSeries.__init__', 'setigen.utils:array'])
def integrate(vc):
    asc = bool(vc.choose(2, 'ascending'))
    axis = ('t', 'f', 0, 1)[vc.choose(4, 'axis')]
    mode = ('mean', 'sum', 's')[vc.choose(3, 'mode')]
    as_frame = bool(vc.choose(2, 'as_frame'))
    f, p = frame_obj(vc, asc)
    out = vc.call('setigen.integrate:integrate', f, axis=axis, mode=mode, as_frame=as_frame)
    vc.cover('reachable')
    vc.ensure('C17/integrate/exc/none', out.ok)
    if not out.ok:
        return
    i, j = fresh_idx('i', 'j')
    over_f = axis in ('f', 1)
    is_sum = mode[0] == 's'
    D = p['data']
    if over_f:
        tot = L.sum_term(p['n'], lambda c: D.at((i, c)))
        want = tot if is_sum else tot / p['n']
        rng_ok = And(i >= 0, i < p['T'])
    else:
        tot = L.sum_term(p['T'], lambda r: D.at((r, j)))
        want = tot if is_sum else tot / p['T']
        rng_ok = And(j >= 0, j < p['n'])
    if not as_frame:
        v = out.value
        vc.ensure('C17/integrate/post/1d-length', And(v.ndim == 1, eq(v.shape[0], p['T'] if over_f else p['n'])))
        vc.ensure('C17/integrate/post/value', Implies(rng_ok, eq(v.at((i,) if over_f else (j,)), want)))
        return
    res = out.value
    R = res.fields
    if over_f:
        vc.ensure('C17/integrate/post/timeseries-shape', And(eq(R['tchans'], p['T']), eq(R['fchans'], 1)))
        vc.ensure('C17/integrate/post/value', Implies(rng_ok, eq(R['data'].at((i, 0)), want)))
        vc.ensure('C17/integrate/post/timeseries-carries-parent-ts', Implies(rng_ok, eq(R['ts'].at((i,)), p['ts'].at((i,)))))
        inherited(vc, 'integrate', res, f, p, df=p['df'] * p['n'])
    else:
        vc.ensure('C17/integrate/post/spectrum-shape', And(eq(R['tchans'], 1), eq(R['fchans'], p['n'])))
        vc.ensure('C17/integrate/post/value', Implies(rng_ok, eq(R['data'].at((0, j)), want)))
        vc.ensure('C17/integrate/post/spectrum-carries-parent-fs', Implies(rng_ok, eq(R['fs'].at((j,)), p['fs'].at((j,)))))
        inherited(vc, 'integrate', res, f, p, dt=p['dt'] * p['T'])


@contract('C17', 'integrate_normalized', functions=['setigen.integrate:integrate', 'setigen.timeseries:TimeSeries.__init__', 'setigen.spectrum:Spectrum.__init__'],
          note="normalize=True: the sigma-clipped set is astropy's (trusted); the clause is that the returned values are (x - mean(clipped))/std(clipped) in every output form")
def integrate_normalized(vc):
    axis = ('t', 'f')[vc.choose(2, 'axis')]
    as_frame = bool(vc.choose(2, 'as_frame'))
    f, p = frame_obj(vc, True)
    out = vc.call('setigen.integrate:integrate', f, axis=axis, mode='mean', normalize=True, as_frame=as_frame)
    vc.ensure('C17/integrate/normalize/exc/none', out.ok)
    if not out.ok:
        return
    calls = getattr(vc.interp, 'sigma_clip_calls', [])
    D = p['data']
    i = Int('i')
    over_f = axis == 'f'
    nlen = p['T'] if over_f else p['n']
    raw = (L.sum_term(p['n'], lambda c: D.at((i, c))) / p['n']) if over_f else (L.sum_term(p['T'], lambda r: D.at((r, i))) / p['T'])
    # the first sigma_clip call is the one on the integrated data
    clipped = calls[0][1]
    m = L.sum_term(clipped.shape[0], lambda q: clipped.at((q,))) / clipped.shape[0]
    var = L.sum_term(clipped.shape[0], lambda q: (clipped.at((q,)) - m) * (clipped.at((q,)) - m)) / clipped.shape[0]
    sd = sqrt(var)
    want = (raw - m) / sd
    if as_frame:
        got = out.value.fields['data'].at((i, 0) if over_f else (0, i))
    else:
        got = out.value.at((i,))
    vc.ensure('C17/integrate/normalize/post/(x-mean(clipped))/std(clipped)-in-every-output-form', Implies(And(i >= 0, i < nlen), eq(got, want)))


@contract('C17', 'spectrum_and_timeseries_wrappers', functions=['setigen.integrate:spectrum', 'setigen.integrate:timeseries'])
def wrappers(vc):
    """spectrum(fr, ...) / timeseries(fr, ...) are integrate(fr, axis=time / frequency, as_frame=True) with the caller's mode and normalisation
    passed through unchanged."""
    which = ('spectrum', 'timeseries')[vc.choose(2, 'wrapper')]
    f, p = frame_obj(vc, True)
    seen = {}

    def integrate_contract(interp, clo, args, kwargs):
        seen['kw'] = interp.bind_args(clo, args, kwargs)
        return 'INTEGRATED'
    vc.interp.call_specs['setigen.integrate:integrate'] = integrate_contract
    M, Nz = I.SStr.fresh('mode') if hasattr(I.SStr, 'fresh') else 'sum', Bool('normalize')
    out = vc.call('setigen.integrate:' + which, f, mode=M, normalize=Nz)
    vc.cover('reachable')
    vc.ensure(f'C17/{which}/exc/none', out.ok)
    if not out.ok or 'kw' not in seen:
        vc.ensure(f'C17/{which}/pre@callsite/delegates-to-integrate', False)
        return
    kw = seen['kw']
    ax = kw.get('axis')
    want_axis = (ax in ('t', 0)) if which == 'spectrum' else (ax in ('f', 1))
    vc.ensure(f'C17/{which}/pre@callsite/integrate-called-with-the-callers-mode-and-normalisation',
              And(kw.get('fr') is f, want_axis, kw.get('mode') is M, kw.get('normalize') is Nz, kw.get('as_frame') is True, out.value == 'INTEGRATED'))
