"""C02 - recorded RAW samples equal the reference pipeline, whatever the partitioning."""
from .common import *
from . import c04 as C4

PROP_LEVEL['C02'] = 'proof'
PROP_TRUSTED['C02'] = [
    "the stage contracts used at the call sites are the ones proved elsewhere: antenna get_samples (C10: consecutive requests enumerate the "
    "stream in order), quantisers (C09: pointwise map into the signed range; statistics fixed = 'taken from a common prefix'), "
    "PolyphaseFilterbank.channelize (C08: spectra of the whole stream at positions pos..pos+rows, none missing or repeated)",
    "one antenna (1-2 polarisations) in the sub-block contract; the antenna loop body is the same for every antenna",
    "FFT numerics / the literal bytes on disk: bounded native run against a straight-line reference pipeline",
]
PROP_EXPLANATION['C02'] = ("sub-block loop invariant of collect_data_block: window/sample accounting, every (channel, time, polarisation, re/im) "
                           "byte = requantised spectrum at the right global position in GUPPI layout, every byte written; record() loops (C04)")

BK = C4.BK


def pipeline(vc, npol, nbits, digitize, start_obs):
    """A backend record plus stage contracts with ghost stream positions."""
    nb, nc, sc = Int('num_branches'), Int('num_chans'), Int('start_chan')
    # enumerated (keeps the window arithmetic within the solver's reach); the thorough tier widens the enumeration
    TAPS = (1, 2, 3, 8) if vc.tier != 'thorough' else (1, 2, 3, 4, 5, 8, 16)
    taps = TAPS[vc.choose(len(TAPS), 'num_taps')]
    M, nsub = Int('windows_per_block'), Int('num_subblocks')
    vc.assume(And(nb >= 2, nc >= 1, sc >= 0, sc + nc <= nb // 2, M >= 1, nsub >= 1))
    bps = 2 * npol * nbits // 8
    T = M * taps
    bs = T * nc * bps
    if start_obs:
        d0, pos0 = 0, 0
    else:
        d0, pos0 = Int('delivered0'), Int('pos0')
        vc.assume(And(pos0 >= 0, eq(d0, (pos0 + taps) * nb)))
    ghost = dict(delivered=d0, delivered0=d0, start=start_obs)
    V = [z3.Function(f'V_{p}', z3.IntSort(), z3.RealSort()) for p in range(npol)]
    DQ = [z3.Function(f'Dq_{p}', z3.RealSort(), z3.RealSort()) for p in range(npol)]
    SPR = [z3.Function(f'spec_re_{p}', z3.IntSort(), z3.IntSort(), z3.RealSort()) for p in range(npol)]
    SPI = [z3.Function(f'spec_im_{p}', z3.IntSort(), z3.IntSort(), z3.RealSort()) for p in range(npol)]
    RQR = [z3.Function(f'rq_re_{p}', z3.RealSort(), z3.IntSort()) for p in range(npol)]
    RQI = [z3.Function(f'rq_im_{p}', z3.RealSort(), z3.IntSort()) for p in range(npol)]
    lo, hi = -2 ** (nbits - 1), 2 ** (nbits - 1) - 1
    src = mkobj(vc, 'setigen.voltage.antenna:Antenna', start_obs=start_obs, num_pols=npol)
    src.partial = False
    fed = {p: d0 for p in range(npol)}            # samples fed to each filterbank so far
    spectra = {p: pos0 for p in range(npol)}      # spectra emitted by each filterbank so far

    def get_samples_contract(interp, clo, args, kwargs):
        me, n = args
        g0 = ghost['delivered']
        ghost['delivered'] = g0 + n
        me.fields['start_obs'] = False
        return SArr((1, npol, n), lambda idx: Sym(V[conc_int(idx[1])](Sym.lift(g0 + idx[2]).as_int()), 'real'), 'real')
    vc.interp.call_specs['setigen.voltage.antenna:Antenna.get_samples'] = get_samples_contract

    digs = [[mkobj(vc, 'setigen.voltage.quantization:RealQuantizer', pol=p, target_std=Real('dig_std')) for p in range(npol)]]
    fbs = [[mkobj(vc, 'setigen.voltage.polyphase_filterbank:PolyphaseFilterbank', pol=p, num_taps=taps, num_branches=nb, channelized_stds=None) for p in range(npol)]]
    rqs = [[mkobj(vc, 'setigen.voltage.quantization:ComplexQuantizer', pol=p, num_bits=nbits) for p in range(npol)]]

    def quantize_contract(interp, clo, args, kwargs):
        me, v = args[0], args[1]
        p = me.fields['pol']
        snap = v._snapshot()
        return SArr(v.shape, lambda idx: Sym(DQ[p](Sym.lift(snap(idx)).as_real()), 'real'), 'real')
    vc.interp.call_specs['setigen.voltage.quantization:RealQuantizer.quantize'] = quantize_contract

    def channelize_contract(interp, clo, args, kwargs):
        kw = interp.bind_args(clo, args, kwargs)
        me, x = kw['self'], kw['x']
        p = me.fields['pol']
        n = x.shape[0]
        Pw = taps * nb
        k = Int('k_sample')
        want = Sym(V[p](Sym.lift(fed[p] + k).as_int()), 'real')
        if digitize:
            want = Sym(DQ[p](want.as_real()), 'real')
        # pre@callsite (C08 contract): cache=True, an admissible chunk, and exactly the continuation of this stream
        vc.ensure('C02/collect_data_block/pre@callsite/channelize-with-cache-on-an-admissible-chunk', And(kw['cache'] is True, eq(n % Pw, 0), n >= Pw))
        vc.ensure('C02/collect_data_block/pre@callsite/channelize-gets-the-next-samples-of-the-stream-in-order', Implies(And(k >= 0, k < n), eq(x.at((k,)), want)))
        first = eq(fed[p], 0)
        rows = n // nb - (sym_if(first, taps, 0) if isinstance(first, Sym) else (taps if first else 0))
        s0 = spectra[p]
        fed[p] = fed[p] + n
        spectra[p] = s0 + rows
        return SArr((rows, nb // 2), lambda idx: SCplx(Sym(SPR[p](Sym.lift(s0 + idx[0]).as_int(), Sym.lift(idx[1]).as_int()), 'real'),
                                                    Sym(SPI[p](Sym.lift(s0 + idx[0]).as_int(), Sym.lift(idx[1]).as_int()), 'real')), 'complex')
    vc.interp.call_specs['setigen.voltage.polyphase_filterbank:PolyphaseFilterbank.channelize'] = channelize_contract

    def requantize_contract(interp, clo, args, kwargs):
        me, v = args[0], args[1]
        p = me.fields['pol']
        snap = v._snapshot()

        def el(idx):
            z = SCplx.lift(snap(idx))
            re = Sym(RQR[p](Sym.lift(z.re).as_real()), 'int')
            im = Sym(RQI[p](Sym.lift(z.im).as_real()), 'int')
            CTX.side.append(And(re >= lo, re <= hi, im >= lo, im <= hi).t)     # C09: range of the quantiser
            return SCplx(re, im)
        return SArr(v.shape, el, 'complex')
    vc.interp.call_specs['setigen.voltage.quantization:ComplexQuantizer.quantize'] = requantize_contract

    be = mkobj(vc, BK, antenna_source=src, num_antennas=1, is_antenna_array=False, num_pols=npol, num_chans=nc, start_chan=sc, block_size=bs, num_subblocks=nsub,
               num_taps=taps, num_branches=nb, num_bits=nbits, bytes_per_sample=bps, digitizer=digs, filterbank=fbs, requantizer=rqs, input_file_stem=None,
               sample_stage_t=0, digitizer_stage_t=0, filterbank_stage_t=0, requantizer_stage_t=0, samples_per_block=T)
    be.partial = False
    spec = dict(V=V, DQ=DQ, SPR=SPR, SPI=SPI, RQR=RQR, RQI=RQI)
    return be, dict(nb=nb, taps=taps, nc=nc, sc=sc, M=M, nsub=nsub, bps=bps, T=T, bs=bs, npol=npol, nbits=nbits, ghost=ghost, fed=fed, spectra=spectra,
                    fed0=dict(fed), pos0=pos0, src=src, spec=spec, lo=lo, hi=hi)


def stored_value(P, p, t, c, comp):
    """Property: requantised spectrum of global position pos0 + t, recorded channel c (filterbank channel start_chan + c)."""
    S = P['spec']
    n = Sym.lift(P['pos0'] + t).as_int()
    ch = Sym.lift(P['sc'] + c).as_int()
    v = Sym(S['RQR'][p](S['SPR'][p](n, ch)), 'int') if comp == 0 else Sym(S['RQI'][p](S['SPI'][p](n, ch)), 'int')
    CTX.side.append(And(v >= P['lo'], v <= P['hi']).t)          # C09: quantiser outputs lie in the signed b-bit range
    return v


def byte_spec(P, final, c, t, p):
    """GUPPI layout (property): channel-major, then time, then polarisation, then re/im; 4-bit: real high nibble, imag low nibble."""
    npol, nbits = P['npol'], P['nbits']
    R, Im = stored_value(P, p, t, c, 0), stored_value(P, p, t, c, 1)
    if nbits == 8:
        off = (t * npol + p) * 2
        return And(eq(final.at((c, off)), R), eq(final.at((c, off + 1)), Im))
    off = t * npol + p
    packed = R * 16 + sym_if(Im < 0, Im + 16, Im)
    return eq(final.at((c, off)), packed)


class SubblockLoop:
    def __init__(self, vc, P, cc, tt):
        self.vc, self.P, self.cc, self.tt = vc, P, cc, tt
        self.W0 = None
        self.extra_parts = []        # further named conjuncts of the invariant: callables (interp, env, k) -> (name, condition)

    def state(self, env, k):
        P = self.P
        g = P['ghost']
        subT = env.get('subblock_T')
        d = smin(k * subT, P['T'])
        warm = P['taps'] * P['nb'] if g['start'] else 0
        extra = sym_if(Sym.lift(k) > 0, warm, 0) if g['start'] else 0
        return subT, d, extra

    def havoc(self, interp, env, k, phase):
        P = self.P
        g = P['ghost']
        if self.W0 is None:
            self.W0 = env.get('W')
        fv = env.get('final_voltages')
        env.set('final_voltages', symbolic_array('final_h', fv.shape))
        subT, d, extra = self.state(env, k)
        g['delivered'] = g['delivered0'] + d * P['nb'] + extra
        for p in range(P['npol']):
            P['fed'][p] = P['fed0'][p] + d * P['nb'] + extra
            P['spectra'][p] = P['pos0'] + d
        P['src'].fields['start_obs'] = eq(k, 0) if g['start'] else False
        env.set('W', self.W0)
        for nm in ('subblock', 'num_samples', 'antennas_v', 'antenna', 'c_idx', 'pol', 'subblock_t_range', 't_idx', 'v', 'R', 'I', 't'):
            env.vars.pop(nm, None)
        if phase == 'pres':
            # prompting facts of the window accounting, in small steps, over the function's own terms
            N2 = env.get('self').fields['num_subblocks']
            T, taps, M = P['T'], P['taps'], P['M']
            Te = env.get('T')
            Wm1 = self.W0 - 1
            L = self.vc.lemma
            pre = 'C02/collect_data_block/lemma/'
            L(pre + 'spectra-per-block', eq(Te, M * taps))
            L(pre + 'windows-per-subblock', And(Wm1 >= 1, eq(subT, taps * Wm1)))
            L(pre + 'subblock-count-in-windows', And((N2 - 1) * Wm1 < M, M <= N2 * Wm1))
            L(pre + 'subblock-k-starts-inside-the-block', k * Wm1 < M)
            L(pre + 'subblock-k-not-last-fits', Implies(k <= N2 - 2, (k + 1) * Wm1 <= M))
            rem = Te % subT
            wl = rem // taps
            L(pre + 'last-subblock-remainder-in-windows',
              Implies(eq(k, N2 - 1), sym_if(eq(rem, 0), eq(M, N2 * Wm1), And(eq(rem, taps * (M - k * Wm1)), eq(wl, M - k * Wm1), M - k * Wm1 >= 1))))
            L(pre + 'not-last-subblock-has-no-remainder-role', Implies(k <= N2 - 2, Not(eq(k, N2 - 1))))
            L(pre + 'done-before', eq(smin(k * subT, T), k * taps * Wm1))
            L(pre + 'done-after', eq(smin((k + 1) * subT, T), sym_if(eq(k, N2 - 1), M * taps, (k + 1) * taps * Wm1)))

    def inv_parts(self, interp, env, k):
        P = self.P
        g = P['ghost']
        if self.W0 is None:
            self.W0 = env.get('W')
        fv = env.get('final_voltages')
        subT, d, extra = self.state(env, k)
        N2 = env.get('self').fields['num_subblocks']
        parts = [('samples-delivered', eq(g['delivered'], g['delivered0'] + d * P['nb'] + extra)),
                 ('window-count-kept-until-last-subblock', Implies(Sym.lift(k) < N2, eq(env.get('W'), self.W0)))]
        for p in range(P['npol']):
            parts.append((f'samples-fed-pol{p}', eq(P['fed'][p], P['fed0'][p] + d * P['nb'] + extra)))
            parts.append((f'spectra-emitted-pol{p}', eq(P['spectra'][p], P['pos0'] + d)))
            parts.append((f'bytes-written-so-far-pol{p}', Implies(And(self.cc >= 0, self.cc < P['nc'], self.tt >= 0, self.tt < d), byte_spec(P, fv, self.cc, self.tt, p))))
        so = P['src'].fields['start_obs']
        want_so = eq(k, 0) if g['start'] else False
        parts.append(('start_obs', eq(so if isinstance(so, Sym) else Sym.lift(so), want_so if isinstance(want_so, Sym) else Sym.lift(want_so))))
        for f in self.extra_parts:
            parts.append(f(interp, env, k))
        return parts

    def inv(self, interp, env, k):
        return And(*[c for _, c in self.inv_parts(interp, env, k)])


def collect_data_block_case(vc, npol, nbits, digitize, start_obs):
    be, P = pipeline(vc, npol, nbits, digitize, start_obs)
    cc, tt = Int('cc'), Int('tt')
    vc.interp.loop_specs[(BK + '.collect_data_block', 0)] = SubblockLoop(vc, P, cc, tt)
    g = P['ghost']
    d0 = g['delivered']
    out = vc.call(BK + '.collect_data_block', be, digitize=digitize, requantize=True, verbose=False)
    vc.cover('reachable')
    vc.ensure('C02/collect_data_block/exc/none', out.ok)
    if not out.ok:
        return
    final = out.value
    T, nb, taps, nc = P['T'], P['nb'], P['taps'], P['nc']
    vc.ensure('C02/collect_data_block/post/shape', And(final.ndim == 2, eq(final.shape[0], nc), eq(final.shape[1], T * P['bps'])))
    vc.ensure('C02/collect_data_block/post/consumes-exactly-T*branches(+warm-up-window)-samples', eq(g['delivered'], d0 + T * nb + (taps * nb if start_obs else 0)))
    inr = And(cc >= 0, cc < nc, tt >= 0, tt < T)
    width = 2 if nbits == 8 else 1
    for p in range(npol):
        vc.ensure('C02/collect_data_block/post/every-sample-is-the-requantised-spectrum-at-its-position-in-GUPPI-layout', Implies(inr, byte_spec(P, final, cc, tt, p)))
        vc.ensure('C02/collect_data_block/post/filterbank-position-advanced-by-one-block', eq(P['spectra'][p], P['pos0'] + T))
        vc.ensure('C02/collect_data_block/post/every-stored-value-fits-a-signed-byte-(int8-cast-exact)',
                  Implies(inr, And(*[And(final.at((cc, (tt * npol + p) * width + q)) >= -128, final.at((cc, (tt * npol + p) * width + q)) <= 127) for q in range(width)])))
    so = P['src'].fields['start_obs']
    vc.ensure('C02/collect_data_block/post/antenna-no-longer-at-start-of-observation', Not(so) if isinstance(so, Sym) else (so is False))


def _register():
    # one contract per pipeline configuration (they run in parallel)
    for npol in (1, 2):
        for nbits in (8, 4):
            for digitize in (True, False):
                for start_obs in (True, False):
                    name = f"collect_data_block[{npol}pol,{nbits}bit,{'digitized' if digitize else 'undigitized'},{'first' if start_obs else 'later'}-block]"
                    contract('C02', name, functions=[BK + '.collect_data_block'])(
                        (lambda a, b, c, d: (lambda vc: collect_data_block_case(vc, a, b, c, d)))(npol, nbits, digitize, start_obs))


_register()


# the pipeline's requantiser is a ComplexQuantizer: both of its component quantisers must follow the schedule the backend was given
# ("statistics taken from a common prefix" is a clause of this property) - C09's constructor contract, discharged again here
from . import c09 as _C9
contract('C02', 'requantiser_components_share_the_schedule', functions=[_C9.CQ + '.__init__', _C9.RQ + '.__init__'])(_C9.complex_quantizer_init)
# "samples are exactly the requantised PFB output": the requantisation itself - round-half-even of the rescaled value clipped to the whole
# signed b-bit range [-2^(b-1), 2^(b-1)-1], for 2..8 bits - is C09's quantize_real contract, discharged again here
contract('C02', 'requantisation_formula_and_full_code_range', functions=[_C9.Q + ':quantize_real'])(_C9.quantize_real)
# array sources: between two requests each antenna keeps a view of the background stream's buffer; the next request (the next sub-block) must
# not overwrite that buffer - C15's ownership contract, discharged again here because "no sample lost or re-ordered across sub-block
# boundaries" depends on it for delayed antennas
from . import c15 as _C15
contract('C02', 'array_background_caches_survive_the_next_request', functions=[_C15.MA + '.get_samples', 'setigen.voltage.data_stream:DataStream._update_t'])(_C15.later_request_ownership)
# "when quantiser statistics are taken from a common prefix": the estimate-once / every-p-th-call schedule of the quantisers (also for
# non-positive periods) - C09's schedule contract, discharged again here
contract('C02', 'quantiser_statistics_follow_the_configured_schedule', functions=[_C9.RQ + '.quantize', _C9.RQ + '._reset_cache'])(_C9.schedule)


# every signal path (antenna, polarisation) owns its digitiser, filterbank and requantiser - including the requantiser's two component
# quantisers, which hold the statistics caches ("exactly the requantised PFB output of that antenna and polarisation's stream" needs per-path
# statistics).  Also discharged in the C14 check.
def independent_tables(vc):
    """Every (antenna, polarisation) has its *own* digitiser, filterbank and requantiser object (copies of the template, never the same object
    twice): _read_next_block sets each requantiser's target statistics from its own input stream, so a shared object would give one antenna the
    statistics of another."""
    nant = 2 + vc.choose(2, 'num_antennas')
    npol = 1 + vc.choose(2, 'num_pols')
    sr = Real('sample_rate')
    vc.assume(sr > 0)
    src = vc.interp.call(classref(vc, 'setigen.voltage.antenna:MultiAntennaArray'), [], dict(num_antennas=nant, sample_rate=sr, fch1=Real('fch1'), ascending=True, num_pols=npol,
                                                                                         delays=[0] * nant, t_start=0, seed=Int('seed')))
    taps, nb = Int('num_taps'), Int('num_branches')
    nc, M = Int('num_chans'), Int('windows')
    vc.assume(And(taps >= 1, nb >= 2, nb % 2 == 0, nc >= 1, nc <= nb // 2, M >= 1))
    dig = vc.interp.call(classref(vc, 'setigen.voltage.quantization:RealQuantizer'), [], dict(target_fwhm=Real('dig_fwhm'), num_bits=8))
    fb = mkobj(vc, 'setigen.voltage.polyphase_filterbank:PolyphaseFilterbank', num_taps=taps, num_branches=nb, window=symbolic_array('h', (taps * nb,)), window_fn='hamming',
               cache=None, channelized_stds=None)
    fb.partial = False
    rq = vc.interp.call(classref(vc, 'setigen.voltage.quantization:ComplexQuantizer'), [], dict(target_fwhm=Real('rq_fwhm'), num_bits=8))
    bs = M * taps * nant * nc * 2 * npol
    out = vc.run(lambda: vc.interp.call(classref(vc, BK), [src, dig, fb, rq], dict(start_chan=0, num_chans=nc, block_size=bs)))
    vc.cover('reachable')
    vc.ensure('C14/backend.__init__/exc/none', out.ok)
    if not out.ok:
        return
    F = out.value.fields
    for name, tmpl in (('digitizer', dig), ('filterbank', fb), ('requantizer', rq)):
        tab = F[name]
        objs = [tab[a][p] for a in range(nant) for p in range(npol)]
        vc.ensure(f'C14/backend.__init__/post/{name}-one-independent-object-per-antenna-and-polarisation',
                  And(len(tab) == nant, all(len(row) == npol for row in tab), len({id(o) for o in objs}) == len(objs), all(o is not tmpl for o in objs),
                      len({id(row) for row in tab}) == nant))
    rqs = [F['requantizer'][a][p] for a in range(nant) for p in range(npol)]
    parts = [q.fields[k] for q in rqs for k in ('quantizer_r', 'quantizer_i')]
    vc.ensure('C14/backend.__init__/post/requantiser-components-not-shared', len({id(o) for o in parts}) == len(parts))


contract('C02', 'every_signal_path_owns_its_pipeline_objects', functions=[BK + '.__init__'])(independent_tables)
