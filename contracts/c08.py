"""C08 - polyphase filterbank equals its FIR+DFT definition, invariant to chunking."""
from .common import *

PROP_LEVEL['C08'] = 'proof'
PROP_TRUSTED['C08'] = [
    "np.fft.fft/rfft are the DFT definition X[k] = sum_b x[b] w^(bk) with uninterpreted twiddle factors (the FFT algorithm itself is not verified; "
    "a bounded native run compares with a direct O(B^2) evaluation)",
    "scipy.signal.firwin is trusted (uninterpreted coefficients); finite sums are additive/homogeneous (meta-theorem used by the linearity lemmas)",
    "int(len(x)/num_taps/num_branches) evaluated over the reals",
]
PROP_EXPLANATION['C08'] = "FIR front end loop invariant, channelize = FIR + DFT definition, streaming cache invariant (chunking), linearity lemmas"

PF = 'setigen.voltage.polyphase_filterbank'
PFB = PF + ':PolyphaseFilterbank'


def fir_spec(h, xat, n, b, taps, B):
    """fir(x, n)[b] = sum_{j<taps} h[j*B+b] * x[(n+j)*B+b]   (property statement)."""
    return L.sum_term(taps, lambda j: h.at((j * B + b,)) * xat((n + j) * B + b))


def fir_spec_c(h, xat, n, b, taps, B):
    return (L.sum_term(taps, lambda j: h.at((j * B + b,)) * SCplx.lift(xat((n + j) * B + b)).re),
            L.sum_term(taps, lambda j: h.at((j * B + b,)) * SCplx.lift(xat((n + j) * B + b)).im))


class FrontendLoop:
    def __init__(self, vc, r, b, cplx=False):
        self.vc, self.r, self.b, self.cplx = vc, r, b, cplx

    def havoc(self, interp, env, k, phase):
        xs = env.get('x_summed')
        env.set('x_summed', symbolic_array('x_summed_h', xs.shape, xs.dtype))    # same dtype as the real buffer
        env.vars.pop('x_weighted', None)
        env.vars.pop('t', None)

    def inv(self, interp, env, k):
        xs, x, h = env.get('x_summed'), env.get('x'), env.get('pfb_window')
        taps, B = env.get('num_taps'), env.get('num_branches')
        r, b = self.r, self.b
        inr = And(r >= 0, r < k, b >= 0, b < B)
        xat = lambda q: x.at((q,))
        if self.cplx:
            sr, si = fir_spec_c(h, xat, r, b, taps, B)
            v = SCplx.lift(xs.at((r, b)))
            return Implies(inr, And(eq(v.re, sr), eq(v.im, si)))
        return Implies(inr, eq(xs.at((r, b)), fir_spec(h, xat, r, b, taps, B)))


def sizes(vc):
    taps, B, W = Int('num_taps'), Int('num_branches'), Int('W')
    vc.assume(And(taps >= 1, B >= 2, W >= 1))
    return taps, B, W


@contract('C08', 'pfb_frontend', functions=[PF + ':pfb_frontend'])
def pfb_frontend(vc):
    cplx = bool(vc.choose(2, 'complex-input'))
    taps, B, W = sizes(vc)
    extra = Int('extra')
    vc.assume(And(extra >= 0, extra < taps * B))
    n = W * taps * B + extra
    x = symbolic_array('x', (n,), 'complex' if cplx else 'real')
    h = symbolic_array('h', (taps * B,))
    r, b = Int('r'), Int('b')
    vc.interp.loop_specs[(PF + ':pfb_frontend', 0)] = FrontendLoop(vc, r, b, cplx)
    # prompting: floor(n/taps/B) = W for n = W*taps*B + extra
    vc.lemma('C08/pfb_frontend/lemma/window-count', And(n / taps / B >= W, n / taps / B < W + 1))
    out = vc.call(PF + ':pfb_frontend', x, h, taps, B)
    vc.cover('reachable')
    vc.ensure('C08/pfb_frontend/exc/none', out.ok)
    if not out.ok:
        return
    y = out.value
    rows = (W - 1) * taps
    vc.ensure('C08/pfb_frontend/post/shape', And(y.ndim == 2, eq(y.shape[0], rows), eq(y.shape[1], B)))
    inr = And(r >= 0, r < rows, b >= 0, b < B)
    xat = lambda q: x.at((q,))
    if cplx:
        sr, si = fir_spec_c(h, xat, r, b, taps, B)
        v = SCplx.lift(y.at((r, b)))
        vc.ensure('C08/pfb_frontend/post/row-n-is-window-weighted-sum-of-taps-segments', Implies(inr, And(eq(v.re, sr), eq(v.im, si))))
    else:
        vc.ensure('C08/pfb_frontend/post/row-n-is-window-weighted-sum-of-taps-segments', Implies(inr, eq(y.at((r, b)), fir_spec(h, xat, r, b, taps, B))))


def frontend_modular(vc, cplx=False):
    """Use pfb_frontend's proved contract at call sites (modular verification): result = spec array."""
    def spec(interp, clo, args, kwargs):
        x, h, taps, B = args
        n = x.shape[0]
        # W = floor(n / (taps*B)); callers here always pass n = W*taps*B (checked as a call-site obligation)
        W = Int('Wcall')
        vc.ensure('C08/pfb_frontend/pre@callsite/length-is-whole-windows', And(eq(n, vc.expected_W * taps * B)))
        W = vc.expected_W
        xs = x._snapshot()
        hs = h._snapshot()
        H = SArr(h.shape, hs, 'real')
        xat = lambda q: xs((q,))
        if cplx:
            return SArr(((W - 1) * taps, B), L._memo(lambda idx: SCplx(*fir_spec_c(H, xat, idx[0], idx[1], taps, B))), 'complex')
        return SArr(((W - 1) * taps, B), L._memo(lambda idx: fir_spec(H, xat, idx[0], idx[1], taps, B)), 'real')
    vc.interp.call_specs[PF + ':pfb_frontend'] = spec


def pfb_spec(h, xat, n, k, taps, B, cplx=False):
    """pfb_spec(x, n)[k] = DFT_B(fir(x, n))[k] / sqrt(B)   (property statement)."""
    if cplx:
        row = lambda b: SCplx(*fir_spec_c(h, xat, n, b, taps, B))
    else:
        row = lambda b: fir_spec(h, xat, n, b, taps, B)
    X = L.dft_at(row, B, k)
    s = sqrt(B)
    return SCplx(X.re / s, X.im / s)


@contract('C08', 'channelize_streaming', functions=[PFB + '.channelize', PFB + '._reset_cache', PFB + '.__init__'],
          note="pfb_frontend is used through its proved contract at the call site (modular)")
def channelize_streaming(vc):
    """Hoare triple of channelize(x, cache=True) from an arbitrary state satisfying the streaming invariant:
    INV: cache is None and nothing fed since the reset, or cache = the last taps*B samples of the stream fed so far."""
    cplx = bool(vc.choose(2, 'complex-input'))
    first = bool(vc.choose(2, 'first-call'))
    taps, B, _ = sizes(vc)
    m, a = Int('m_windows'), Int('a_windows_before')
    vc.assume(And(m >= 1, a >= 1))
    P = taps * B
    CTX.counter += 1
    Sre = z3.Function('stream_re', z3.IntSort(), z3.RealSort())
    Sim = z3.Function('stream_im', z3.IntSort(), z3.RealSort())

    def S(q):
        q = Sym.lift(q).as_int()
        return SCplx(Sym(Sre(q), 'real'), Sym(Sim(q), 'real')) if cplx else Sym(Sre(q), 'real')
    Lfed = 0 if first else a * P                      # samples fed since the last reset (multiple of taps*B)
    h = symbolic_array('h', (P,))
    # heap shape the code leaves behind: the cache is a *view* of the tail of the array the caller passed last time (the caller still owns
    # that array); the filterbank may re-bind its cache but must never write through it.  (The view holds the last P samples; the
    # caller's array is modelled from the view's start on, which is all the contract needs.)
    xprev = None if first else SArr((P + Int('prev_extra'),), lambda idx: S(Lfed - P - Int('prev_extra') + idx[0]), 'complex' if cplx else 'real')
    if not first:
        vc.assume(Int('prev_extra') >= 0)
    fb = mkobj(vc, PFB, num_taps=taps, num_branches=B, window=h, window_fn='hamming', channelized_stds=None,
               cache=None if first else vc.interp.getitem(xprev, slice(Int('prev_extra'), None)))
    x = SArr((m * P,), lambda idx: S(Lfed + idx[0]), 'complex' if cplx else 'real')
    w_prev, w_x = (xprev.writes if xprev is not None else 0), x.writes
    vc.expected_W = m if first else m + 1
    frontend_modular(vc, cplx)
    out = vc.call(PFB + '.channelize', fb, x, cache=True)
    vc.cover('reachable')
    vc.ensure('C08/channelize/exc/none', out.ok)
    if not out.ok:
        return
    X = out.value
    rows = (m - 1) * taps if first else m * taps
    pos = 0 if first else a * taps - taps          # spectra emitted before this call = L/B - taps
    vc.ensure('C08/channelize/post/shape-no-spectrum-missing-or-repeated', And(X.ndim == 2, eq(X.shape[0], rows), eq(X.shape[1], B // 2)))
    r, k = Int('r'), Int('k')
    inr = And(r >= 0, r < rows, k >= 0, k < B // 2)
    want = pfb_spec(h, S, pos + r, k, taps, B, cplx)
    got = SCplx.lift(X.at((r, k)))
    vc.ensure('C08/channelize/post/spectrum-n-channel-k-equals-definition-on-the-whole-stream', Implies(inr, And(eq(got.re, want.re), eq(got.im, want.im))))
    c = fb.fields['cache']
    q = Int('q')
    L2 = Lfed + m * P
    vc.ensure('C08/channelize/post/streaming-invariant-re-established',
              And(c.ndim == 1, eq(c.shape[0], P),
                  Implies(And(q >= 0, q < P), And(eq(SCplx.lift(c.at((q,))).re, SCplx.lift(S(L2 - P + q)).re), eq(SCplx.lift(c.at((q,))).im, SCplx.lift(S(L2 - P + q)).im))))
              if isinstance(c, SArr) else False)
    vc.ensure('C08/channelize/frame/only-cache-modified', And(fb.fields['window'] is h, eq(fb.fields['num_taps'], taps), eq(fb.fields['num_branches'], B)))
    vc.ensure('C08/channelize/frame/caller-arrays-never-written', And(x.writes == w_x, xprev is None or xprev.writes == w_prev))


@contract('C08', 'channelize_one_shot', functions=[PFB + '.channelize'])
def channelize_one_shot(vc):
    taps, B, W = sizes(vc)
    P = taps * B
    h = symbolic_array('h', (P,))
    x = symbolic_array('x', (W * P,))
    pre = symbolic_array('stale_cache', (P,))
    fb = mkobj(vc, PFB, num_taps=taps, num_branches=B, window=h, cache=pre, channelized_stds=None)
    vc.expected_W = W
    frontend_modular(vc)
    out = vc.call(PFB + '.channelize', fb, x, cache=False)
    vc.ensure('C08/channelize/one-shot/exc/none', out.ok)
    if not out.ok:
        return
    X = out.value
    r, k = Int('r'), Int('k')
    rows = (W - 1) * taps
    want = pfb_spec(h, lambda q: x.at((q,)), r, k, taps, B)
    got = SCplx.lift(X.at((r, k)))
    vc.ensure('C08/channelize/one-shot/post/definition', And(eq(X.shape[0], rows), eq(X.shape[1], B // 2),
                                                             Implies(And(r >= 0, r < rows, k >= 0, k < B // 2), And(eq(got.re, want.re), eq(got.im, want.im)))))
    vc.ensure('C08/channelize/one-shot/frame/cache-untouched', fb.fields['cache'] is pre)


@contract('C08', 'reset_and_init', functions=[PFB + '.__init__', PFB + '._reset_cache', PFB + '._get_pfb_window', PF + ':get_pfb_window'])
def reset_and_init(vc):
    taps, B, _ = sizes(vc)
    cls = classref(vc, PFB)
    o = vc.run(lambda: vc.interp.call(cls, [], dict(num_taps=taps, num_branches=B, window_fn='hamming')))
    vc.ensure('C08/__init__/exc/none', o.ok)
    if not o.ok:
        return
    F = o.value.fields
    vc.ensure('C08/__init__/post/initial-state', And(F['cache'] is None, F['channelized_stds'] is None, eq(F['num_taps'], taps), eq(F['num_branches'], B)))
    w = F['window']
    q = Int('q')
    fw = L.scipy_firwin(vc.interp, taps * B, window='hamming')
    vc.ensure('C08/get_pfb_window/post/firwin-scaled-by-taps*branches', And(eq(w.shape[0], taps * B), Implies(And(q >= 0, q < taps * B), eq(w.at((q,)), fw.at((q,)) * (taps * B)))))
    F['cache'] = symbolic_array('c', (taps * B,))
    o2 = vc.call(PFB + '._reset_cache', o.value)
    vc.ensure('C08/_reset_cache/post/cache-cleared', And(o2.ok, F['cache'] is None))
    # a second filterbank of the same geometry but another window gets ITS window (no state shared between objects)
    o4 = vc.run(lambda: vc.interp.call(cls, [], dict(num_taps=taps, num_branches=B, window_fn='hann')))
    fw2 = L.scipy_firwin(vc.interp, taps * B, window='hann')
    vc.ensure('C08/__init__/post/window-depends-only-on-own-arguments',
              And(o4.ok, Implies(And(q >= 0, q < taps * B), eq(o4.value.fields['window'].at((q,)), fw2.at((q,)) * (taps * B)))))
    # separate objects do not share a cache
    o3 = vc.run(lambda: vc.interp.call(cls, [], dict(num_taps=taps, num_branches=B)))
    o3.value.fields['cache'] = symbolic_array('c3', (taps * B,))
    vc.ensure('C08/__init__/post/separate-objects-separate-caches', F['cache'] is None)


@contract('C08', 'linearity_lemma', functions=[], note="lemma over the proved contract of channelize (pfb_spec), using linearity of finite sums")
def linearity(vc):
    """pfb_spec(a*x + c*y) = a*pfb_spec(x) + c*pfb_spec(y); instance: complex input u + i v is channelised as pfb(u) + i pfb(v)."""
    taps, B, _ = sizes(vc)
    h = symbolic_array('h', (taps * B,))
    X, Y = symbolic_array('x', (Int('len'),)), symbolic_array('y', (Int('len'),))
    a, c = Real('a'), Real('c')
    n, k = Int('n'), Int('k')
    xat, yat = (lambda q: X.at((q,))), (lambda q: Y.at((q,)))
    zat = lambda q: a * xat(q) + c * yat(q)
    hj = lambda j, b: h.at((j * B + b,))
    j0, b0 = Int('j_generic'), Int('b_generic')

    def fir_lin(b):
        # inner linearity at branch b (instantiated where the outer lemma needs it)
        Sz, (Sx, Sy) = vc.sum_linear('C08/linearity/lemma/fir-sum', taps, lambda j: hj(j, b) * zat((n + j) * B + b),
                                     [(a, lambda j: hj(j, b) * xat((n + j) * B + b)), (c, lambda j: hj(j, b) * yat((n + j) * B + b))], at=j0)
        return Sz, Sx, Sy
    Szb, Sxb, Syb = fir_lin(b0)
    for part in ('re', 'im'):
        tw = (lambda b: L.twiddle(b, k, B)[0]) if part == 're' else (lambda b: -L.twiddle(b, k, B)[1])
        # outer sums over the branch index; their bodies at the generic branch b0 are the inner sums above
        fz = lambda b: (Szb if b is b0 else fir_spec(h, zat, n, b, taps, B)) * tw(b)
        fx = lambda b: (Sxb if b is b0 else fir_spec(h, xat, n, b, taps, B)) * tw(b)
        fy = lambda b: (Syb if b is b0 else fir_spec(h, yat, n, b, taps, B)) * tw(b)
        Dz, (Dx, Dy) = vc.sum_linear(f'C08/linearity/lemma/dft-sum-{part}', B, fz, [(a, fx), (c, fy)], at=b0)
        Wz = L.dft_at(lambda b: fir_spec(h, zat, n, b, taps, B), B, k)
        Wx = L.dft_at(lambda b: fir_spec(h, xat, n, b, taps, B), B, k)
        Wy = L.dft_at(lambda b: fir_spec(h, yat, n, b, taps, B), B, k)
        # the DFT sums of the definition are the lemma's sums (extensionality), then the statement is linear bookkeeping
        vc.lemma(f'C08/linearity/lemma/definition-sums-{part}', And(eq(getattr(Wz, part), Dz), eq(getattr(Wx, part), Dx), eq(getattr(Wy, part), Dy)))
        s_ = sqrt(B)
        vc.ensure(f'C08/linearity/post/pfb(a*x+c*y)=a*pfb(x)+c*pfb(y)/{part}',
                  eq(getattr(Wz, part) / s_, a * (getattr(Wx, part) / s_) + c * (getattr(Wy, part) / s_)))
