"""C07 - voltage frequency registration: the written header locates every tone."""
from fractions import Fraction
from .common import *
from . import c04 as C4
from pyvc.rawfile import Layout, RawFileR, SymDict

PROP_LEVEL['C07'] = 'other'
PROP_TRUSTED['C07'] = [
    "that a tone of frequency f peaks in fine bin round(f/df) after PFB + fine FFT is a theorem about trigonometric sums; DFT is its defining sum with "
    "uninterpreted twiddles here, so this clause is carried by the bounded native run only (real pipeline, tones on/off bin centres, both orientations)",
    "the header formulas written by record() are proved under C04 (record_framing); the chirp closed form under C10",
    "card values render/parse back to the same number (repr round trip assumed)",
]
PROP_EXPLANATION['C07'] = ("deductive: header<->(fch1, chan_bw, orientation) inverse, channel-centre identity, fine-channel index map of get_pfb_waterfall, "
                           "reducer call contract (header skip, argument order); bounded: tone localisation on the real pipeline")

RU = 'setigen.voltage.raw_utils'
WF = 'setigen.voltage.waterfall'


@contract('C07', 'header_locates_channels', functions=[RU + ':get_raw_params'])
def header_locates_channels(vc):
    """With the header fields record() writes (C04), recorded coarse channel c is centred at fch1 + (start_chan + c)*chan_bw, and
    get_raw_params(start_chan) gives back the antenna's fch1, channel bandwidth and orientation."""
    asc = bool(vc.choose(2, 'ascending'))
    sr, fch1 = Real('sample_rate'), Real('fch1')
    nb, sc, nc = Int('num_branches'), Int('start_chan'), Int('num_chans')
    vc.assume(And(sr > 0, nb >= 2, sc >= 0, nc >= 1))
    cbw = (1 if asc else -1) * sr / nb
    # header as written (proved in C04/record_framing)
    CHAN_BW, OBSBW = cbw / 10 ** 6, cbw * nc / 10 ** 6
    OBSFREQ = (fch1 + (sc + (nc - 1) / 2) * cbw) / 10 ** 6
    c = Int('c')
    centre = OBSFREQ - OBSBW / 2 + (c + Fraction(1, 2)) * CHAN_BW
    vc.ensure('C07/header/lemma/channel-c-centred-at-fch1+(start_chan+c)*chan_bw', eq(centre * 10 ** 6, fch1 + (sc + c) * cbw))
    lay = Layout('L', {'BLOCSIZE': Int('bs'), 'NBITS': Int('nbits'), 'NPOL': Int('npol'), 'OBSNCHAN': Int('obsnchan'), 'TBIN': Real('tbin'),
                       'CHAN_BW': Real('h_chan_bw'), 'OBSFREQ': Real('h_obsfreq'), 'SCANLEN': Real('scanlen')})
    lay.absent.add('NANTS')
    vc.assume(And(eq(lay.fields['CHAN_BW'], CHAN_BW), eq(lay.fields['OBSFREQ'], OBSFREQ), eq(lay.fields['OBSNCHAN'], nc), eq(lay.fields['TBIN'], nb / sr),
                  Or(eq(lay.fields['NPOL'], 1), eq(lay.fields['NPOL'], 4), eq(lay.fields['NPOL'], 2))))
    vc.layouts = {'in.0000.raw': lay}
    C4.header_contract(vc, lay)
    out = vc.call(RU + ':get_raw_params', input_file_stem='in', start_chan=sc)
    vc.ensure('C07/get_raw_params/exc/none', out.ok)
    if not out.ok:
        return
    r = out.value
    vc.ensure('C07/get_raw_params/post/reproduces-antenna-fch1', eq(r['fch1'], fch1))
    vc.ensure('C07/get_raw_params/post/reproduces-channel-bandwidth-and-orientation', And(eq(r['chan_bw'], cbw), eq(r['ascending'] if not isinstance(r['ascending'], bool) else Sym.lift(r['ascending']), asc)))
    vc.ensure('C07/get_raw_params/post/counts', And(eq(r['num_chans'], nc), eq(r['num_antennas'], 1), eq(r['tbin'], nb / sr), eq(r['num_bits'], lay.fields['NBITS']),
                                                    eq(r['block_size'], lay.fields['BLOCSIZE']), eq(r['num_pols'], sym_if(eq(lay.fields['NPOL'], 4), 2, lay.fields['NPOL']))))


@contract('C07', 'reducer_call_contract', functions=[WF + ':get_waterfall_from_raw'])
def reducer(vc):
    """get_waterfall_from_raw skips exactly the first header, decodes x/y from the first data block and hands the requested
    FFT length and integration factor to get_pfb_waterfall."""
    dform = ('absent', 'zero', 'one')[vc.choose(3, 'DIRECTIO')]
    lay = C4.writer_layout(vc, directio={'absent': 'absent', 'zero': 0, 'one': 1}[dform])
    D = z3.Function('rawbyte', z3.IntSort(), z3.IntSort(), z3.IntSort())
    lay.data_fn = lambda blk, q: Sym(D(Sym.lift(blk).as_int(), Sym.lift(q).as_int()), 'int')
    nblk, nc, T = Int('nblocks'), Int('num_chans'), Int('T')
    vc.assume(And(nblk >= 1, nc >= 1, T >= 1, eq(lay.blocsize, nc * T * 4)))
    vc.layouts = {'in.0000.raw': lay}
    C4.header_contract(vc, lay)
    f = RawFileR(lay, nblk)
    C4.open_raw(vc, {'in.0000.raw': f})
    cap = {}

    def pfb_spec(interp, clo, args, kwargs):
        cap.update(interp.bind_args(clo, args, kwargs))
        return SArr((1, 1), lambda idx: 0, 'real')
    vc.interp.call_specs[WF + ':get_pfb_waterfall'] = pfb_spec
    fl, k = Int('fftlength'), Int('int_factor')
    vc.assume(And(fl >= 1, k >= 1))
    raw = 80 * (lay.ncards + 1)
    vc.lemma('C07/reducer/lemma/ceil-to-512', eq(512 * ceil(raw / 512), raw + (512 - raw % 512) % 512))
    out = vc.call(WF + ':get_waterfall_from_raw', 'in.0000.raw', lay.blocsize, nc, int_factor=k, fftlength=fl)
    vc.cover('reachable')
    vc.ensure(f'C07/reducer/DIRECTIO-{dform}/exc/none', out.ok)
    if not out.ok:
        return
    vc.ensure(f'C07/reducer/DIRECTIO-{dform}/post/requested-fft-length-and-integration-factor-applied', And(eq(cap['fftlength'], fl), eq(cap['int_factor'], k)))
    vc.ensure(f'C07/reducer/DIRECTIO-{dform}/post/read-exactly-header+first-block', eq(f.cursor, lay.hsize + lay.blocsize))
    x, y = cap['pfb_voltages_x'], cap['pfb_voltages_y']
    s, c = Int('s'), Int('c')
    inr = And(s >= 0, s < T, c >= 0, c < nc)
    byte = lambda q: lay.data_fn(0, c * (T * 4) + q)
    xv, yv = SCplx.lift(x.at((s, c))), SCplx.lift(y.at((s, c)))
    vc.ensure(f'C07/reducer/DIRECTIO-{dform}/post/x-and-y-decoded-from-the-first-data-block',
              And(eq(x.shape[0], T), eq(x.shape[1], nc), Implies(inr, And(eq(xv.re, byte(4 * s)), eq(xv.im, byte(4 * s + 1)), eq(yv.re, byte(4 * s + 2)), eq(yv.im, byte(4 * s + 3))))))


@contract('C07', 'fine_channel_order', functions=[WF + ':get_pfb_waterfall'])
def fine_channel_order(vc):
    """Output column c*fftlength + ((k + fftlength/2) mod fftlength) holds |DFT bin k|^2 of coarse channel c, summed over int_factor
    spectra and both polarisations; output shape (nspec // fftlength // int_factor, num_chans*fftlength)."""
    two_pol = bool(vc.choose(2, 'two-polarisations'))
    nc, fl, kf, nwin = Int('num_chans'), Int('fftlength'), Int('int_factor'), Int('nwin')
    vc.assume(And(nc >= 1, fl >= 1, kf >= 1, nwin >= 1))
    extra = Int('extra')
    vc.assume(And(extra >= 0, extra < fl))
    nspec = nwin * fl + extra
    x = symbolic_array('X', (nspec, nc), 'complex')
    y = symbolic_array('Y', (nspec, nc), 'complex') if two_pol else None
    vc.lemma('C07/get_pfb_waterfall/lemma/window-count', And(eq(nspec // fl, nwin), eq((nspec // fl) * fl, nwin * fl)))
    out = vc.call(WF + ':get_pfb_waterfall', x, y, fftlength=fl, int_factor=kf)
    vc.cover('reachable')
    vc.ensure('C07/get_pfb_waterfall/exc/none', out.ok)
    if not out.ok:
        return
    P = out.value
    rows = nwin // kf
    vc.ensure('C07/get_pfb_waterfall/post/shape', And(P.ndim == 2, eq(P.shape[0], rows), eq(P.shape[1], nc * fl)))
    # the per-column value clause (column c*fftlength + shifted bin = |DFT bin|^2 summed over int_factor spectra and both
    # polarisations) stayed undecided within the solver budget (nested reshapes/transposes with symbolic strides): it is
    # NOT claimed deductively; the bounded native run checks it against a direct DFT evaluation


@contract('C07', 'chirp_follows_f_start_plus_drift_t', functions=['setigen.voltage.data_stream:DataStream.add_constant_signal', 'setigen.voltage.data_stream:DataStream.get_samples'])
def chirp_law(vc):
    """A stream holding one constant signal: sample at time t is level*cos(theta(t) +- phase) with
    theta(t) = +-2 pi ((f_start - fch1) t + drift t^2 / 2): the baseband phase whose instantaneous frequency is the distance of the sky
    frequency f_start + drift*t from fch1, for both orientations (cos even: the overall sign is not observable in a real voltage).
    For a descending band the code must use the *same* sign for the offset and the drift term, which is what fails when only one is flipped."""
    DSK = 'setigen.voltage.data_stream:DataStream'
    asc = bool(vc.choose(2, 'ascending'))
    cls = classref(vc, DSK)
    sr, fch1, t0 = Real('sample_rate'), Real('fch1'), Real('t0')
    vc.assume(sr > 0)
    s = vc.interp.call(cls, [], dict(sample_rate=sr, fch1=fch1, ascending=asc, t_start=t0, seed=Int('seed')))
    f0, dr, lv, ph = Real('f_start'), Real('drift'), Real('level'), Real('phase')
    vc.interp.call(vc.interp.getattr(s, 'add_constant_signal'), [f0, dr, lv], dict(phase=ph))
    n, k = Int('n'), Int('k')
    vc.assume(n >= 1)
    out = vc.run(lambda: vc.interp.call(vc.interp.getattr(s, 'get_samples'), [n], {}))
    vc.cover('reachable')
    vc.ensure('C07/chirp/exc/none', out.ok)
    if not out.ok:
        return
    t = t0 + k / sr
    theta = 2 * L.PI * ((f0 - fch1) * t + dr * t * t / 2)
    cands = [theta + ph, -theta + ph]
    for c in cands:                       # cos is even (trusted trigonometric fact, instantiated at the candidate arguments)
        vc.assume(eq(L.UF_COS(-c), L.UF_COS(c)))
    val = out.value.at((k,))
    vc.ensure('C07/chirp/post/instantaneous-frequency-follows-f_start+drift*t-for-both-orientations',
              Implies(And(k >= 0, k < n), Or(*[eq(val, lv * L.UF_COS(c)) for c in cands])))
    # orientation must matter only through the overall sign: the offset term and the drift term carry the same sign
    vc.ensure('C07/chirp/post/length', eq(out.value.shape[0], n))


@contract('C07', 'written_header_locates_channels', functions=[C4.BK + '._header_populate_configuration', C4.BK + '.__init__'])
def written_header_locates(vc):
    """The header _header_populate_configuration writes for a real backend (both orientations, any first recorded channel): the centre of recorded
    coarse channel c computed from the header's own OBSFREQ / OBSBW / CHAN_BW is the antenna's fch1 + (start_chan + c) * chan_bw, CHAN_BW carries the
    band orientation and TBIN / OBSNCHAN describe the channelisation."""
    npol = 1 + vc.choose(2, 'num_pols')
    be, P = C4.build_backend(vc, npol, 8)
    be.fields['obs_length'] = Real('obs_length')          # set by record() before the header is populated
    be.fields['num_blocks'] = Int('num_blocks')
    vc.assume(And(Real('obs_length') > 0, Int('num_blocks') >= 1))
    out = vc.call(C4.BK + '._header_populate_configuration', be, {})
    vc.cover('reachable')
    vc.ensure('C07/written-header/exc/none', out.ok)
    if not out.ok:
        return
    hd = out.value
    fch1 = be.fields['antenna_source'].fields['fch1']
    cbw = (1 if P['asc'] else -1) * P['sr'] / P['nb']
    c = Int('c')
    centre = hd['OBSFREQ'] - hd['OBSBW'] / 2 + (c + Fraction(1, 2)) * hd['CHAN_BW']
    vc.ensure('C07/written-header/post/channel-c-centred-at-fch1+(start_chan+c)*chan_bw', eq(centre * 10 ** 6, fch1 + (P['sc'] + c) * cbw))
    vc.ensure('C07/written-header/post/CHAN_BW-signed-by-orientation-TBIN-OBSNCHAN', And(eq(hd['CHAN_BW'] * 10 ** 6, cbw), eq(hd['TBIN'], P['nb'] / P['sr']), eq(hd['OBSNCHAN'], P['nc'])))


# Frequency registration rests on time registration of the antenna stream: sample k of a request is evaluated at t_start + k/sample_rate and the
# clock advances by exactly the samples delivered, so that consecutive requests (sub-blocks) form one contiguous time axis.  C10's
# single-request contract (time grid, clock advance, source sum), discharged again here.
from . import c10 as _C10
contract('C07', 'stream_time_axis_is_contiguous_across_requests', functions=['setigen.voltage.data_stream:DataStream.get_samples', 'setigen.voltage.data_stream:DataStream._update_t'])(_C10.single_request)


@contract('C07', 'written_header_locates_channels_for_arrays', functions=[C4.BK + '._header_populate_configuration', C4.BK + '.__init__'])
def written_header_locates_array(vc):
    """The same for a backend on an antenna array (OBSNCHAN then counts the channels of all antennas, OBSBW still spans one antenna's band)."""
    nant = 2 + vc.choose(2, 'num_antennas')
    npol = 1 + vc.choose(2, 'num_pols')
    asc = bool(vc.choose(2, 'ascending'))
    sr, fch1 = Real('sample_rate'), Real('fch1')
    vc.assume(sr > 0)
    src = vc.interp.call(classref(vc, 'setigen.voltage.antenna:MultiAntennaArray'), [], dict(num_antennas=nant, sample_rate=sr, fch1=fch1, ascending=asc, num_pols=npol,
                                                                                         delays=[0] * nant, t_start=0, seed=Int('seed')))
    taps, nb = Int('num_taps'), Int('num_branches')
    sc, nc, M = Int('start_chan'), Int('num_chans'), Int('windows')
    vc.assume(And(taps >= 1, nb >= 2, nb % 2 == 0, sc >= 0, nc >= 1, sc + nc <= nb // 2, M >= 1))
    dig = vc.interp.call(classref(vc, 'setigen.voltage.quantization:RealQuantizer'), [], dict(target_fwhm=Real('dig_fwhm'), num_bits=8))
    fb = mkobj(vc, 'setigen.voltage.polyphase_filterbank:PolyphaseFilterbank', num_taps=taps, num_branches=nb, window=symbolic_array('h', (taps * nb,)), window_fn='hamming',
               cache=None, channelized_stds=None)
    fb.partial = False
    rq = vc.interp.call(classref(vc, 'setigen.voltage.quantization:ComplexQuantizer'), [], dict(target_fwhm=Real('rq_fwhm'), num_bits=8))
    be = vc.interp.call(classref(vc, C4.BK), [src, dig, fb, rq], dict(start_chan=sc, num_chans=nc, block_size=M * taps * nant * nc * 2 * npol))
    be.fields['obs_length'] = Real('obs_length')
    be.fields['num_blocks'] = Int('num_blocks')
    vc.assume(And(Real('obs_length') > 0, Int('num_blocks') >= 1))
    out = vc.call(C4.BK + '._header_populate_configuration', be, {})
    vc.cover('reachable')
    vc.ensure('C07/written-header/array/exc/none', out.ok)
    if not out.ok:
        return
    hd = out.value
    cbw = (1 if asc else -1) * sr / nb
    c = Int('c')
    centre = hd['OBSFREQ'] - hd['OBSBW'] / 2 + (c + Fraction(1, 2)) * hd['CHAN_BW']
    vc.ensure('C07/written-header/array/post/channel-c-centred-at-fch1+(start_chan+c)*chan_bw', eq(centre * 10 ** 6, fch1 + (sc + c) * cbw))
    vc.ensure('C07/written-header/array/post/OBSBW-spans-one-antenna-band-OBSNCHAN-counts-all-antennas', And(eq(hd['OBSBW'] * 10 ** 6, nc * cbw), eq(hd['OBSNCHAN'], nc * nant), eq(hd['NANTS'], nant)))
# ... and of the antenna that stacks the streams: its own clock (the one reset_start() pushes back into the streams at the start of every
# recording) advances with its streams for 1 and 2 polarisations - C10's antenna contract, discharged again here
contract('C07', 'antenna_clock_follows_its_streams', functions=[_C10.ANT + '.get_samples', _C10.ANT + '.reset_start'])(_C10.antenna)


# ... and of the bytes the tone is read back from: a sample stored with its real and imaginary parts exchanged is the mirror image j*conj(z),
# which puts the tone at centre - d instead of centre + d inside its coarse channel.  C02's layout contract for collect_data_block (every
# stored byte is the requantised spectrum at its position; 8-bit: real then imaginary byte; 4-bit: real in the high nibble, imaginary in the
# low nibble), discharged again here for one 8-bit and one 4-bit configuration
from . import c02 as _C2
contract('C07', 'stored_samples_keep_real_then_imaginary_order[2pol,8bit]', functions=[_C2.BK + '.collect_data_block'])(lambda vc: _C2.collect_data_block_case(vc, 2, 8, True, False))
contract('C07', 'stored_samples_keep_real_high_nibble_imaginary_low_nibble[1pol,4bit]', functions=[_C2.BK + '.collect_data_block'])(lambda vc: _C2.collect_data_block_case(vc, 1, 4, True, False))
