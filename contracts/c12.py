"""C12 - determinism from seeds, history independence, copy isolation."""
from .common import *
from . import c04 as C4

PROP_LEVEL['C12'] = 'other'
PROP_TRUSTED['C12'] = [
    "meta-argument: a function whose symbolic execution reads only its arguments, object fields and generator streams created from explicit seeds "
    "(no wall-clock value, no unseeded generator reaches a result) and calls only functions with the same discipline is a function of those inputs; "
    "it is checked here by executing the same calls twice on equal inputs and comparing the results at symbolic positions",
    "numpy Generator = ghost stream: default_rng(seed) is a function of the seed; child seeds are integers drawn in program order",
    "astropy sigma_clip / numpy mean, std (the frame's noise estimates) are deterministic functions of the data array (external, not compared here)",
    "'different seeds draw different noise' is a property of the sampler: bounded native run only",
    "copy.deepcopy: fresh isomorphic heap honouring __getstate__ (library spec); an attached blimpy Waterfall with an open h5py handle raises TypeError in deepcopy",
]
PROP_EXPLANATION['C12'] = "two-run relational obligations (non-interference), seed threading, per-recording reset and header history independence, copy isolation"

FR = FRAME
BK = C4.BK


def tainted(vc, *values):
    """Does a wall-clock value or an unseeded generator stream occur in any of the values?"""
    from pyvc.sym import term_syms
    bad = set()
    k = Int('probe_i'), Int('probe_j')
    for v in values:
        vs = []
        if isinstance(v, SArr):
            vs.append(v.at(tuple(k[:v.ndim])) if v.ndim <= 2 else None)
        else:
            vs.append(v)
        for x in vs:
            if isinstance(x, SCplx):
                x = x.re + x.im
            if isinstance(x, Sym):
                bad |= {s for s in term_syms(x.t) if s.startswith('wallclock') or s.startswith('stream!')}
    return bad


def frame_pair(vc):
    """Two frames built by the real constructor from equal arguments (same seed, explicit start time)."""
    cls = classref(vc, FR)
    n, T = Int('fchans'), Int('tchans')
    df, dt, fch1, t0, seed = Real('df'), Real('dt'), Real('fch1'), Real('t_start'), Int('seed')
    vc.assume(And(n >= 1, T >= 1, df > 0, dt > 0, fch1 > 0))
    asc = bool(vc.choose(2, 'ascending'))
    mk = lambda: vc.interp.call(cls, [], dict(fchans=n, tchans=T, df=df, dt=dt, fch1=fch1, ascending=asc, seed=seed, t_start=t0))
    return mk(), mk(), dict(n=n, T=T)


@contract('C12', 'frame_two_runs', functions=[FR + '.__init__', FR + '.add_noise', FR + '.add_noise_from_obs', FR + '.add_constant_signal', FR + '.add_signal'])
def frame_two_runs(vc):
    a, b, p = frame_pair(vc)
    which = ('chi2', 'gaussian', 'obs', 'signal')[vc.choose(4, 'operation')]
    xm, xs = Real('x_mean'), Real('x_std')

    def ops(f):
        if which == 'chi2':
            vc.interp.call(vc.interp.getattr(f, 'add_noise'), [xm], {})
            vc.interp.call(vc.interp.getattr(f, 'add_noise'), [xm], {})
        elif which == 'gaussian':
            vc.interp.call(vc.interp.getattr(f, 'add_noise'), [xm], dict(x_std=xs, noise_type='gaussian'))
        elif which == 'obs':
            vc.interp.call(vc.interp.getattr(f, 'add_noise_from_obs'), [TBL[0], TBL[1], TBL[2]], dict(share_index=False, noise_type='gaussian'))
        else:
            vc.interp.call(vc.interp.getattr(f, 'add_signal'), [SF['path'], SF['t'], SF['f'], SF['bp']], dict(integrate_path=False, integrate_t_profile=False, integrate_f_profile=False))
    SF = dict(path=I.SFunc('PATH'), t=I.SFunc('TP'), f=I.SFunc('FP', 2), bp=I.SFunc('BP'))
    TBL = [symbolic_array('tm', (Int('ltab'),)), symbolic_array('ts', (Int('ltab'),)), symbolic_array('tn', (Int('ltab'),))]
    vc.assume(Int('ltab') >= 1)
    ops(a)
    ops(b)
    i, j = Int('i'), Int('j')
    inr = And(i >= 0, i < p['T'], j >= 0, j < p['n'])
    A_, B_ = a.fields, b.fields
    vc.cover('reachable')
    vc.ensure(f'C12/frame/{which}/post/same-seed-same-calls-same-data', Implies(inr, eq(A_['data'].at((i, j)), B_['data'].at((i, j)))))
    vc.ensure(f'C12/frame/{which}/post/same-generator-state', And(eq(A_['rng'].pos, B_['rng'].pos), eq(A_['rng'].stream, B_['rng'].stream)))
    vc.ensure(f'C12/frame/{which}/reads/no-wall-clock-or-unseeded-generator-in-the-results',
              len(tainted(vc, A_['data'], A_['t_start'], A_['noise_mean'], A_['noise_std'], A_['fs'], A_['ts'])) == 0)
    vc.ensure(f'C12/frame/{which}/post/separate-objects-share-no-state', And(A_['data'] is not B_['data'], A_['rng'] is not B_['rng'], A_['metadata'] is not B_['metadata']))


@contract('C12', 'frame_default_start_time_is_the_only_clock_read', functions=[FR + '.__init__'])
def frame_clock(vc):
    cls = classref(vc, FR)
    n, T = Int('fchans'), Int('tchans')
    vc.assume(And(n >= 1, T >= 1))
    f = vc.interp.call(cls, [], dict(fchans=n, tchans=T, seed=Int('seed')))
    F = f.fields
    vc.ensure('C12/Frame.__init__/reads/wall-clock-reaches-only-t_start-when-no-start-time-is-given',
              And(len(tainted(vc, F['t_start'])) == 1, len(tainted(vc, F['data'], F['fs'], F['ts'], F['df'], F['dt'], F['fch1'], F['noise_mean'], F['noise_std'])) == 0))
    g = vc.interp.call(cls, [], dict(fchans=n, tchans=T, seed=Int('seed'), mjd=Real('mjd')))
    vc.ensure('C12/Frame.__init__/reads/no-clock-with-mjd', len(tainted(vc, g.fields['t_start'])) == 0)


@contract('C12', 'streams_two_runs_and_seed_threading', functions=['setigen.voltage.antenna:Antenna.__init__', 'setigen.voltage.antenna:MultiAntennaArray.__init__',
                                                                   'setigen.voltage.data_stream:DataStream.get_samples'])
def streams_two_runs(vc):
    arr = bool(vc.choose(2, 'array'))
    npol = 1 + vc.choose(2, 'num_pols')
    sr, t0, seed = Real('sample_rate'), Real('t0'), Int('seed')
    vc.assume(sr > 0)
    if arr:
        cls = classref(vc, 'setigen.voltage.antenna:MultiAntennaArray')
        mk = lambda: vc.interp.call(cls, [], dict(num_antennas=2, sample_rate=sr, fch1=Real('fch1'), ascending=True, num_pols=npol, delays=[Int('d0'), Int('d1')], t_start=t0, seed=seed))
        vc.assume(And(Int('d0') >= 0, Int('d1') >= 0))
    else:
        cls = classref(vc, 'setigen.voltage.antenna:Antenna')
        mk = lambda: vc.interp.call(cls, [], dict(sample_rate=sr, fch1=Real('fch1'), ascending=True, num_pols=npol, t_start=t0, seed=seed))
    a, b = mk(), mk()

    def streams(o):
        if arr:
            return [s for an in o.fields['antennas'] for s in an.fields['streams']] + list(o.fields['bg_streams'])
        return list(o.fields['streams'])
    for o in (a, b):
        for s in streams(o):
            vc.interp.call(vc.interp.getattr(s, 'add_noise'), [Real('nm'), Real('ns')], {})
    n = Int('n')
    vc.assume(n > smax(Int('d0'), Int('d1')) if arr else n >= 1)
    va = vc.interp.call(vc.interp.getattr(a, 'get_samples'), [n], {})
    vb = vc.interp.call(vc.interp.getattr(b, 'get_samples'), [n], {})
    k = Int('k')
    vc.cover('reachable')
    for ai in range(2 if arr else 1):
        for p in range(npol):
            vc.ensure('C12/streams/post/same-seed-same-voltages', Implies(And(k >= 0, k < n), eq(va.at((ai, p, k)), vb.at((ai, p, k)))))
    vc.ensure('C12/streams/reads/no-unseeded-generator', len(tainted(vc, *[va.at((0, 0, k))])) == 0)
    sa = streams(a)
    ids = [s.fields['rng'].stream for s in sa]
    # every stream has its own generator seeded by an integer drawn from the parent in program order
    vc.ensure('C12/streams/post/child-generators-are-functions-of-the-parent-seed', all(isinstance(x, Sym) for x in ids) and len({str(x.t) for x in ids}) == len(ids))


@contract('C12', 'record_history_independence', functions=[BK + '.record', BK + '._header_populate_configuration', 'setigen.voltage.quantization:RealQuantizer._reset_cache',
                                                           'setigen.voltage.polyphase_filterbank:PolyphaseFilterbank._reset_cache', 'setigen.voltage.quantization:ComplexQuantizer._reset_cache'])
def record_history(vc):
    """What a recording writes does not depend on earlier recordings in the process: default header argument, pipeline caches."""
    npol = 1 + vc.choose(2, 'num_pols')
    hform = ('default-header', 'caller-dictionary-reused')[vc.choose(2, 'header_dict')]
    be, P = C4.build_backend(vc, npol, 8)
    user = {'TELESCOP': 'GBT', 'MYCARD': 5}
    user_before = dict(user)
    # a channelised-noise estimate computed (seeded) before recording: recording must leave it alone
    seeded = {}
    for row in be.fields['filterbank']:
        for fbk in row:
            seeded[id(fbk)] = fbk.fields['channelized_stds'] = symbolic_array('seeded_channelized_stds', (2,))
    # arbitrary stale pipeline state left by earlier use
    for row in be.fields['digitizer']:
        for q in row:
            q.fields['stats_calc_indices'] = Int('stale_idx')
            q.fields['stats_cache'] = [Real('stale_m'), Real('stale_s')]
    for row in be.fields['requantizer']:
        for q in row:
            for part in ('quantizer_r', 'quantizer_i'):
                q.fields[part].fields['stats_calc_indices'] = Int('stale_idx2')
                q.fields[part].fields['stats_cache'] = [Real('stale_m2'), Real('stale_s2')]
    src = be.fields['antenna_source']
    for st in [src] + list(src.fields['streams']):
        st.fields['start_obs'] = False
    first_state = {}

    def run(tag, N):
        ghost, files = C4.Ghost(), []
        C4.install_record_contracts(vc, be, P, ghost, files)

        def reset_state_check():
            me = be
            ok = []
            for row in me.fields['digitizer']:
                for q in row:
                    ok.append(And(eq(q.fields['stats_calc_indices'], 0), q.fields['stats_cache'][0] is None))
            for row in me.fields['filterbank']:
                for q in row:
                    ok.append(q.fields['cache'] is None)
                    ok.append(q.fields['channelized_stds'] is seeded[id(q)])      # frame: the (seeded) estimate is not discarded
            for row in me.fields['requantizer']:
                for q in row:
                    ok.append(And(eq(q.fields['quantizer_r'].fields['stats_calc_indices'], 0), q.fields['quantizer_r'].fields['stats_cache'][0] is None,
                                  eq(q.fields['quantizer_i'].fields['stats_calc_indices'], 0), q.fields['quantizer_i'].fields['stats_cache'][0] is None))
            s_ = me.fields['antenna_source']
            so = [st.fields['start_obs'] for st in [s_] + list(s_.fields['streams'])]
            vc.ensure(f'C12/record/{tag}/loop-entry/pipeline-caches-reset-and-antenna-at-start-of-observation-for-every-prior-state',
                      And(*ok, *[x if isinstance(x, Sym) else Sym.lift(x is True) for x in so]))
        P['pk0'] = 0
        t_before = src.fields['t_start']
        P_run = dict(P, t0=t_before)

        class FL(C4.FilesLoop):
            def havoc(self, interp, env, k, phase):
                first_state[tag] = True
                P_run['hd_obj'] = P['hd_obj'] = env.get('header_dict')
                C4.FilesLoop.havoc(self, interp, env, k, phase)

            def inv(self, interp, env, k):
                P_run['hd_obj'] = P['hd_obj'] = env.get('header_dict')
                if tag not in first_state:
                    first_state[tag] = True      # first evaluation = establishment at loop entry
                    reset_state_check()
                return C4.FilesLoop.inv(self, interp, env, k)
        P_run['hsize'] = P['hsize']
        fl, bl = FL(vc, be, P_run, ghost, N), C4.BlocksLoop(vc, be, P_run, ghost, N)
        fl.sfx = bl.sfx = '_' + tag        # havoc symbols of the two recordings are distinct
        vc.interp.loop_specs[(BK + '.record', 2)] = fl
        vc.interp.loop_specs[(BK + '.record', 3)] = bl
        if hform == 'default-header':
            out = vc.call(BK + '.record', be, 'out/' + tag, num_blocks=N, length_mode='num_blocks', verbose=False)
        else:
            out = vc.call(BK + '.record', be, 'out/' + tag, num_blocks=N, length_mode='num_blocks', header_dict=user, load_template=False, verbose=False)
            vc.ensure(f'C12/record/{tag}/frame/caller-dictionary-not-modified', And(set(user) == set(user_before), all(user[k] is user_before[k] for k in user_before)))
        vc.ensure(f'C12/record/{tag}/exc/none', out.ok)
        return P_run.get('hd_obj')
    N1, N2 = Int('n1'), Int('n2')
    vc.assume(And(N1 >= 1, N2 >= 1))
    h1 = run('first-recording', N1)
    k1 = dict(h1) if isinstance(h1, dict) else {}
    h2 = run('second-recording', N2)
    vc.cover('reachable')
    # the second recording's loop invariant was established with PKTIDX starting at 0 again (inv-init obligations above);
    # its header is a fresh dictionary with the same cards
    vc.ensure('C12/record/second-recording/post/header-is-a-fresh-dictionary-with-the-same-cards', And(isinstance(h2, dict), h2 is not h1, h2 is not user, set(h2) == set(k1)))
    vc.ensure('C12/record/second-recording/post/PKTSTART-restarts', eq(h2['PKTSTART'], 0) if isinstance(h2, dict) and 'PKTSTART' in h2 else False)


class WaterfallStub:
    pass


@contract('C12', 'copy_and_pickle_state', functions=[FR + '.copy', FR + '.__getstate__', FR + '.get_waterfall', FR + '._update_waterfall'])
def copy_isolation(vc):
    """copy(): field-wise equal, no mutable node shared, also for frames carrying a Waterfall loaded from .fil / .h5."""
    origin = ('synthetic', 'fil', 'h5')[vc.choose(3, 'origin')]
    f, p = frame_obj(vc, bool(vc.choose(2, 'ascending')))
    F = f.fields
    wf = None
    if origin != 'synthetic':
        cont = I.SObj(None, {'filename': 'x', 'selection_shape': (p['T'], 1, p['n'])}, tag='container')
        if origin == 'h5':
            h5 = I.SObj(None, {'__deepcopy_raises__': ('TypeError', 'h5py objects cannot be pickled')}, tag='h5py.File')
            cont.fields['h5'] = h5
        wf = I.SObj(None, {'header': {'source_name': 'S', 'nbits': 32}, 'file_header': {}, 'container': cont, 'data': None}, tag='Waterfall')
        F['waterfall'] = wf
    # get_waterfall() refreshes the attached Waterfall (blimpy): modelled as returning the attached object
    vc.interp.call_specs[FR + '._update_waterfall'] = lambda interp, clo, args, kwargs: None
    out = vc.call(FR + '.copy', f)
    vc.cover('reachable')
    vc.ensure(f'C12/copy/{origin}/exc/none', out.ok)
    if not out.ok:
        return
    c = out.value
    C_ = c.fields
    i, j = Int('i'), Int('j')
    inr = And(i >= 0, i < p['T'], j >= 0, j < p['n'])
    vc.ensure(f'C12/copy/{origin}/post/equal-field-by-field', And(Implies(inr, And(eq(C_['data'].at((i, j)), F['data'].at((i, j))), eq(C_['fs'].at((j,)), F['fs'].at((j,))),
                                                                                   eq(C_['ts'].at((i,)), F['ts'].at((i,))))),
                                                                  *[eq(C_[k], F[k]) for k in ('fchans', 'tchans', 'df', 'dt', 'fch1', 'fmin', 'fmax', 't_start', 'noise_mean', 'noise_std')],
                                                                  C_['ascending'] == F['ascending'], eq(C_['rng'].pos, F['rng'].pos), eq(C_['rng'].stream, F['rng'].stream)))
    shared = [k for k in ('data', 'fs', 'ts', 'metadata', 'rng') if C_[k] is F[k]]
    vc.ensure(f'C12/copy/{origin}/post/no-mutable-object-shared', len(shared) == 0 and (wf is None or (C_['waterfall'] is not wf and C_['waterfall'] is not None)))
    if origin == 'h5':
        vc.ensure('C12/copy/h5/frame/original-keeps-its-open-file-handle', cont.fields.get('h5') is h5 and F['waterfall'] is wf)
    st = vc.call(FR + '.__getstate__', f)
    vc.ensure(f'C12/__getstate__/{origin}/post/pickled-state-drops-only-the-waterfall', And(st.ok, st.value['waterfall'] is None, st.value is not F,
                                                                                           all(st.value[k] is F[k] for k in F if k != 'waterfall')))


@contract('C12', 'every_construction_route_threads_the_seed', functions=[FR + '.__init__', FR + '.from_data', FR + '.from_backend_params'])
def seed_threading(vc):
    """A frame built with seed=s - through the constructor, from_data or from_backend_params - owns the generator default_rng(s): the stream its
    noise is drawn from is a function of s alone (never fresh entropy), at position 0."""
    route = ('constructor', 'from_data', 'from_backend_params')[vc.choose(3, 'route')]
    cls = classref(vc, FR)
    n, T, seed = Int('fchans'), Int('tchans'), Int('seed')
    df, dt, fch1 = Real('df'), Real('dt'), Real('fch1')
    vc.assume(And(n >= 1, T >= 1, df > 0, dt > 0, fch1 > 0))
    if route == 'constructor':
        out = vc.run(lambda: vc.interp.call(cls, [], dict(fchans=n, tchans=T, df=df, dt=dt, fch1=fch1, seed=seed, t_start=Real('t0'))))
    elif route == 'from_data':
        out = vc.run(lambda: vc.interp.call(vc.interp.getattr(cls, 'from_data'), [df, dt, fch1, True, symbolic_array('D', (T, n))], dict(seed=seed, t_start=Real('t0'))))
    else:
        nb, fl, k = Int('num_branches'), Int('fftlength'), Int('int_factor')
        obs, sr = Real('obs_length'), Real('sample_rate')
        vc.assume(And(nb >= 2, fl >= 1, k >= 1, sr > 0, obs >= k / (sr / nb / fl)))
        out = vc.run(lambda: vc.interp.call(vc.interp.getattr(cls, 'from_backend_params'), [],
                                            dict(fchans=n, obs_length=obs, sample_rate=sr, num_branches=nb, fftlength=fl, int_factor=k, fch1=fch1, ascending=True, seed=seed)))
    vc.cover('reachable')
    vc.ensure(f'C12/seed-threading/{route}/exc/none', out.ok)
    if not out.ok:
        return
    rng = out.value.fields['rng']
    vc.ensure(f'C12/seed-threading/{route}/post/generator-is-default_rng(seed)-at-position-0', And(eq(rng.stream, Sym(z3.Function('seed_stream', z3.IntSort(), z3.IntSort())(seed.t), 'int')), eq(rng.pos, 0)))
    vc.ensure(f'C12/seed-threading/{route}/reads/no-unseeded-generator', len(tainted(vc, rng.stream)) == 0)
