"""C03 - save/load through .fil/.h5 preserves data and axis registration."""
from .common import *

PROP_LEVEL['C03'] = 'other'
PROP_TRUSTED['C03'] = [
    "blimpy is external: a Waterfall is modelled as a record (header, file_header, container attributes, data); that blimpy's writers put exactly "
    "header + container-described data on disk and that its readers return them (assumed contract of write_to_fil / write_to_hdf5 / Waterfall(path)) is "
    "exercised by the bounded native round trips, with blimpy itself as the independent reader",
    "the contract side therefore decides the in-session equivalent of the file (observe_at: Frame.get_waterfall()): what the frame hands to blimpy, and "
    "what a frame built from such a Waterfall reads back",
    "unit conversions MHz<->Hz and mjd<->unix over the reals (float32 storage and 1e-6 scaling round-off are bounded-only)",
    "sigproc.generate_sigproc_header: opaque bytes",
]
PROP_EXPLANATION['C03'] = ("_update_waterfall's postcondition for every prior Waterfall state (frame condition on stale container attributes), load path from a "
                           "Waterfall record, round-trip lemma load(update(frame)) == frame, helper axes of exactly nchans / integration-count entries")

FR = FRAME
WU = 'setigen.waterfall_utils'


def waterfall_record(vc, prefix, T, n, hdr=None, stale=True):
    """A blimpy Waterfall as the library sees it; container attributes arbitrary (stale) unless given."""
    cont = {}
    for k in ('t_begin', 't_end', 'n_channels_in_file', 'n_ints_in_file', 't_start', 't_stop', 'chan_start_idx', 'chan_stop_idx'):
        cont[k] = Int(f'{prefix}_stale_{k}')
    for k in ('file_size_bytes', 'f_end', 'f_begin', 'f_stop', 'f_start'):
        cont[k] = Real(f'{prefix}_stale_{k}')
    cont['file_shape'] = (Int(f'{prefix}_stale_fs0'), 1, Int(f'{prefix}_stale_fs2'))
    cont['selection_shape'] = (Int(f'{prefix}_stale_ss0'), 1, Int(f'{prefix}_stale_ss2'))
    cont['filename'] = 'parent.fil'
    cont['idx_data'] = Int(f'{prefix}_stale_idx')
    container = I.SObj(None, cont, tag='container')
    header = {'nbits': 32, 'source_name': I.SStr.fresh(prefix + '_src') if hasattr(I.SStr, 'fresh') else 'SRC', 'rawdatafile': 'x.fil',
              'tsamp': Real(f'{prefix}_stale_tsamp'), 'tstart': Real(f'{prefix}_stale_tstart'), 'nchans': Int(f'{prefix}_stale_nchans'),
              'fch1': Real(f'{prefix}_stale_fch1'), 'foff': Real(f'{prefix}_stale_foff')}
    if hdr:
        header.update(hdr)
    w = I.SObj(None, {'header': header, 'file_header': dict(header), 'container': container, 'data': symbolic_array(prefix + '_wdata', (Int(f'{prefix}_wd0'), 1, Int(f'{prefix}_wd2'))),
                      'n_channels_in_file': Int(f'{prefix}_stale_w_nch'), 'n_ints_in_file': Int(f'{prefix}_stale_w_ni'), 'file_shape': (0, 1, 0),
                      'file_size_bytes': Real(f'{prefix}_stale_w_fsb'), 'selection_shape': (0, 1, 0)}, tag='Waterfall')
    w.lib_type = ('blimpy.Waterfall', 'blimpy.waterfall.Waterfall')
    return w


def install_blimpy(vc, sample_T, sample_n):
    """assets/sample.fil for synthetic frames; sigproc header generator."""
    sample_hdr = {'nbits': 32, 'source_name': 'sample', 'rawdatafile': 'sample.fil', 'tsamp': Real('sample_tsamp'), 'tstart': Real('sample_tstart'),
                  'nchans': sample_n, 'fch1': Real('sample_fch1'), 'foff': Real('sample_foff')}
    made = {}

    def waterfall_ctor(interp, filename=None, f_start=None, f_stop=None, t_start=None, t_stop=None, load_data=True, max_load=None, **kw):
        name = filename if isinstance(filename, str) else getattr(filename, 's', str(filename))
        if not name.endswith('sample.fil'):
            raise Unsupported(f"blimpy.Waterfall({name!r}) not modelled in this contract")
        w = waterfall_record(vc, 'sample', sample_T, sample_n, hdr=sample_hdr)
        made['sample'] = w
        return w
    vc.interp.lib['blimpy.Waterfall'] = waterfall_ctor
    vc.interp.lib['blimpy.io.sigproc.generate_sigproc_header'] = lambda interp, w: I.SStr.of_len(Int('sigproc_header_len')) if hasattr(I.SStr, 'of_len') else 'x' * 8
    return made


def update_post(vc, tag, F, p, w, asc):
    """Postcondition of _update_waterfall, from the property: the Waterfall describes exactly this frame."""
    T, n = p['T'], p['n']
    t, c = Int('t'), Int('c')
    C_ = w.fields['container'].fields
    H = w.fields['header']
    inr = And(t >= 0, t < T, c >= 0, c < n)
    d = w.fields['data']
    vc.ensure(f'C03/_update_waterfall/{tag}/post/data-in-file-channel-order', And(d.ndim == 3, eq(d.shape[0], T), eq(d.shape[1], 1), eq(d.shape[2], n),
              Implies(inr, eq(d.at((t, 0, c)), F['data'].at((t, c if asc else n - 1 - c))))))
    sign = 1 if asc else -1
    vc.ensure(f'C03/_update_waterfall/{tag}/post/header-describes-the-frame', And(eq(H['nchans'], n), eq(H['tsamp'], F['dt']), eq(H['fch1'], F['fch1'] * Fraction(1, 10 ** 6)),
              eq(H['foff'], sign * F['df'] * Fraction(1, 10 ** 6)), eq(H['tstart'], (F['t_start'] / 86400) + 40587)))
    FH = w.fields['file_header']
    vc.ensure(f'C03/_update_waterfall/{tag}/post/file_header-agrees-with-header', And(*[eq(FH[k], H[k]) for k in ('nchans', 'tsamp', 'fch1', 'foff', 'tstart')]))
    fmin, fmax = F['fmin'], F['fmax']
    vc.ensure(f'C03/_update_waterfall/{tag}/frame/container-describes-the-frame-whatever-it-held-before',
              And(eq(C_['selection_shape'][0], T), eq(C_['selection_shape'][2], n), C_['selection_shape'][1] == 1, eq(C_['file_shape'][0], T), eq(C_['file_shape'][2], n),
                  eq(C_['n_channels_in_file'], n), eq(C_['n_ints_in_file'], T), eq(C_['chan_start_idx'], 0), eq(C_['chan_stop_idx'], n), eq(C_['t_start'], 0), eq(C_['t_stop'], T),
                  eq(C_['t_begin'], 0), eq(C_['t_end'], T), eq(C_['f_start'], fmin * Fraction(1, 10 ** 6)), eq(C_['f_stop'], fmax * Fraction(1, 10 ** 6)),
                  eq(C_['f_begin'], fmin * Fraction(1, 10 ** 6)), eq(C_['f_end'], fmax * Fraction(1, 10 ** 6)), eq(C_['file_size_bytes'], T * n * H['nbits'] / 8),
                  eq(w.fields['n_channels_in_file'], n), eq(w.fields['n_ints_in_file'], T), eq(w.fields['selection_shape'][0], T), eq(w.fields['selection_shape'][2], n)))


from fractions import Fraction


@contract('C03', 'update_waterfall_any_prior_state', functions=[FR + '._update_waterfall', FR + '.get_waterfall', FR + '.check_waterfall'])
def update_waterfall(vc):
    asc = bool(vc.choose(2, 'ascending'))
    prior = ('none', 'inherited-or-loaded')[vc.choose(2, 'prior-waterfall')]
    f, p = frame_obj(vc, asc)
    F = f.fields
    F['source_name'] = 'SRC'
    made = install_blimpy(vc, Int('sample_T'), Int('sample_n'))
    if prior != 'none':
        F['waterfall'] = waterfall_record(vc, 'parent', None, None)
    d0 = F['data']
    out = vc.call(FR + '.get_waterfall', f)
    vc.cover('reachable')
    vc.ensure(f'C03/get_waterfall/{prior}/exc/none', out.ok)
    if not out.ok:
        return
    w = out.value
    vc.ensure(f'C03/get_waterfall/{prior}/post/returns-the-attached-waterfall', And(w is F['waterfall'], w is not None))
    update_post(vc, prior, F, p, w, asc)
    if prior == 'none':
        vc.ensure('C03/_update_waterfall/none/post/synthetic-header-carries-the-source-name', And(w.fields['header']['source_name'] == 'SRC', w.fields['header']['rawdatafile'] == 'Synthetic'))
    vc.ensure(f'C03/_update_waterfall/{prior}/frame/frame-data-untouched', F['data'] is d0)
    # history: the frame is re-timed after its Waterfall was requested (Cadence.overwrite_times does this); the next request / save must
    # describe the frame as it is *now*
    t_new = Real('t_start_after_retiming')
    vc.interp.setattr(f, 't_start', t_new)
    out2 = vc.call(FR + '.get_waterfall', f)
    vc.ensure(f'C03/get_waterfall/{prior}/after-retiming/exc/none', out2.ok)
    if out2.ok:
        vc.ensure(f'C03/_update_waterfall/{prior}/after-retiming/post/tstart-follows-the-current-start-time',
                  And(eq(out2.value.fields['header']['tstart'], (t_new / 86400) + 40587), eq(out2.value.fields['file_header']['tstart'], (t_new / 86400) + 40587)))


@contract('C03', 'load_from_waterfall_and_round_trip', functions=[FR + '.__init__', FR + '._update_waterfall', WU + ':get_data'])
def round_trip(vc):
    """g = Frame(waterfall=f.get_waterfall()) is f: shape, data, axes, resolutions, start time, orientation, source name."""
    asc = bool(vc.choose(2, 'ascending'))
    prior = ('none', 'inherited-or-loaded')[vc.choose(2, 'prior-waterfall')]
    f, p = frame_obj(vc, asc)
    F = f.fields
    F['source_name'] = 'SRC'
    install_blimpy(vc, Int('sample_T'), Int('sample_n'))
    if prior != 'none':
        F['waterfall'] = waterfall_record(vc, 'parent', None, None)
        F['waterfall'].fields['header']['source_name'] = 'SRC'       # derived frames carry the parent's name (C05/D10)
    w = vc.call(FR + '.get_waterfall', f)
    if not w.ok:
        vc.ensure('C03/round-trip/exc/none', False)
        return
    cls = classref(vc, FR)
    out = vc.run(lambda: vc.interp.call(cls, [], dict(waterfall=w.value)))
    vc.cover('reachable')
    vc.ensure(f'C03/round-trip/{prior}/exc/none', out.ok)
    if not out.ok:
        return
    G = out.value.fields
    T, n = p['T'], p['n']
    t, c = Int('t'), Int('c')
    inr = And(t >= 0, t < T, c >= 0, c < n)
    vc.ensure(f'C03/round-trip/{prior}/post/same-shape', And(eq(G['tchans'], T), eq(G['fchans'], n), eq(G['data'].shape[0], T), eq(G['data'].shape[1], n)))
    vc.ensure(f'C03/round-trip/{prior}/post/same-intensities', Implies(inr, eq(G['data'].at((t, c)), F['data'].at((t, c)))))
    vc.ensure(f'C03/round-trip/{prior}/post/same-resolutions-orientation-start-name', And(eq(G['df'], F['df']), eq(G['dt'], F['dt']), G['ascending'] == asc if isinstance(G['ascending'], bool) else eq(G['ascending'], asc),
                                                                                         eq(G['t_start'], F['t_start']), G['source_name'] == 'SRC'))
    vc.ensure(f'C03/round-trip/{prior}/post/same-frequency-axis', And(eq(G['fch1'], F['fch1']), Implies(And(c >= 0, c < n), eq(G['fs'].at((c,)), F['fs'].at((c,))))))


@contract('C03', 'helper_axes', functions=[WU + ':get_fs', WU + ':get_ts', WU + ':min_freq', WU + ':max_freq', WU + ':get_data'])
def helper_axes(vc):
    """Standalone helpers on a Waterfall with arbitrary header values: axes of exactly the channel / integration counts."""
    n, T = Int('nchans'), Int('nints')
    fch1, foff, tsamp = Real('fch1'), Real('foff'), Real('tsamp')
    vc.assume(And(n >= 1, T >= 1, Not(eq(foff, 0)), tsamp > 0))
    w = waterfall_record(vc, 'w', T, n, hdr={'nchans': n, 'fch1': fch1, 'foff': foff, 'tsamp': tsamp})
    w.fields['container'].fields['selection_shape'] = (T, 1, n)
    w.fields['data'] = symbolic_array('wd', (T, 1, n))
    vc.interp.type_aliases = getattr(vc.interp, 'type_aliases', {})
    c, t = Int('c'), Int('t')
    fs = vc.call(WU + ':get_fs', w)
    vc.cover('reachable')
    vc.ensure('C03/get_fs/post/exactly-nchans-entries-fch1+i*foff', okv(fs, lambda v: And(v.ndim == 1, eq(v.shape[0], n), Implies(And(c >= 0, c < n), eq(v.at((c,)), fch1 + c * foff)))))
    ts = vc.call(WU + ':get_ts', w)
    vc.ensure('C03/get_ts/post/exactly-one-entry-per-integration-i*tsamp', okv(ts, lambda v: And(v.ndim == 1, eq(v.shape[0], T), Implies(And(t >= 0, t < T), eq(v.at((t,)), t * tsamp)))))
    d = vc.call(WU + ':get_data', w)
    vc.ensure('C03/get_data/post/2-D-view-of-the-single-polarisation', okv(d, lambda v: And(v.ndim == 2, eq(v.shape[0], T), eq(v.shape[1], n),
                                                                            Implies(And(c >= 0, c < n, t >= 0, t < T), eq(v.at((t, c)), w.fields['data'].at((t, 0, c)))))))
    lo, hi = vc.call(WU + ':min_freq', w), vc.call(WU + ':max_freq', w)
    first, last = fch1, fch1 + (n - 1) * foff
    vc.ensure('C03/min_freq-max_freq/post/ends-of-the-axis-by-orientation', And(eq(lo.value, sym_if(foff > 0, first, last)), eq(hi.value, sym_if(foff > 0, last, first))) if lo.ok and hi.ok else False)
    bad = vc.call(WU + ':get_fs', 5)
    vc.ensure('C03/get_fs/exc/ValueError-for-anything-but-a-path-or-Waterfall', And(not bad.ok, bad.exc == 'ValueError'))


@contract('C03', 'helper_axes_lengths_in_floating_point', functions=[WU + ':get_fs', WU + ':get_ts'], mode='fp-relerr')
def helper_axes_fp(vc):
    """The axis lengths must not depend on rounding: executed in the rounding-error model (each float operation exact up to one relative ulp),
    the helpers still return exactly nchans / integration-count entries for every header value."""
    n, T = Int('nchans'), Int('nints')
    fch1, foff, tsamp = Real('fch1'), Real('foff'), Real('tsamp')
    vc.assume(And(n >= 1, T >= 1, n <= 2 ** 30, T <= 2 ** 30, Not(eq(foff, 0)), tsamp > 0, fch1 > 0))
    w = waterfall_record(vc, 'w', T, n, hdr={'nchans': n, 'fch1': fch1, 'foff': foff, 'tsamp': tsamp})
    w.fields['container'].fields['selection_shape'] = (T, 1, n)
    with fp(vc):
        fs = vc.call(WU + ':get_fs', w)
        ts = vc.call(WU + ':get_ts', w)
    vc.cover('reachable')
    vc.ensure('C03/get_fs/fp/exactly-nchans-entries-whatever-the-rounding', okv(fs, lambda v: eq(v.shape[0], n)))
    vc.ensure('C03/get_ts/fp/exactly-one-entry-per-integration-whatever-the-rounding', okv(ts, lambda v: eq(v.shape[0], T)))


@contract('C03', 'derived_frames_keep_the_waterfall_consistent', functions=['setigen.slice:get_slice', 'setigen.dedrift:dedrift', FR + '.from_data', FR + '.check_waterfall'])
def derived_frames(vc):
    """Slices and de-drifted frames of a frame that carries a Waterfall (loaded from a file, or after get_waterfall): the derived frame gets its
    own copy of the Waterfall, and the name the file would be written with (header source_name) is still the frame's source name - the class
    invariant `waterfall is None or waterfall.header['source_name'] == source_name`, established by the load path (round-trip contract) and
    preserved here."""
    from . import c17 as C17
    route = ('slice', 'dedrift')[vc.choose(2, 'route')]
    asc = bool(vc.choose(2, 'ascending'))
    f, p = frame_obj(vc, asc)
    F = f.fields
    F['source_name'] = 'SRC'
    install_blimpy(vc, Int('sample_T'), Int('sample_n'))
    w = waterfall_record(vc, 'parent', None, None)
    w.fields['header']['source_name'] = 'SRC'
    F['waterfall'] = w
    if route == 'slice':
        l, r = Int('l'), Int('r')
        vc.assume(And(l >= 0, l < r, r <= p['n']))
        out = vc.call('setigen.slice:get_slice', f, l, r)
    else:
        d = Real('drift_rate')
        nonneg = bool(vc.choose(2, 'drift>=0'))
        vc.assume(d >= 0 if nonneg else d < 0)
        i, j = fresh_idx('i', 'j')
        spec = C17.DedriftLoop(vc, p, d, i, j)
        spec.dsign_nonneg = nonneg
        vc.interp.loop_specs[('setigen.dedrift:dedrift', 0)] = spec
        out = vc.call('setigen.dedrift:dedrift', f, d)
    vc.cover('reachable')
    if not out.ok:
        vc.ensure(f'C03/derived/{route}/exc/only-the-documented-ValueError', route == 'dedrift' and out.exc == 'ValueError')
        return
    R = out.value.fields
    rw = R['waterfall']
    vc.ensure(f'C03/derived/{route}/post/own-copy-of-the-waterfall', And(rw is not None, rw is not w, rw.fields['header'] is not w.fields['header'] if rw is not None else False))
    vc.ensure(f'C03/derived/{route}/post/file-name-card-is-still-the-frame-source-name', And(R['source_name'] == 'SRC', rw is not None and rw.fields['header']['source_name'] == 'SRC',
                                                                                          w.fields['header']['source_name'] == 'SRC'))
