"""C06 - injection is additive, confined to its bounding range, preserves frame state."""
from .common import *
from . import c01 as C1

PROP_LEVEL['C06'] = 'proof'
PROP_TRUSTED['C06'] = [
    "pixel formula of add_signal: proved under C01 (same contracts, re-run here for the frame/additivity clauses)",
    "'bit-for-bit untouched' is proved as: no write to data outside [b0,b1) (the in-place += touches only the slice); float addition order for superposition over the reals",
]
PROP_EXPLANATION['C06'] = "modifies-clause of add_signal (only data[:, b0:b1]), additivity, restriction lemma, empty ranges, state preservation, superposition"

FR = FRAME
ADD = FR + '.add_signal'


def snapshot_state(f):
    F = f.fields
    return dict(ids={k: id(v) for k, v in F.items()}, fs_w=F['fs'].writes, ts_w=F['ts'].writes, rng_pos=F['rng'].pos, rng_draws=len(F['rng'].draws),
                meta=dict(F['metadata']), scal={k: F[k] for k in ('fchans', 'tchans', 'df', 'dt', 'fmin', 'fmax', 'fch1', 'ascending', 'noise_mean', 'noise_std', 't_start', 'shape')})


def state_unchanged(vc, tag, f, st, interp_writes_before):
    F = f.fields
    same_obj = all(id(F[k]) == st['ids'][k] for k in st['ids']) and set(F) == set(st['ids'])
    vc.ensure(f'C06/{tag}/frame/no-attribute-rebound-or-added', same_obj)
    vc.ensure(f'C06/{tag}/frame/axes-not-written', And(F['fs'].writes == st['fs_w'], F['ts'].writes == st['ts_w']))
    vc.ensure(f'C06/{tag}/frame/random-state-unchanged', And(eq(F['rng'].pos, st['rng_pos']), len(F['rng'].draws) == st['rng_draws']))
    vc.ensure(f'C06/{tag}/frame/metadata-unchanged', And(set(F['metadata']) == set(st['meta']), *[F['metadata'][k] is st['meta'][k] or eq(F['metadata'][k], st['meta'][k]) is True for k in st['meta']]))
    vc.ensure(f'C06/{tag}/frame/scalars-and-noise-estimates-unchanged', And(*[F[k] is st['scal'][k] for k in st['scal']]))
    heap = [w for w in vc.interp.heap_writes[interp_writes_before:] if w[0] is f]
    vc.ensure(f'C06/{tag}/frame/no-attribute-assignment-on-the-frame', len(heap) == 0)


@contract('C06', 'confined_additive_state', functions=[ADD])
def confined(vc):
    """Non-empty bounding range (or none): data changes by exactly the returned signal, zero outside; all other state untouched."""
    use_b = bool(vc.choose(2, 'bounding'))
    smear = bool(vc.choose(2, 'smearing'))
    f, p = frame_obj(vc, bool(vc.choose(2, 'ascending')))
    rng_bounds, b0, b1 = C1.bounding(vc, p, use_b)
    vc.assume(b0 < b1)
    d0 = SArr(p['data'].shape, p['data']._snapshot(), 'real')
    st = snapshot_state(f)
    hw = len(vc.interp.heap_writes)
    ns = Int('smearing_subsamples')
    vc.assume(ns >= 1)
    ii, jj = Int('ii'), Int('jj')
    if smear:
        vc.interp.loop_specs[(ADD, 0)] = C1.SmearLoop(vc, [(ii, jj)])
    out = vc.call(ADD, f, C1.PATH(), C1.TP(), C1.FP(), bp_profile=C1.BP(), bounding_f_range=rng_bounds, doppler_smearing=smear, smearing_subsamples=ns)
    vc.cover('reachable')
    vc.ensure('C06/add_signal/exc/none', out.ok)
    if not out.ok:
        return
    sig = out.value
    i, j = Int('i'), Int('j')
    inr = And(i >= 0, i < p['T'], j >= 0, j < p['n'])
    D = f.fields['data']
    vc.ensure('C06/add_signal/post/data-changed-by-exactly-the-returned-signal', Implies(inr, eq(D.at((i, j)), d0.at((i, j)) + sig.at((i, j)))))
    vc.ensure('C06/add_signal/post/pixels-outside-range-untouched', Implies(And(inr, Not(And(j >= b0, j < b1))), And(eq(D.at((i, j)), d0.at((i, j))), eq(sig.at((i, j)), 0))))
    vc.ensure('C06/add_signal/frame/data-object-kept-and-written-once-in-place', And(D is p['data'], D.writes == 1))
    state_unchanged(vc, 'add_signal', f, st, hw)


@contract('C06', 'empty_bounding_range', functions=[ADD])
def empty_range(vc):
    """A requested range that does not intersect the band (wholly below / above, or inverted) adds nothing and raises nothing."""
    int_f = bool(vc.choose(2, 'integrate_f_profile'))
    f, p = frame_obj(vc, True)
    rng_bounds, b0, b1 = C1.bounding(vc, p, True)
    vc.assume(b1 <= b0)
    d0 = SArr(p['data'].shape, p['data']._snapshot(), 'real')
    st = snapshot_state(f)
    hw = len(vc.interp.heap_writes)
    nf = Int('f_subsamples')
    vc.assume(nf >= 1)
    out = vc.call(ADD, f, C1.PATH(), C1.TP(), C1.FP(), bp_profile=C1.BP(), bounding_f_range=rng_bounds, integrate_f_profile=int_f, f_subsamples=nf)
    vc.cover('reachable')
    vc.ensure('C06/add_signal/empty-range/exc/none', out.ok)
    if not out.ok:
        return
    i, j = Int('i'), Int('j')
    inr = And(i >= 0, i < p['T'], j >= 0, j < p['n'])
    vc.ensure('C06/add_signal/empty-range/post/returns-zeros', And(eq(out.value.shape[0], p['T']), eq(out.value.shape[1], p['n']), Implies(inr, eq(out.value.at((i, j)), 0))))
    vc.ensure('C06/add_signal/empty-range/post/data-untouched', Implies(inr, eq(f.fields['data'].at((i, j)), d0.at((i, j)))))
    state_unchanged(vc, 'add_signal/empty-range', f, st, hw)


@contract('C06', 'restriction_and_superposition', functions=[ADD])
def restriction(vc):
    """Bounded result = unbounded result restricted to the range; two successive injections add the sum of the
    separately computed signals, in either order (over the reals)."""
    f1, p = frame_obj(vc, True)
    f2, _ = frame_obj(vc, True)          # same symbolic frame (same field terms), separate data object
    rng_bounds, b0, b1 = C1.bounding(vc, p, True)
    vc.assume(b0 < b1)
    PA, TA, FA, BA = C1.PATH(), C1.TP(), C1.FP(), C1.BP()
    a = vc.call(ADD, f1, PA, TA, FA, bp_profile=BA, bounding_f_range=rng_bounds)
    b = vc.call(ADD, f2, PA, TA, FA, bp_profile=BA)
    vc.ensure('C06/restriction/exc/none', And(a.ok, b.ok))
    if not (a.ok and b.ok):
        return
    i, j = Int('i'), Int('j')
    inr = And(i >= 0, i < p['T'], j >= b0, j < b1)
    vc.ensure('C06/restriction/post/bounded=unbounded-restricted-to-range', Implies(inr, eq(a.value.at((i, j)), b.value.at((i, j)))))
    # superposition
    g1, q = frame_obj(vc, True, prefix='s_')
    d0 = SArr(q['data'].shape, q['data']._snapshot(), 'real')
    g2, _ = frame_obj(vc, True, prefix='s_', data=SArr(d0.shape, d0._snapshot(), 'real'))     # same initial content, separate object
    P2, T2, F2 = I.SFunc('PATH2'), I.SFunc('TP2'), I.SFunc('FP2', 2)
    s1 = vc.call(ADD, g1, PA, TA, FA)
    s2 = vc.call(ADD, g1, P2, T2, F2)
    r2 = vc.call(ADD, g2, P2, T2, F2)
    r1 = vc.call(ADD, g2, PA, TA, FA)
    vc.ensure('C06/superposition/exc/none', And(s1.ok, s2.ok, r1.ok, r2.ok))
    inq = And(i >= 0, i < q['T'], j >= 0, j < q['n'])
    vc.ensure('C06/superposition/post/successive-injections-add-the-sum', Implies(inq, eq(g1.fields['data'].at((i, j)), d0.at((i, j)) + s1.value.at((i, j)) + s2.value.at((i, j)))))
    vc.ensure('C06/superposition/post/order-independent', Implies(inq, And(eq(g1.fields['data'].at((i, j)), g2.fields['data'].at((i, j))),
                                                                          eq(s1.value.at((i, j)), r1.value.at((i, j))), eq(s2.value.at((i, j)), r2.value.at((i, j))))))


# "the frame's axes ... are unchanged by an injection" also covers injection through a cadence, which shifts every frame's time axis for the
# duration of the call: C16's Cadence.add_signal contract (time axes restored exactly, on normal return and when the injection raises) is
# discharged again here
from . import c16 as _C16
contract('C06', 'cadence_injection_restores_every_time_axis', functions=['setigen.cadence:Cadence.add_signal'])(_C16.cadence_add_signal)


# "injection changes the frame's data ... and nothing else": a frame built from an existing array (data=, from_data, get_slice) owns a *copy* of
# it, so an injection cannot reach the caller's array, the parent frame or a sibling frame - C05's constructor contracts, discharged again here
from . import c05 as _C5
contract('C06', 'frames_built_from_an_array_own_a_copy', functions=[FRAME + '.__init__'])(_C5.frame_init)
contract('C06', 'from_data_frames_own_a_copy', functions=[FRAME + '.from_data'])(_C5.from_data)
