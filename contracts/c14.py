"""C14 - injection onto existing RAW: exact decode, same framing, stationary gain."""
from .common import *
from . import c04 as C4
from . import c02 as C2
from pyvc.rawfile import Layout, RawFileR

PROP_LEVEL['C14'] = 'proof'
PROP_TRUSTED['C14'] = [
    "input files are modelled by the writer's layout (C04) with symbolic data bytes; antenna/polarisation counts of the antenna source match the input (precondition from the call sites)",
    "stage contracts as in C02; the requantiser target statistics set from the decoded block are covered by the bounded native run",
]
PROP_EXPLANATION['C14'] = "decode = inverse of the GUPPI layout (8/4 bit), bytes consumed per block, per-sub-block composition with the input, stationary gain (frame condition on channelized_stds), block clamp"

BK = C4.BK


@contract('C14', 'read_next_block_decode', functions=[BK + '._read_next_block'])
def read_next_block(vc):
    npol = 1 + vc.choose(2, 'num_pols')
    nbits = (8, 4)[vc.choose(2, 'num_bits')]
    nant = 1 + vc.choose(2, 'num_antennas')
    nc, T = Int('num_chans'), Int('T')
    vc.assume(And(nc >= 1, T >= 1))
    bps = 2 * npol * nbits // 8
    bs = nant * nc * T * bps
    lay = C4.writer_layout(vc)
    D = z3.Function('rawbyte', z3.IntSort(), z3.IntSort(), z3.IntSort())
    lay.data_fn = lambda blk, q: Sym(D(Sym.lift(blk).as_int(), Sym.lift(q).as_int()), 'int')
    vc.assume(eq(lay.blocsize, bs))
    nblk, g = Int('nblocks'), Int('block_index')
    vc.assume(And(nblk >= 1, g >= 0, g < nblk))
    f = RawFileR(lay, nblk)
    f.cursor = g * lay.blocklen
    # bytes are int8
    bq = Int('any_q')
    CTX.side.append(z3.ForAll([bq.t], z3.And(D(g.t, bq.t) >= -128, D(g.t, bq.t) <= 127)))
    rqs = [[mkobj(vc, 'setigen.voltage.quantization:ComplexQuantizer',
                  quantizer_r=mkobj(vc, 'setigen.voltage.quantization:RealQuantizer', target_mean=0, target_std=1, target_fwhm=1),
                  quantizer_i=mkobj(vc, 'setigen.voltage.quantization:RealQuantizer', target_mean=0, target_std=1, target_fwhm=1)) for p in range(npol)] for a in range(nant)]
    for row in rqs:
        for q in row:
            q.partial = False
            q.fields['quantizer_r'].partial = False
            q.fields['quantizer_i'].partial = False
    be = mkobj(vc, BK, input_file_handler=f, header_size=lay.hsize, block_size=bs, num_chans=nc, num_antennas=nant, num_pols=npol, num_bits=nbits,
               bytes_per_sample=bps, requantizer=rqs)
    out = vc.call(BK + '._read_next_block', be)
    vc.cover('reachable')
    vc.ensure('C14/_read_next_block/exc/none', out.ok)
    if not out.ok:
        return
    v = out.value
    vc.ensure('C14/_read_next_block/post/consumes-exactly-header+block', eq(f.cursor, (g + 1) * lay.blocklen))
    vc.ensure('C14/_read_next_block/post/shape', And(v.ndim == 2, eq(v.shape[0], nant * nc), eq(v.shape[1], T * npol)))
    c, s = Int('c'), Int('s')
    row = T * bps
    for a in range(nant):
        for p in range(npol):
            ch = a * nc + c
            got = SCplx.lift(v.at((ch, s * npol + p)))
            inr = And(c >= 0, c < nc, s >= 0, s < T)
            if nbits == 8:
                off = (s * npol + p) * 2
                R, Im = lay.data_fn(g, ch * row + off), lay.data_fn(g, ch * row + off + 1)
            else:
                b = lay.data_fn(g, ch * row + s * npol + p)
                hi = b // 16
                lo = b - 16 * hi
                R, Im = hi, sym_if(lo >= 8, lo - 16, lo)
                # pack(unpack(b)) = b: the decode inverts the writer's nibble packing (C02)
                vc.ensure('C14/_read_next_block/lemma/unpack-inverts-pack', Implies(inr, And(R >= -8, R <= 7, Im >= -8, Im <= 7, eq(R * 16 + sym_if(Im < 0, Im + 16, Im), b))))
            vc.ensure('C14/_read_next_block/post/sample-(c,t,p)-is-the-stored-pair-in-GUPPI-layout', Implies(inr, And(eq(got.re, R), eq(got.im, Im))))


def injection(vc, npol, nbits, digitize):
    be, P = C2.pipeline(vc, npol, nbits, digitize, True)
    be.fields['input_file_stem'] = 'in'
    T, nc = P['T'], P['nc']
    inp = symbolic_array('input_block', (nc, T * npol), 'complex')
    vc.interp.call_specs[BK + '._read_next_block'] = lambda interp, clo, args, kwargs: inp
    S = P['spec']
    lo, hi = P['lo'], P['hi']
    stds0, tstd = {}, {}
    calls = {'custom': []}
    for p in range(npol):
        st = symbolic_array(f'chan_stds_{p}', (2,))
        be.fields['filterbank'][0][p].fields['channelized_stds'] = st
        stds0[p] = SArr((2,), st._snapshot(), 'real')
        tstd[p] = be.fields['digitizer'][0][p].fields['target_std']
        rq = be.fields['requantizer'][0][p]
        rq.fields['quantizer_r'] = mkobj(vc, 'setigen.voltage.quantization:RealQuantizer', target_mean=Real(f'tm_r{p}'))
        rq.fields['quantizer_i'] = mkobj(vc, 'setigen.voltage.quantization:RealQuantizer', target_mean=Real(f'tm_i{p}'))
        rq.fields['quantizer_r'].partial = False
        rq.fields['quantizer_i'].partial = False
    RS = [z3.Function(f'rq_synth_re_{p}', z3.RealSort(), z3.RealSort()) for p in range(npol)]
    RSI = [z3.Function(f'rq_synth_im_{p}', z3.RealSort(), z3.RealSort()) for p in range(npol)]
    RF = [z3.Function(f'rq_final_re_{p}', z3.RealSort(), z3.IntSort()) for p in range(npol)]
    RFI = [z3.Function(f'rq_final_im_{p}', z3.RealSort(), z3.IntSort()) for p in range(npol)]

    def requantize_contract(interp, clo, args, kwargs):
        kw = interp.bind_args(clo, args, kwargs)
        me, v, cs = kw['self'], kw['voltages'], kw['custom_stds']
        p = me.fields['pol']
        snap = v._snapshot()
        if cs is not None:
            # first pass: the synthetic block scaled as if embedded in unit-variance noise (x digitiser target deviation)
            j = Int('std_idx')
            want = lambda q: stds0[p].at((q,)) * (tstd[p] if digitize else 1)
            vc.ensure('C14/collect_data_block/pre@callsite/gain-is-channelized_stds-times-digitiser-target-deviation-in-every-subblock',
                      And(isinstance(cs, SArr), Implies(And(j >= 0, j < 2), eq(cs.at((j,)), want(j)))))
            vc.ensure('C14/collect_data_block/pre@callsite/synthetic-pass-uses-zero-target-mean',
                      And(eq(me.fields['quantizer_r'].fields['target_mean'], 0), eq(me.fields['quantizer_i'].fields['target_mean'], 0)))
            calls['custom'].append(p)
            return SArr(v.shape, lambda idx: SCplx(Sym(RS[p](Sym.lift(SCplx.lift(snap(idx)).re).as_real()), 'real'),
                                                    Sym(RSI[p](Sym.lift(SCplx.lift(snap(idx)).im).as_real()), 'real')), 'complex')
        vc.ensure('C14/collect_data_block/pre@callsite/final-pass-uses-the-restored-target-means',
                  And(eq(me.fields['quantizer_r'].fields['target_mean'], Real(f'tm_r{p}')), eq(me.fields['quantizer_i'].fields['target_mean'], Real(f'tm_i{p}'))))

        def el(idx):
            z = SCplx.lift(snap(idx))
            re = Sym(RF[p](Sym.lift(z.re).as_real()), 'int')
            im = Sym(RFI[p](Sym.lift(z.im).as_real()), 'int')
            CTX.side.append(And(re >= lo, re <= hi, im >= lo, im <= hi).t)
            return SCplx(re, im)
        return SArr(v.shape, el, 'complex')
    vc.interp.call_specs['setigen.voltage.quantization:ComplexQuantizer.quantize'] = requantize_contract

    def stored(p, t, c, comp):
        n = Sym.lift(P['pos0'] + t).as_int()
        ch = Sym.lift(P['sc'] + c).as_int()
        iv = SCplx.lift(inp.at((c, t * npol + p)))
        if comp == 0:
            x = Sym(RS[p](S['SPR'][p](n, ch)), 'real') + iv.re
            v = Sym(RF[p](x.as_real()), 'int')
        else:
            x = Sym(RSI[p](S['SPI'][p](n, ch)), 'real') + iv.im
            v = Sym(RFI[p](x.as_real()), 'int')
        CTX.side.append(And(v >= lo, v <= hi).t)
        return v

    def byte_spec(Pd, final, c, t, p):
        R, Im = stored(p, t, c, 0), stored(p, t, c, 1)
        if nbits == 8:
            off = (t * npol + p) * 2
            return And(eq(final.at((c, off)), R), eq(final.at((c, off + 1)), Im))
        return eq(final.at((c, t * npol + p)), R * 16 + sym_if(Im < 0, Im + 16, Im))
    C2_byte_spec = C2.byte_spec
    C2.byte_spec = byte_spec
    try:
        cc, tt = Int('cc'), Int('tt')
        loop = C2.SubblockLoop(vc, P, cc, tt)
        for p in range(npol):
            # frame condition carried through the loop: the filterbank's channelized_stds keep their values (stationary gain)
            loop.extra_parts.append((lambda p: (lambda interp, env, k: (f'channelized_stds-unchanged-pol{p}',
                                     And(*[eq(be.fields['filterbank'][0][p].fields['channelized_stds'].at((q,)), stds0[p].at((q,))) for q in range(2)]))))(p))
        vc.interp.loop_specs[(BK + '.collect_data_block', 0)] = loop
        out = vc.call(BK + '.collect_data_block', be, digitize=digitize, requantize=True, verbose=False)
        vc.cover('reachable')
        vc.ensure('C14/collect_data_block/exc/none', out.ok)
        if not out.ok:
            return
        final = out.value
        for p in range(npol):
            vc.ensure('C14/collect_data_block/post/output=requantised(input+scaled-synthetic)-sample-for-sample',
                      Implies(And(cc >= 0, cc < nc, tt >= 0, tt < T), byte_spec(P, final, cc, tt, p)))
            st = be.fields['filterbank'][0][p].fields['channelized_stds']
            j = Int('j')
            vc.ensure('C14/collect_data_block/frame/channelized_stds-not-modified-(same-gain-for-every-subblock-and-block)',
                      And(st.writes == 0 if isinstance(st, SArr) else False, Implies(And(j >= 0, j < 2), eq(st.at((j,)), stds0[p].at((j,))))))
            rq = be.fields['requantizer'][0][p]
            vc.ensure('C14/collect_data_block/post/target-means-restored', And(eq(rq.fields['quantizer_r'].fields['target_mean'], Real(f'tm_r{p}')),
                                                                             eq(rq.fields['quantizer_i'].fields['target_mean'], Real(f'tm_i{p}'))))
    finally:
        C2.byte_spec = C2_byte_spec


@contract('C14', 'requantize_required_and_block_clamp', functions=[BK + '.collect_data_block', BK + '.record'])
def misc(vc):
    be, P = C2.pipeline(vc, 1, 8, True, True)
    be.fields['input_file_stem'] = 'in'
    out = vc.call(BK + '.collect_data_block', be, digitize=True, requantize=False, verbose=False)
    vc.ensure('C14/collect_data_block/exc/requantize-is-required-with-input-data', And(not out.ok, out.exc == 'ValueError'))


def _register():
    for npol in (1, 2):
        for nbits in (8, 4):
            for digitize in (True, False):
                name = f"injection_gain_and_composition[{npol}pol,{nbits}bit,{'digitized' if digitize else 'undigitized'}]"
                contract('C14', name, functions=[BK + '.collect_data_block'],
                         note="collect_data_block with input RAW data: _read_next_block and the stages through contracts")(
                    (lambda a, b, c: (lambda vc: injection(vc, a, b, c)))(npol, nbits, digitize))


_register()


# from_data's framing (header size used to step through the input, block size, bit depth, channel and block counts): the same contract
# function as in the C04 check, discharged again here because "padded or unpadded headers" is a clause of this property
contract('C14', 'from_data_framing', functions=[BK + '.from_data', C4.RU + ':get_raw_params'],
         note="from_data: header size == the input's written header size (padded iff DIRECTIO != 0), same block size / bits / channels / block counts")(C4.from_data_header_size)


# (the contract function lives in c02.py - both checks discharge it - to keep the module imports acyclic)
contract('C14', 'per_antenna_pipeline_objects_are_independent', functions=[BK + '.__init__'])(C2.independent_tables)


@contract('C14', 'channelized_noise_estimate_is_per_filterbank', functions=['setigen.voltage.polyphase_filterbank:PolyphaseFilterbank.estimate_channelized_stds'])
def estimate_per_filterbank(vc):
    """estimate_channelized_stds: every call draws unit noise, channelises it with *this* filterbank (cache off) and stores the deviations of that
    result - also when another filterbank of the same geometry (but another window) was estimated earlier in the process."""
    PFBK = 'setigen.voltage.polyphase_filterbank:PolyphaseFilterbank'
    taps, nb = (4, 16)
    seeded = bool(vc.choose(2, 'seeded'))
    calls = []

    def channelize_contract(interp, clo, args, kwargs):
        kw = interp.bind_args(clo, args, kwargs)
        me, x = kw['self'], kw['x']
        V = symbolic_array(f'V{len(calls)}', (Int(f'rows{len(calls)}'), nb // 2), 'complex')
        vc.assume(Int(f'rows{len(calls)}') >= 2)
        calls.append((me, x, kw.get('cache'), V))
        return V
    vc.interp.call_specs[PFBK + '.channelize'] = channelize_contract
    fbs = [mkobj(vc, PFBK, num_taps=taps, num_branches=nb, window=symbolic_array(f'h{q}', (taps * nb,)), window_fn=('hamming', 'boxcar')[q], cache=None, channelized_stds=None)
           for q in range(2)]
    for q, fbk in enumerate(fbs):
        fbk.partial = False
        n0 = len(calls)
        kw = dict(seed=Int(f'seed{q}')) if seeded else {}
        out = vc.call(PFBK + '.estimate_channelized_stds', fbk, **kw)
        vc.ensure(f'C14/estimate_channelized_stds/call-{q + 1}/exc/none', out.ok)
        if not out.ok:
            return
        made = calls[n0:]
        ok_call = len(made) == 1 and made[0][0] is fbk and made[0][2] is False and isinstance(made[0][1], SArr) and made[0][1].ndim == 1
        vc.ensure(f'C14/estimate_channelized_stds/call-{q + 1}/pre@callsite/channelises-fresh-unit-noise-with-this-filterbank-cache-off',
                  And(ok_call, eq(made[0][1].shape[0], 10000 * nb)) if ok_call else False)
        if not ok_call:
            continue
        V = made[0][3]
        want_r = L.LIB['numpy.std'](vc.interp, L.np_real(vc.interp, V)) if 'numpy.std' in L.LIB else None
        want_i = L.LIB['numpy.std'](vc.interp, L.np_imag(vc.interp, V)) if 'numpy.std' in L.LIB else None
        cs = fbk.fields['channelized_stds']
        vc.ensure(f'C14/estimate_channelized_stds/call-{q + 1}/post/stores-the-deviations-of-that-result',
                  And(isinstance(cs, SArr) and cs.ndim == 1, eq(cs.shape[0], 2), eq(cs.at((0,)), want_r), eq(cs.at((1,)), want_i), out.value is cs) if isinstance(cs, SArr) and want_r is not None else False)
    vc.cover('reachable')
    vc.ensure('C14/estimate_channelized_stds/post/each-filterbank-holds-its-own-estimate', fbs[0].fields['channelized_stds'] is not fbs[1].fields['channelized_stds'])


# "at most its number of blocks": the clamp of the requested length to the input and everything reported from the clamped count - C20's
# contract for record() on input data, discharged again here (this is the clause the name of requantize_required_and_block_clamp promises)
from . import c20 as _C20
contract('C14', 'length_clamped_to_the_input', functions=[BK + '.record'])(_C20.record_clamped)
