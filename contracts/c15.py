"""C15 - array antennas see the shared background delayed by their configured delays."""
from .common import *

PROP_LEVEL['C15'] = 'proof'
PROP_TRUSTED['C15'] = [
    "antenna count enumerated over {1,2,3} (quick) / {1,2,3,4} (thorough) (each antenna is treated by the same loop body; delays, request sizes, the request "
    "history (through the cache invariant) and stream contents are symbolic)",
    "numpy Generator ghost-stream model; one noise source + one custom signal per stream",
]
PROP_EXPLANATION['C15'] = ("Hoare triples for the first request and for a later request from an arbitrary state satisfying the cache invariant: "
                           "result = own sample + background sample k + max_delay - delay_i; invariant re-established; reset clears caches")

MA = 'setigen.voltage.antenna:MultiAntennaArray'


def build_array(vc, nant, npol, delays_form):
    cls = classref(vc, MA)
    sr, t0 = Real('sample_rate'), Real('t0')
    vc.assume(sr > 0)
    ds = [Int(f'delay{i}') for i in range(nant)]
    vc.assume(And(*[d >= 0 for d in ds]))
    kw = dict(num_antennas=nant, sample_rate=sr, fch1=Real('fch1'), ascending=True, num_pols=npol, t_start=t0, seed=Int('seed'))
    if delays_form == 'list':
        kw['delays'] = list(ds)
    elif delays_form == 'none':
        ds = [0] * nant
    out = vc.run(lambda: vc.interp.call(cls, [], kw))
    return out, dict(sr=sr, t0=t0, ds=ds, nant=nant, npol=npol)


def add_sources(vc, arr, P):
    F = arr.fields
    spec = {}
    bgs = F['bg_streams']
    for p, bg in enumerate(bgs):
        bm, bs = Real(f'bg_m{p}'), Real(f'bg_s{p}')
        vc.interp.call(vc.interp.getattr(bg, 'add_noise'), [bm, bs], {})
        B = I.SFunc(f'bg_sig{p}')
        vc.interp.call(vc.interp.getattr(bg, 'add_signal'), [B], {})
        spec[('bg', p)] = (bm, bs, B, bg.fields['rng'])
    for i, an in enumerate(F['antennas']):
        for p, st in enumerate(an.fields['streams']):
            om, os_ = Real(f'own_m{i}_{p}'), Real(f'own_s{i}_{p}')
            vc.interp.call(vc.interp.getattr(st, 'add_noise'), [om, os_], {})
            S = I.SFunc(f'own_sig{i}_{p}')
            vc.interp.call(vc.interp.getattr(st, 'add_signal'), [S], {})
            spec[('own', i, p)] = (om, os_, S, st.fields['rng'])
    return spec


def BG(spec, P, p, j):
    m, s, B, rng = spec[('bg', p)]
    return m + s * L._draw(rng, j) + B.apply_scalar(P['t0'] + j / P['sr'])


def OWN(spec, P, i, p, j):
    m, s, S, rng = spec[('own', i, p)]
    return m + s * L._draw(rng, j) + S.apply_scalar(P['t0'] + j / P['sr'])


@contract('C15', 'init_delays', functions=[MA + '.__init__'])
def init_delays(vc):
    nant = 1 + vc.choose(3 if vc.tier != 'thorough' else 4, 'num_antennas')
    npol = 1 + vc.choose(2, 'num_pols')
    form = ('none', 'list')[vc.choose(2, 'delays')]
    out, P = build_array(vc, nant, npol, form)
    vc.cover('reachable')
    vc.ensure(f'C15/__init__/delays-{form}/exc/none', out.ok)
    if not out.ok:
        return
    F = out.value.fields
    mx = P['ds'][0]
    for d in P['ds'][1:]:
        mx = smax(mx, d)
    vc.ensure(f'C15/__init__/delays-{form}/post/max_delay', eq(F['max_delay'], mx))
    vc.ensure(f'C15/__init__/delays-{form}/post/per-antenna-delay', And(*[eq(an.fields['delay'], d) for an, d in zip(F['antennas'], P['ds'])]))
    vc.ensure(f'C15/__init__/delays-{form}/post/omitted-means-zero', form != 'none' or And(eq(F['max_delay'], 0), *[eq(an.fields['delay'], 0) for an in F['antennas']]))
    vc.ensure(f'C15/__init__/post/structure', And(len(F['antennas']) == nant, len(F['bg_streams']) == npol, F['start_obs'] is True,
                                                   *[an.fields['bg_cache'][0] is None and an.fields['bg_cache'][1] is None for an in F['antennas']]))
    vc.ensure('C15/__init__/post/every-antenna-owns-its-cache-list', len({id(an.fields['bg_cache']) for an in F['antennas']}) == len(F['antennas']))


def request(vc, later, view_cache=False):
    nant = 1 + vc.choose(3 if vc.tier != 'thorough' else 4, 'num_antennas')
    npol = 1 + vc.choose(2, 'num_pols')
    out, P = build_array(vc, nant, npol, 'list')
    if not out.ok:
        vc.ensure('C15/get_samples/setup', False)
        return
    arr = out.value
    F = arr.fields
    spec = add_sources(vc, arr, P)
    mxd = F['max_delay']
    n = Int('n')
    vc.assume(n > mxd)
    dt = 1 / P['sr']
    if later:
        # arbitrary state after earlier requests of this observation: N samples delivered, g = N + max_delay background
        # samples drawn, caches hold the last delay_i background samples (the class invariant as precondition)
        N = Int('N_delivered')
        vc.assume(N >= 1)
        g = N + mxd
        F['start_obs'] = False
        F['t_start'] = P['t0'] + N * dt
        for p, bg in enumerate(F['bg_streams']):
            bg.fields['start_obs'] = False
            bg.fields['t_start'] = P['t0'] + g * dt
            bg.fields['rng'].pos = g
        prev_bufs = []
        if view_cache:
            # heap shape left by the previous request (ownership part of the invariant): every background stream still holds the buffer
            # `v` of its last draw, and each antenna's cache is a *view* of the tail of that buffer - a later request must not write
            # into that buffer (it has to draw into a fresh one), because the caches are consumed after the new draw
            Lp = Int('prev_bg_draw')
            vc.assume(And(Lp >= mxd, Lp >= 1, Lp <= g))
            for p, bg in enumerate(F['bg_streams']):
                bg.fields['v'] = SArr((Lp,), (lambda p: (lambda idx: BG(spec, P, p, g - Lp + idx[0])))(p), 'real')
                prev_bufs.append((bg.fields['v'], bg.fields['v'].writes))
        for i, an in enumerate(F['antennas']):
            d = P['ds'][i]
            if view_cache:
                an.fields['bg_cache'] = [vc.interp.getitem(F['bg_streams'][p].fields['v'], slice(Lp - d, None)) for p in range(npol)] + [None] * (2 - npol)
            else:
                an.fields['bg_cache'] = [SArr((d,), (lambda p, d: (lambda idx: BG(spec, P, p, g - d + idx[0])))(p, d), 'real') for p in range(npol)] + [None] * (2 - npol)
            for p, st in enumerate(an.fields['streams']):
                st.fields['start_obs'] = False
                st.fields['t_start'] = P['t0'] + N * dt
                st.fields['rng'].pos = N
                st.fields['v'] = symbolic_array(f'prev_v{i}_{p}', (Int('prev_request'),))
        vc.assume(Int('prev_request') >= 1)
    else:
        N = 0
        g = 0
    res = vc.call(MA + '.get_samples', arr, n)
    tag = 'later-request' if later else 'first-request'
    vc.cover('reachable')
    vc.ensure(f'C15/get_samples/{tag}/exc/none', res.ok)
    if not res.ok:
        return
    if later and view_cache:
        vc.ensure('C15/get_samples/later-request/frame/previous-background-buffers-not-written-while-the-caches-view-them',
                  all(buf.writes == w0 for buf, w0 in prev_bufs))
        return
    v = res.value
    k = Int('k')
    inr = And(k >= 0, k < n)
    vc.ensure(f'C15/get_samples/{tag}/post/shape', And(v.ndim == 3, eq(v.shape[0], nant), eq(v.shape[1], npol), eq(v.shape[2], n)))
    g2 = (n + mxd) if not later else g + n
    for i, an in enumerate(F['antennas']):
        d = P['ds'][i]
        for p in range(npol):
            want = OWN(spec, P, i, p, N + k) + BG(spec, P, p, N + k + mxd - d)
            vc.ensure(f'C15/get_samples/{tag}/post/own+background-delayed-by-max-minus-delay', Implies(inr, eq(v.at((i, p, k)), want)))
            c = an.fields['bg_cache'][p]
            j = Int('j')
            vc.ensure(f'C15/get_samples/{tag}/post/cache-invariant',
                      And(isinstance(c, SArr) and c.ndim == 1, eq(c.shape[0], d) if isinstance(c, SArr) else False,
                          Implies(And(j >= 0, j < d), eq(c.at((j,)), BG(spec, P, p, g2 - d + j))) if isinstance(c, SArr) else False))
            st = an.fields['streams'][p]
            vc.ensure(f'C15/get_samples/{tag}/post/own-stream-position', And(eq(st.fields['rng'].pos, N + n), eq(st.fields['t_start'], P['t0'] + (N + n) * dt)))
    for p, bg in enumerate(F['bg_streams']):
        vc.ensure(f'C15/get_samples/{tag}/post/background-position', And(eq(bg.fields['rng'].pos, g2), eq(bg.fields['t_start'], P['t0'] + g2 * dt)))
    vc.ensure(f'C15/get_samples/{tag}/post/array-clock', And(eq(F['t_start'], P['t0'] + (N + n) * dt), F['start_obs'] is False))
    return arr, P


@contract('C15', 'first_request', functions=[MA + '.get_samples', 'setigen.voltage.data_stream:DataStream.get_samples'])
def first_request(vc):
    request(vc, False)


@contract('C15', 'later_request', functions=[MA + '.get_samples', 'setigen.voltage.data_stream:DataStream.get_samples'])
def later_request(vc):
    request(vc, True)


@contract('C15', 'later_request_cache_ownership', functions=[MA + '.get_samples', 'setigen.voltage.data_stream:DataStream._update_t'])
def later_request_ownership(vc):
    request(vc, True, view_cache=True)


@contract('C15', 'reset_clears_background', functions=[MA + '.set_time', MA + '.add_time', MA + '.reset_start'])
def reset(vc):
    nant = 1 + vc.choose(3 if vc.tier != 'thorough' else 4, 'num_antennas')
    npol = 1 + vc.choose(2, 'num_pols')
    out, P = build_array(vc, nant, npol, 'list')
    arr = out.value
    F = arr.fields
    for an in F['antennas']:
        an.fields['bg_cache'] = [symbolic_array('c', (Int('clen'),)), symbolic_array('c2', (Int('clen'),))]
    F['start_obs'] = False
    t1 = Real('t1')
    F['t_start'] = t1
    which = ('set_time', 'add_time', 'reset_start')[vc.choose(3, 'op')]
    t = Real('t')
    args = [] if which == 'reset_start' else [t]
    o = vc.call(MA + '.' + which, arr, *args)
    want = t if which == 'set_time' else (t1 + t if which == 'add_time' else t1)
    vc.ensure(f'C15/{which}/exc/none', o.ok)
    vc.ensure(f'C15/{which}/post/caches-cleared-and-start_obs', And(F['start_obs'] is True, *[an.fields['bg_cache'][0] is None and an.fields['bg_cache'][1] is None for an in F['antennas']]))
    # ownership: every antenna has its own cache list (get_samples stores the tails by item assignment)
    vc.ensure(f'C15/{which}/post/every-antenna-owns-its-cache-list', len({id(an.fields['bg_cache']) for an in F['antennas']}) == len(F['antennas']))
    clocks = [eq(F['t_start'], want)] + [eq(b.fields['t_start'], want) for b in F['bg_streams']] + \
             [eq(st.fields['t_start'], want) for an in F['antennas'] for st in an.fields['streams']] + \
             [b.fields['start_obs'] is True for b in F['bg_streams']] + [st.fields['start_obs'] is True for an in F['antennas'] for st in an.fields['streams']]
    vc.ensure(f'C15/{which}/post/all-clocks-at-requested-instant', And(*clocks))
