"""Helpers shared by the sidecar contracts."""
import z3
from pyvc.sym import Sym, SCplx, CTX, And, Or, Not, Implies, eq, sym_if, smin, smax, to_int, round_half_even, floor, ceil, sqrt, is_conc
from pyvc.arr import SArr, symbolic_array, conc_int, PyRaise, Unsupported
from pyvc import interp as I
from pyvc import lib as L
from pyvc.registry import contract, PROP_TRUSTED, PROP_LEVEL, PROP_EXPLANATION


def Int(name):
    return Sym(z3.Int(name), 'int')


def Real(name):
    return Sym(z3.Real(name), 'real')


def Bool(name):
    return Sym(z3.Bool(name), 'bool')


def mkobj(vc, key, **fields):
    """A heap object of the repository class `module:Class` with the given field values."""
    modname, cname = key.split(':')
    m = vc.interp.load_module(modname)
    if cname not in m.classes:
        raise Unsupported(f"class {key} not found")
    return I.SObj(m.classes[cname], fields)


def classref(vc, key):
    modname, cname = key.split(':')
    m = vc.interp.load_module(modname)
    return I.ClassRef(m.classes[cname])


def fp_mode(vc, on=True):
    CTX.fp = on
    vc.mode = 'fp-relerr' if on else vc.mode_default if hasattr(vc, 'mode_default') else 'real'


class fp:
    """with fp(vc): ... run repository code in fp-relerr mode."""

    def __init__(self, vc):
        self.vc = vc

    def __enter__(self):
        CTX.fp = True
        self.vc.mode = 'fp-relerr'

    def __exit__(self, *a):
        CTX.fp = False


def exact(f):
    """Evaluate a spec expression with exact arithmetic even inside fp blocks."""
    old = CTX.fp
    CTX.fp = False
    try:
        return f()
    finally:
        CTX.fp = old


def relclose(x, y, ulps):
    """|x - y| <= ulps * 2^-53 * |y| (exact arithmetic)."""
    from fractions import Fraction
    e = Fraction(ulps, 2 ** 53)
    return exact(lambda: And(x - y <= e * abs(y), y - x <= e * abs(y)))
