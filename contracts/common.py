"""Helpers shared by the sidecar contracts."""
import z3
from pyvc.sym import Sym, SCplx, CTX, And, Or, Not, Implies, eq, sym_if, smin, smax, to_int, round_half_even, floor, ceil, sqrt, is_conc
from pyvc.arr import SArr, symbolic_array, conc_int, PyRaise, Unsupported
from pyvc import interp as I
from pyvc import lib as L
from pyvc.registry import contract, PROP_TRUSTED, PROP_LEVEL, PROP_EXPLANATION


def Int(name):
    return Sym(z3.Int(name), 'int')


def Real(name):
    return Sym(z3.Real(name), 'real')


def Bool(name):
    return Sym(z3.Bool(name), 'bool')


def mkobj(vc, key, **fields):
    """A heap object of the repository class `module:Class` with the given field values."""
    modname, cname = key.split(':')
    m = vc.interp.load_module(modname)
    if cname not in m.classes:
        raise Unsupported(f"class {key} not found")
    return I.SObj(m.classes[cname], fields, partial=True)


def classref(vc, key):
    modname, cname = key.split(':')
    m = vc.interp.load_module(modname)
    return I.ClassRef(m.classes[cname])


def fp_mode(vc, on=True):
    CTX.fp = on
    vc.mode = 'fp-relerr' if on else vc.mode_default if hasattr(vc, 'mode_default') else 'real'


class fp:
    """with fp(vc): ... run repository code in fp-relerr mode."""

    def __init__(self, vc):
        self.vc = vc

    def __enter__(self):
        CTX.fp = True
        self.vc.mode = 'fp-relerr'

    def __exit__(self, *a):
        CTX.fp = False


def exact(f):
    """Evaluate a spec expression with exact arithmetic even inside fp blocks."""
    old = CTX.fp
    CTX.fp = False
    try:
        return f()
    finally:
        CTX.fp = old


def relclose(x, y, ulps):
    """|x - y| <= ulps * 2^-53 * |y| (exact arithmetic)."""
    from fractions import Fraction
    e = Fraction(ulps, 2 ** 53)
    return exact(lambda: And(x - y <= e * abs(y), y - x <= e * abs(y)))


FRAME = 'setigen.frame:Frame'


def frame_obj(vc, asc, prefix='', cls_key=FRAME, data=None, T0=None, waterfall=None, extra_meta=None):
    """A Frame heap object satisfying the frame invariant FI (precondition of every Frame method)."""
    n, T = Int(prefix + 'fchans'), Int(prefix + 'tchans')
    df, dt, fmin = Real(prefix + 'df'), Real(prefix + 'dt'), Real(prefix + 'fmin')
    vc.assume(And(n >= 1, T >= 1, df > 0, dt > 0, fmin > 0))
    fmax = fmin + (n - 1) * df
    if data is None:
        data = symbolic_array(prefix + 'data', (T, n))
    t0 = 0 if T0 is None else T0
    fs = SArr((n,), lambda idx: fmin + idx[0] * df, 'real')
    ts = SArr((T,), lambda idx: t0 + idx[0] * dt, 'real')
    meta = {'fchans': n, 'tchans': T, 'df': df, 'dt': dt, 'fch1': (fmin if asc else fmax), 'ascending': asc}
    if extra_meta:
        meta.update(extra_meta)
    rng = L.RNG('seed', Int(prefix + 'rng_stream'))
    rng.pos = Int(prefix + 'rng_pos')
    f = mkobj(vc, cls_key, fchans=n, tchans=T, shape=(T, n), df=df, dt=dt, fmin=fmin, fmax=fmax,
              fch1=(fmin if asc else fmax), ascending=asc, data=data, fs=fs, ts=ts, rng=rng,
              t_start=Real(prefix + 't_start'), source_name=I.SStr(Int(prefix + 'name_len'), None, tag=('source_name', prefix)),
              noise_mean=Real(prefix + 'noise_mean'), noise_std=Real(prefix + 'noise_std'), metadata=meta,
              waterfall=waterfall, header=None, unit_drift_rate=df / dt, chi2_df=4 * round_half_even(df * dt))
    return f, dict(n=n, T=T, df=df, dt=dt, fmin=fmin, fmax=fmax, asc=asc, data=data, fs=fs, ts=ts, rng=rng)


def fresh_idx(*names):
    return [Int(n) for n in names]


def okv(out, cond):
    """cond(out.value) if the call returned normally, else False (so that a raising call fails the obligation instead of crashing the contract)."""
    if not out.ok or out.value is None:
        return False
    return cond(out.value)
