"""C16 - cadence injection is time-continuous and leaves frame time axes intact."""
from .common import *
from pyvc.heap import RefHeap, ObjRef, SList, fresh_list

PROP_LEVEL['C16'] = 'proof'
PROP_TRUSTED['C16'] = [
    "Frame.add_signal is used through its contract (C01): the signal added is the C01 formula over the frame's CURRENT ts; with "
    "integrate_path/integrate_t_profile the sub-sample grid starts at ts[0] (C01 grids), so a shifted ts shifts the grid",
    "(ts + o) - o = ts over the reals (float deviation reported by the bounded run)",
    "overwrite_times: distinct list positions hold distinct frame objects",
]
PROP_EXPLANATION['C16'] = "loop invariant over a symbolic-length cadence: per-frame shift at the call site, restoration on normal AND exceptional exit, slew spacing"

CAD = 'setigen.cadence:Cadence'


def frame_heap(vc):
    m = vc.interp.load_module('setigen.frame')
    h = RefHeap('F', m.classes['Frame'])
    for f, k in [('df', 'real'), ('dt', 'real'), ('fmin', 'real'), ('t_start', 'real'), ('fchans', 'int'), ('tchans', 'int')]:
        h.declare(f, k)
    h.declare('ts', 'arr1', shape=lambda i: (h.read('tchans', i),))
    h.declare('data', 'arr2', shape=lambda i: (h.read('tchans', i), h.read('fchans', i)))
    return h


class InjectLoop:
    def __init__(self, vc, h, old_ts, mm, ii):
        self.vc, self.h, self.old_ts, self.mm, self.ii = vc, h, old_ts, mm, ii

    def havoc(self, interp, env, k, phase):
        # every frame's ts may have been rewritten by earlier iterations: havoc the ts map, keep it through the invariant
        self.h.fields.pop('ts', None)
        self.h.name = self.h.name + 'h'
        env.vars.pop('frame', None)
        if phase == 'pres':
            # instantiate the invariant also at the frame being processed (index k)
            me = env.get('self')
            fr = me.fields['frames']
            self.vc.assume(self.inst(fr, k, self.ii))

    def inst(self, fr, m, i):
        r = fr.at(m)
        return Implies(And(i >= 0, i < self.h.read('tchans', r.ref_id)), eq(self.h.fn('ts')(r.ref_id)((i,)), self.old_ts(r.ref_id)((i,))))

    def inv(self, interp, env, k):
        me = env.get('self')
        fr = me.fields['frames']
        # every frame's time axis equals what it was before the call (restored for frames < k, untouched for the rest)
        return Implies(And(self.mm >= 0, self.mm < fr.length), self.inst(fr, self.mm, self.ii))


@contract('C16', 'cadence_add_signal', functions=[CAD + '.add_signal', CAD + '.t_start'])
def cadence_add_signal(vc):
    may_raise = bool(vc.choose(2, 'callback-may-raise'))
    # what the callback may raise: an ordinary exception, or an abort that is not an `Exception` (KeyboardInterrupt during a long injection)
    raised = ('UserError', 'KeyboardInterrupt')[vc.choose(2, 'raised-exception')] if may_raise else None
    integ = bool(vc.choose(2, 'sub-sample-integration'))
    h = frame_heap(vc)
    frames = fresh_list('frames', h)
    n = frames.length
    vc.assume(n >= 1)
    c = mkobj(vc, CAD, frames=frames, t_slew=0, t_overwrite=False)
    old = h.snapshot()
    old_ts = old.fn('ts')
    mm, ii = Int('mm'), Int('ii')
    spec = InjectLoop(vc, h, old_ts, mm, ii)
    vc.interp.loop_specs[(CAD + '.add_signal', 0)] = spec
    calls = []

    def add_signal_contract(interp, clo, args, kwargs):
        """Call contract of Frame.add_signal (C01/C06): adds the C01 signal evaluated on the frame's current ts to data,
        touches nothing else; user callables may raise."""
        fr = args[0]
        kw = dict(kwargs)
        ts_now = h.fn('ts')(fr.ref_id)
        k_i = ii          # the invariant is instantiated at ii (universally quantified)
        off = old.read('t_start', fr.ref_id) - old.read('t_start', frames.at(0).ref_id)
        # pre@callsite (property): the frame's time axis is its own axis shifted by its start time relative to the first frame
        vc.ensure('C16/Cadence.add_signal/pre@callsite/ts-shifted-by-start-time-relative-to-first-frame',
                  Implies(And(k_i >= 0, k_i < h.read('tchans', fr.ref_id)), eq(ts_now((k_i,)), old_ts(fr.ref_id)((k_i,)) + off)))
        vc.ensure('C16/Cadence.add_signal/pre@callsite/arguments-passed-through', And(len(args) == 4, args[1] is PATHF, args[2] is TPF, args[3] is FPF,
                                                                                      kw.get('integrate_path', False) is integ, kw.get('integrate_t_profile', False) is integ))
        calls.append(fr)
        if may_raise and interp.branch(Bool(f'callback_raises_{len(calls)}')):
            raise PyRaise(raised, 'user callback raised')
        # effect: data += S (S depends on the current ts); modelled as an opaque update of this frame's data only
        newd = symbolic_array('data_after', (h.read('tchans', fr.ref_id), h.read('fchans', fr.ref_id)))
        h.write('data', fr.ref_id, newd)
        return newd
    vc.interp.call_specs['setigen.frame:Frame.add_signal'] = add_signal_contract
    PATHF, TPF, FPF = I.SFunc('PATH'), I.SFunc('TP'), I.SFunc('FP', 2)
    kw = dict(integrate_path=True, integrate_t_profile=True) if integ else {}
    out = vc.run(lambda: vc.interp.call(vc.interp.getattr(c, 'add_signal'), [PATHF, TPF, FPF], kw))
    vc.cover('reachable')
    tag = 'exceptional-exit' if not out.ok else 'normal-exit'
    if not out.ok:
        vc.ensure('C16/Cadence.add_signal/exc/only-the-callback-exception', And(may_raise, out.exc == raised))
    r = frames.at(mm)
    vc.ensure(f'C16/Cadence.add_signal/{tag}/post/every-frame-time-axis-as-before',
              Implies(And(mm >= 0, mm < n, ii >= 0, ii < h.read('tchans', r.ref_id)), eq(h.fn('ts')(r.ref_id)((ii,)), old_ts(r.ref_id)((ii,)))))
    vc.ensure(f'C16/Cadence.add_signal/{tag}/frame/start-times-and-list-unchanged',
              And(eq(h.read('t_start', r.ref_id), old.read('t_start', r.ref_id)), c.fields['frames'] is frames, frames.mutations == 0))


class OverwriteLoop:
    """overwrite_times/loop#0: for i, frame in enumerate(frames[1:]): frame.t_start = frames[i].t_stop + t_slew."""

    def __init__(self, vc, h, old, frames, mm):
        self.vc, self.h, self.old, self.frames, self.mm = vc, h, old, frames, mm

    def stop(self, r):
        return self.h.read('t_start', r.ref_id) + self.h.read('tchans', r.ref_id) * self.h.read('dt', r.ref_id)

    def havoc(self, interp, env, k, phase):
        self.h.fields.pop('t_start', None)
        self.h.name = self.h.name + 'h'
        env.vars.pop('frame', None)
        env.vars.pop('i', None)
        fr = self.frames
        if phase == 'pres':
            # distinct positions hold distinct frames (stated assumption), instantiated where the step needs it
            self.vc.assume(And(Not(eq(fr.at(k + 1).ref_id, fr.at(k).ref_id)),
                               Implies(And(self.mm >= 0, self.mm <= k), Not(eq(fr.at(self.mm).ref_id, fr.at(k + 1).ref_id))),
                               Implies(And(self.mm >= 1, self.mm <= k), Not(eq(fr.at(self.mm - 1).ref_id, fr.at(k + 1).ref_id))),
                               Not(eq(fr.at(0).ref_id, fr.at(k + 1).ref_id))))
            self.vc.assume(self.at(k, k))        # the invariant at the predecessor used by this step

    def at(self, m, k):
        fr = self.frames
        return Implies(And(m >= 1, m <= k), eq(self.h.read('t_start', fr.at(m).ref_id), self.stop(fr.at(m - 1)) + self.slew))

    def inv(self, interp, env, k):
        # after k iterations frames 1..k start one slew time after their (already updated) predecessor stops; frame 0 is untouched
        self.slew = env.get('self').fields['t_slew']
        fr = self.frames
        return And(self.at(self.mm, k), eq(self.h.read('t_start', fr.at(0).ref_id), self.old.read('t_start', fr.at(0).ref_id)))


@contract('C16', 'overwrite_times', functions=[CAD + '.overwrite_times', CAD + '.slew_times', 'setigen.frame:Frame.t_stop'],
          note="overwrite_times: distinct list positions hold distinct frame objects (assumed)")
def overwrite_times(vc):
    h = frame_heap(vc)
    frames = fresh_list('frames', h)
    n = frames.length
    vc.assume(n >= 1)
    slew = Real('t_slew')
    c = mkobj(vc, CAD, frames=frames, t_slew=slew, t_overwrite=True)
    old = h.snapshot()
    mm = Int('mm')
    spec = OverwriteLoop(vc, h, old, frames, mm)
    spec.slew = slew
    vc.interp.loop_specs[(CAD + '.overwrite_times', 0)] = spec
    out = vc.call(CAD + '.overwrite_times', c)
    vc.cover('reachable')
    vc.ensure('C16/overwrite_times/exc/none', out.ok)
    if not out.ok:
        return
    r, rp = frames.at(mm), frames.at(mm - 1)
    gap = h.read('t_start', r.ref_id) - spec.stop(rp)
    vc.ensure('C16/overwrite_times/post/consecutive-frames-spaced-by-exactly-the-slew-time', Implies(And(mm >= 1, mm < n), eq(gap, slew)))
    vc.ensure('C16/overwrite_times/post/first-frame-start-unchanged', eq(h.read('t_start', frames.at(0).ref_id), old.read('t_start', frames.at(0).ref_id)))
    vc.ensure('C16/overwrite_times/frame/list-unchanged', frames.mutations == 0)


# Cadence.add_signal hands every frame to Frame.add_signal with its time axis shifted by the frame's start offset (call-site obligation
# above).  That a single frame injects correctly on a *shifted* axis - sub-sample grids and the smearing end points taken from the frame's
# own ts, not from 0 - is C01's contract with a symbolic axis origin; it is discharged again here because the time-continuity clause of this
# property rests on it.
from . import c01 as _C1
contract('C16', 'single_frame_injection_on_a_shifted_time_axis', functions=[_C1.ADD, FRAME + '.ts_ext'],
         note="C01's flags_callable_time contract (integrate_path / integrate_t_profile / doppler_smearing, symbolic axis origin T0)")(_C1.flags_callable_time)


@contract('C16', 'consolidate_concatenates_in_order_with_absolute_times', functions=[CAD + '.consolidate', CAD + '.tchans', CAD + '.__init__'],
          note="number of frames enumerated (1-3); per-frame integration counts, start times and contents symbolic")
def consolidate(vc):
    """consolidate(): one frame whose rows are the frames' rows in cadence order and whose time axis holds every frame's own sample times made
    absolute (ts + t_start), for frames of *different* lengths."""
    m = 1 + vc.choose(3, 'num_frames')
    fcls, ccls = classref(vc, FRAME), classref(vc, CAD)
    n = Int('fchans')
    df, dt, fch1 = Real('df'), Real('dt'), Real('fch1')
    vc.assume(And(n >= 1, df > 0, dt > 0, fch1 > 0))
    frames, Ts, t0s = [], [], []
    for k in range(m):
        T, t0 = Int(f'tchans{k}'), Real(f't_start{k}')
        vc.assume(T >= 1)
        f = vc.interp.call(fcls, [], dict(fchans=n, tchans=T, df=df, dt=dt, fch1=fch1, ascending=True, t_start=t0, seed=Int(f'seed{k}')))
        f.fields['data'] = symbolic_array(f'D{k}', (T, n))
        f.fields['ts'] = symbolic_array(f'TS{k}', (T,))          # any local time axis (not necessarily the default one)
        frames.append(f); Ts.append(T); t0s.append(t0)
    cad = vc.interp.call(ccls, [], dict(frame_list=list(frames)))
    out = vc.call(CAD + '.consolidate', cad)
    vc.cover('reachable')
    vc.ensure('C16/consolidate/exc/none', out.ok)
    if not out.ok:
        return
    C_ = out.value.fields
    tot = sum(Ts[1:], Ts[0])
    vc.ensure('C16/consolidate/post/shapes', And(C_['data'].ndim == 2, eq(C_['data'].shape[0], tot), eq(C_['data'].shape[1], n), C_['ts'].ndim == 1, eq(C_['ts'].shape[0], tot),
                                                 eq(C_['tchans'], tot), eq(C_['fchans'], n)))
    r, j = Int('r'), Int('j')
    off = 0
    for k in range(m):
        inr = And(r >= 0, r < Ts[k], j >= 0, j < n)
        vc.ensure(f'C16/consolidate/post/frame-{k}-rows-in-place', Implies(inr, eq(C_['data'].at((off + r, j)), frames[k].fields['data'].at((r, j)))))
        vc.ensure(f'C16/consolidate/post/frame-{k}-times-absolute', Implies(And(r >= 0, r < Ts[k]), eq(C_['ts'].at((off + r,)), frames[k].fields['ts'].at((r,)) + t0s[k])))
        off = off + Ts[k]
    vc.ensure('C16/consolidate/post/starts-at-the-cadence-start', eq(C_['t_start'], t0s[0]))
