"""C10 - antenna streams deliver one continuous timeline however requests are chunked."""
from .common import *

PROP_LEVEL['C10'] = 'proof'
PROP_TRUSTED['C10'] = [
    "numpy Generator as a ghost stream: standard_normal(size=n) consumes positions [p, p+n) in order, so standard_normal(a) then (b) "
    "equals standard_normal(a+b) split (stream-splitting assumption; probed natively)",
    "np.linspace formula; cos uninterpreted; time grid compared over the reals (t0+(N+k)dt vs (t0+N dt)+k dt differ by rounding in floats)",
    "streams carry two noise sources and three signal sources (constant chirp, real custom, complex custom); the source loops are unrolled",
]
PROP_EXPLANATION['C10'] = "time grid, clock advance, chunk concatenation == one-shot at a symbolic sample, chirp closed form, clock setters, antenna stacking"

DS = 'setigen.voltage.data_stream:DataStream'
ANT = 'setigen.voltage.antenna:Antenna'


def make_stream(vc, tag, asc, complex_src=True):
    """A DataStream built through the real constructor and source-adding methods."""
    cls = classref(vc, DS)
    sr, fch1, t0, seed = Real('sample_rate'), Real('fch1'), Real('t0'), Int('seed')
    vc.assume(And(sr > 0))
    s = vc.interp.call(cls, [], dict(sample_rate=sr, fch1=fch1, ascending=asc, t_start=t0, seed=seed))
    m1, s1, m2, s2 = Real('m1'), Real('s1'), Real('m2'), Real('s2')
    vc.interp.call(vc.interp.getattr(s, 'add_noise'), [m1, s1], {})
    vc.interp.call(vc.interp.getattr(s, 'add_noise'), [m2, s2], {})
    f0, dr, lv, ph = Real('f_start'), Real('drift'), Real('level'), Real('phase')
    vc.interp.call(vc.interp.getattr(s, 'add_constant_signal'), [f0, dr, lv], dict(phase=ph))
    G = I.SFunc('custom_sig')
    vc.interp.call(vc.interp.getattr(s, 'add_signal'), [G], {})
    H = None
    if complex_src:
        H = I.SFunc('custom_csig', complex_out=True)
        vc.interp.call(vc.interp.getattr(s, 'add_signal'), [H], {})
    P = dict(sr=sr, fch1=fch1, t0=t0, seed=seed, m1=m1, s1=s1, m2=m2, s2=s2, f0=f0, dr=dr, lv=lv, ph=ph, G=G, H=H, asc=asc)
    return s, P


def spec_sample(P, rng, kglob, p0=0):
    """Property: sample k (global index) = noise(draw k) + chirp(t_k) + custom(t_k), t_k = t0 + k/sample_rate."""
    t = P['t0'] + kglob / P['sr']
    # each noise source draws n values per request: request-local interleaving is part of the ghost-stream model,
    # so the noise clause is compared through the engine's own draw positions (see chunking contract)
    chirp = 2 * L.PI * ((P['f0'] - P['fch1']) * t + P['dr'] * t * t / 2)
    if not P['asc']:
        chirp = -chirp
    sig = P['lv'] * L.UF_COS(chirp + P['ph'])
    return t, sig


@contract('C10', 'get_samples_single_request', functions=[DS + '.get_samples', DS + '._update_t', DS + '.add_noise', DS + '.add_constant_signal', DS + '.add_signal', DS + '.__init__'])
def single_request(vc):
    asc = bool(vc.choose(2, 'ascending'))
    cplx = bool(vc.choose(2, 'complex-source'))
    s, P = make_stream(vc, 'a', asc, cplx)
    n = Int('n')
    vc.assume(n >= 1)
    rng = s.fields['rng']
    out = vc.run(lambda: vc.interp.call(vc.interp.getattr(s, 'get_samples'), [n], {}))
    vc.cover('reachable')
    vc.ensure('C10/get_samples/exc/none', out.ok)
    if not out.ok:
        return
    v = out.value
    k = Int('k')
    inr = And(k >= 0, k < n)
    t, chirp = spec_sample(P, rng, k)
    vc.ensure('C10/get_samples/post/length', And(v.ndim == 1, eq(v.shape[0], n)))
    vc.ensure('C10/get_samples/post/time-grid', Implies(inr, eq(s.fields['ts'].at((k,)), t)))
    noise = P['m1'] + P['s1'] * L._draw(rng, k) + P['m2'] + P['s2'] * L._draw(rng, n + k)
    val = v.at((k,))
    custom = P['G'].apply_scalar(t)
    if cplx:
        c2 = P['H'].apply_scalar(t)
        vc.ensure('C10/get_samples/post/sum-of-noise-chirp-custom-sources', Implies(inr, And(eq(val.re, noise + chirp + custom + c2.re), eq(val.im, c2.im))))
        vc.ensure('C10/get_samples/post/complex-promotion', v.dtype == 'complex')
    else:
        vc.ensure('C10/get_samples/post/sum-of-noise-chirp-custom-sources', Implies(inr, eq(val, noise + chirp + custom)))
        vc.ensure('C10/get_samples/post/stays-real', v.dtype != 'complex')
    vc.ensure('C10/get_samples/post/clock-advanced-by-n-samples', eq(s.fields['t_start'], P['t0'] + n / P['sr']))
    vc.ensure('C10/get_samples/post/generator-advanced-by-n-per-noise-source', eq(rng.pos, 2 * n))
    vc.ensure('C10/get_samples/post/start_obs-cleared', s.fields['start_obs'] is False)


@contract('C10', 'chunked_equals_one_shot', functions=[DS + '.get_samples', DS + '._update_t'],
          note="noise streams: with more than one noise source the per-source draw positions of chunked requests interleave differently from a "
               "one-shot request (source 1 then source 2 per request); sample-for-sample equality is therefore stated for a stream with one "
               "noise source, which is what the property's 'seeded noise is identical sample for sample' can mean for a numpy Generator")
def chunked(vc):
    asc = bool(vc.choose(2, 'ascending'))
    cls = classref(vc, DS)
    sr, fch1, t0, seed = Real('sample_rate'), Real('fch1'), Real('t0'), Int('seed')
    vc.assume(sr > 0)

    def build():
        s = vc.interp.call(cls, [], dict(sample_rate=sr, fch1=fch1, ascending=asc, t_start=t0, seed=seed))
        vc.interp.call(vc.interp.getattr(s, 'add_noise'), [Real('m1'), Real('s1')], {})
        vc.interp.call(vc.interp.getattr(s, 'add_constant_signal'), [Real('f_start'), Real('drift'), Real('level')], dict(phase=Real('phase')))
        vc.interp.call(vc.interp.getattr(s, 'add_signal'), [G], {})
        vc.interp.call(vc.interp.getattr(s, 'add_signal'), [H], {})
        return s
    G, H = I.SFunc('custom_sig'), I.SFunc('custom_csig', complex_out=True)
    a, b = build(), build()
    n1, n2, n3 = Int('n1'), Int('n2'), Int('n3')
    vc.assume(And(n1 >= 1, n2 >= 1, n3 >= 1))
    ga = vc.interp.getattr(a, 'get_samples')
    v1 = vc.interp.call(ga, [n1], {}).copy()
    v2 = vc.interp.call(ga, [n2], {}).copy()
    v3 = vc.interp.call(ga, [n3], {}).copy()
    w = vc.interp.call(vc.interp.getattr(b, 'get_samples'), [n1 + n2 + n3], {})
    k = Int('k')
    vc.cover('reachable')
    for nm, part, off, ln in (('first', v1, 0, n1), ('second', v2, n1, n2), ('third', v3, n1 + n2, n3)):
        x, y = part.at((k,)), w.at((off + k,))
        vc.ensure(f'C10/chunking/post/{nm}-chunk-equals-one-shot-segment', Implies(And(k >= 0, k < ln), And(eq(x.re, y.re), eq(x.im, y.im))))
    vc.ensure('C10/chunking/post/same-final-clock', eq(a.fields['t_start'], b.fields['t_start']))
    vc.ensure('C10/chunking/post/same-generator-position', eq(a.fields['rng'].pos, b.fields['rng'].pos))


@contract('C10', 'clock_setters', functions=[DS + '.set_time', DS + '.add_time', DS + '.update_noise', 'setigen.voltage.data_stream:estimate_stats'])
def clock_setters(vc):
    s, P = make_stream(vc, 'a', True, False)
    t, d = Real('t_new'), Real('delta')
    vc.interp.call(vc.interp.getattr(s, 'get_samples'), [Int('n0')], {}) if False else None
    s.fields['start_obs'] = False
    o = vc.call(DS + '.set_time', s, t)
    vc.ensure('C10/set_time/post/clock-at-requested-instant', And(o.ok, eq(s.fields['t_start'], t), s.fields['start_obs'] is True))
    s.fields['start_obs'] = False
    o = vc.call(DS + '.add_time', s, d)
    vc.ensure('C10/add_time/post/clock-moved-by-delta', And(o.ok, eq(s.fields['t_start'], t + d), s.fields['start_obs'] is True))
    which = vc.choose(2, 'start_obs')
    s.fields['start_obs'] = bool(which)
    N = Int('N')
    vc.assume(N >= 1)
    o = vc.call(DS + '.update_noise', s, stats_calc_num_samples=N)
    vc.ensure('C10/update_noise/post/clock-and-start_obs-restored', And(o.ok, eq(s.fields['t_start'], t + d), s.fields['start_obs'] is bool(which)))


@contract('C10', 'antenna_stacking_and_clock', functions=[ANT + '.__init__', ANT + '.get_samples', ANT + '.set_time', ANT + '.add_time', ANT + '.reset_start'])
def antenna(vc):
    npol = 1 + vc.choose(2, 'num_pols')
    cls = classref(vc, ANT)
    sr, t0 = Real('sample_rate'), Real('t0')
    vc.assume(sr > 0)
    o = vc.run(lambda: vc.interp.call(cls, [], dict(sample_rate=sr, fch1=Real('fch1'), ascending=True, num_pols=npol, t_start=t0, seed=Int('seed'))))
    vc.ensure('C10/Antenna.__init__/exc/none', o.ok)
    if not o.ok:
        return
    a = o.value
    streams = a.fields['streams']
    vc.ensure('C10/Antenna.__init__/post/streams-x-y-order', And(len(streams) == npol, streams[0] is a.fields['x'], npol == 1 or streams[1] is a.fields['y']))
    for st in streams:
        vc.interp.call(vc.interp.getattr(st, 'add_noise'), [0, 1], {})
        vc.interp.call(vc.interp.getattr(st, 'add_signal'), [I.SFunc('sig_' + str(id(st) % 7))], {})
    clocks = lambda: And(*[eq(st.fields['t_start'], a.fields['t_start']) for st in streams])
    vc.ensure('C10/Antenna.__init__/post/clock-equals-streams', clocks())
    n = Int('n')
    vc.assume(n >= 1)
    xs = [st for st in streams]
    out = vc.call(ANT + '.get_samples', a, n)
    vc.ensure('C10/Antenna.get_samples/exc/none', out.ok)
    if not out.ok:
        return
    v = out.value
    k = Int('k')
    vc.ensure('C10/Antenna.get_samples/post/shape-(1,npol,n)', And(v.ndim == 3, eq(v.shape[0], 1), eq(v.shape[1], npol), eq(v.shape[2], n)))
    for p in range(npol):
        vc.ensure(f'C10/Antenna.get_samples/post/pol{p}-is-stream-{"xy"[p]}', Implies(And(k >= 0, k < n), eq(v.at((0, p, k)), xs[p].fields['v'].at((k,)))))
    vc.ensure('C10/Antenna.get_samples/post/clock-equals-streams', And(clocks(), eq(a.fields['t_start'], t0 + n / sr)))
    vc.ensure('C10/Antenna.get_samples/post/start_obs-cleared', a.fields['start_obs'] is False)
    t, d = Real('t_new'), Real('delta')
    o = vc.call(ANT + '.set_time', a, t)
    vc.ensure('C10/Antenna.set_time/post', And(o.ok, eq(a.fields['t_start'], t), clocks(), a.fields['start_obs'] is True, *[st.fields['start_obs'] is True for st in streams]))
    o = vc.call(ANT + '.add_time', a, d)
    vc.ensure('C10/Antenna.add_time/post', And(o.ok, eq(a.fields['t_start'], t + d), clocks()))
    a.fields['start_obs'] = False
    o = vc.call(ANT + '.reset_start', a)
    vc.ensure('C10/Antenna.reset_start/post/clock-unchanged-start_obs-set', And(o.ok, eq(a.fields['t_start'], t + d), clocks(), a.fields['start_obs'] is True))


@contract('C10', 'chunked_two_noise_sources', functions=[DS + '.get_samples', DS + '.add_noise'])
def chunked_two_noise(vc):
    """The same chunking clause for a stream carrying two noise sources (they share the stream's generator)."""
    cls = classref(vc, DS)
    sr, fch1, t0, seed = Real('sample_rate'), Real('fch1'), Real('t0'), Int('seed')
    vc.assume(sr > 0)

    def build():
        s = vc.interp.call(cls, [], dict(sample_rate=sr, fch1=fch1, ascending=True, t_start=t0, seed=seed))
        vc.interp.call(vc.interp.getattr(s, 'add_noise'), [Real('m1'), Real('s1')], {})
        vc.interp.call(vc.interp.getattr(s, 'add_noise'), [Real('m2'), Real('s2')], {})
        return s
    a, b = build(), build()
    n1, n2 = Int('n1'), Int('n2')
    vc.assume(And(n1 >= 1, n2 >= 1))
    ga = vc.interp.getattr(a, 'get_samples')
    v1 = vc.interp.call(ga, [n1], {}).copy()
    v2 = vc.interp.call(ga, [n2], {}).copy()
    w = vc.interp.call(vc.interp.getattr(b, 'get_samples'), [n1 + n2], {})
    k = Int('k')
    vc.ensure('C10/chunking/two-noise-sources/post/first-chunk-equals-one-shot-segment', Implies(And(k >= 0, k < n1), eq(v1.at((k,)), w.at((k,)))))
    vc.ensure('C10/chunking/two-noise-sources/post/second-chunk-equals-one-shot-segment', Implies(And(k >= 0, k < n2), eq(v2.at((k,)), w.at((n1 + k,)))))


@contract('C10', 'request_length_fp', functions=[DS + '._update_t', DS + '.get_samples'], mode='fp-relerr')
def request_length_fp(vc):
    """A request of n samples returns exactly n samples (time grid and voltage buffer) - also in floating point."""
    cls = classref(vc, DS)
    sr, t0 = Real('sample_rate'), Real('t0')
    vc.assume(And(sr >= 1, sr <= 10 ** 12, t0 >= 0, t0 <= 10 ** 9))
    n = Int('n')
    vc.assume(And(n >= 1, n <= 2 ** 40))
    with fp(vc):
        s = vc.interp.call(cls, [], dict(sample_rate=sr, fch1=Real('fch1'), ascending=True, t_start=t0, seed=Int('seed')))
        vc.interp.call(vc.interp.getattr(s, 'add_noise'), [0, 1], {})
        out = vc.run(lambda: vc.interp.call(vc.interp.getattr(s, 'get_samples'), [n], {}))
    vc.ensure('C10/request-length-fp/exc/none', out.ok)
    if out.ok:
        vc.ensure('C10/request-length-fp/post/exactly-n-samples', And(eq(out.value.shape[0], n), eq(s.fields['ts'].shape[0], n), eq(s.fields['rng'].pos, n)))


@contract('C10', 'returned_chunks_belong_to_the_caller', functions=[DS + '.get_samples', DS + '._update_t'])
def returned_chunks(vc):
    """Concatenating the chunks a caller collected equals one request only if a later request never writes into an array returned earlier (for a
    real-valued stream, equal or different request sizes): frame obligation on the returned array."""
    s, P = make_stream(vc, 'a', bool(vc.choose(2, 'ascending')), False)
    n1, n2 = Int('n1'), Int('n2')
    vc.assume(And(n1 >= 1, n2 >= 1))
    ga = vc.interp.getattr(s, 'get_samples')
    v1 = vc.interp.call(ga, [n1], {})
    w1 = v1.root().writes
    snap = SArr(v1.shape, v1._snapshot(), v1.dtype)
    v2 = vc.interp.call(ga, [n2], {})
    k = Int('k')
    vc.cover('reachable')
    vc.ensure('C10/get_samples/frame/an-earlier-returned-array-is-never-written-by-a-later-request',
              And(v1.root().writes == w1, v2.root() is not v1.root(), Implies(And(k >= 0, k < n1), eq(v1.at((k,)), snap.at((k,))))))
