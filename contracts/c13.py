"""C13 - the constant-signal helper injects the same signal as general injection."""
from .common import *
from . import c01 as C1

PROP_LEVEL['C13'] = 'proof'
PROP_TRUSTED['C13'] = [
    "add_signal is used through its contract (C01 pixel formula, C06 restriction: bounded result = unbounded result on the range, zero elsewhere)",
    "tailed profiles: 'within the FWHM' is covered because the box margin is 2*width >= width/2 on either side of every centre",
]
PROP_EXPLANATION['C13'] = "delegation contract of add_constant_signal (arguments passed to add_signal) + bounding box covers the support of the signal"

FR = FRAME
ACS = FR + '.add_constant_signal'
FUN = 'setigen.funcs'


def capture_add_signal(vc, cap):
    def spec(interp, clo, args, kwargs):
        cap['args'] = interp.bind_args(clo, args, kwargs)
        fr = cap['args']['self']
        return SArr(fr.fields['data'].shape, lambda idx: Real('RESULT'), 'real')
    vc.interp.call_specs[FR + '.add_signal'] = spec


@contract('C13', 'delegation_and_bounding_box', functions=[ACS, FR + '.get_index', FR + '.get_frequency'])
def delegation(vc):
    mode = vc.choose(2, 'clause-group')        # 0: delegation arguments for every profile type; 1: bounding box coverage
    ptype = ('sinc2', 'box', 'gaussian', 'lorentzian', 'voigt')[vc.choose(5, 'f_profile_type')] if mode == 0 else 'box'
    smear = bool(vc.choose(2, 'doppler_smearing'))
    dsign = vc.choose(3, 'drift-sign')          # negative, zero, positive
    f, p = frame_obj(vc, bool(vc.choose(2, 'ascending')) if mode == 1 else False)
    f0, drift, level, width = Real('f_start'), Real('drift_rate'), Real('level'), Real('width')
    vc.assume(width > 0)
    vc.assume([drift < 0, eq(drift, 0), drift > 0][dsign])
    cap = {}
    capture_add_signal(vc, cap)
    out = vc.call(ACS, f, f0, drift, level, width, f_profile_type=ptype, doppler_smearing=smear)
    loc = dict(vc.interp.last_locals)          # ghost access to the helper's final locals
    vc.cover('reachable')
    vc.ensure('C13/add_constant_signal/exc/none', out.ok)
    if not out.ok:
        return
    a = cap['args']
    T, n, df, dt, fmin = p['T'], p['n'], p['df'], p['dt'], p['fmin']
    t, fq, fc = Real('t_any'), Real('f_any'), Real('fc_any')
    ap = lambda fn, *x: vc.interp.call(fn, list(x), {})
    # --- delegation: the arguments of the general injection (property statement)
    vc.ensure('C13/delegation/pre@callsite/path-is-linear', eq(ap(a['path'], t), f0 + drift * t))
    vc.ensure('C13/delegation/pre@callsite/t_profile-is-constant-level', eq(ap(a['t_profile'], t), level))
    vc.ensure('C13/delegation/pre@callsite/bandpass-is-1', eq(ap(a['bp_profile'], fq), 1))
    ref_prof = {'sinc2': lambda: vc.interp.call_key(FUN + '.f_profiles:sinc2_f_profile', width),
                'box': lambda: vc.interp.call_key(FUN + '.f_profiles:box_f_profile', width),
                'gaussian': lambda: vc.interp.call_key(FUN + '.f_profiles:gaussian_f_profile', width),
                'lorentzian': lambda: vc.interp.call_key(FUN + '.f_profiles:lorentzian_f_profile', width),
                'voigt': lambda: vc.interp.call_key(FUN + '.f_profiles:voigt_f_profile', width, width)}[ptype]()
    garr = SArr((1,), lambda idx: fq, 'real')
    got, want = ap(a['f_profile'], garr, fc), ap(ref_prof, garr, fc)
    vc.ensure('C13/delegation/pre@callsite/f_profile-of-requested-type-and-width', eq(got.at((0,)), want.at((0,))))
    vc.ensure('C13/delegation/pre@callsite/smearing-flag', a['doppler_smearing'] is smear)
    udr = df / dt
    want_n = smax(1, ceil(abs(drift) / udr))
    vc.ensure('C13/delegation/pre@callsite/smearing_subsamples=max(1,ceil(|drift|/unit))', eq(a['smearing_subsamples'], want_n))
    vc.ensure('C13/delegation/pre@callsite/no-subsample-integration', And(a['integrate_path'] is False, a['integrate_t_profile'] is False, a['integrate_f_profile'] is False))
    if mode == 0:
        return
    # --- bounding box covers the support: rows 0..T-1 (0..T with smearing), any pixel within width/2 (compact support; FWHM of tailed)
    lo, hi = a['bounding_f_range']
    # prompting: get_index(get_frequency(k)) = k over the reals, so the range handed over is the integer box computed here
    vc.lemma('C13/bounding-box/lemma/index-of-frequency-of-index', And(eq((lo - fmin) / df, loc['bounding_min_index']), eq((hi - fmin) / df, loc['bounding_max_index'])))
    b0 = smax(round_half_even((lo - fmin) / df), 0)
    b1 = smin(round_half_even((hi - fmin) / df), n)
    vc.lemma('C13/bounding-box/lemma/range-is-the-integer-box', And(eq(b0, loc['bounding_min_index']), eq(b1, loc['bounding_max_index'])))
    i, j = Int('i'), Int('j')
    last = T if smear else T - 1
    # centre of row i in channel units; smearing evaluates centres anywhere between rows i and i+1 (s in [0,1])
    sfrac = Real('s_frac')
    tt = (i + sfrac) * dt
    centre = (f0 + drift * tt - fmin) / df
    inside = And(i >= 0, i + sfrac <= last, sfrac >= 0, sfrac < 1 if smear else eq(sfrac, 0), j >= 0, j < n)
    near = abs(j - centre) < width / df / 2
    # prompting lemmas for the nonlinear step: the centre stays between the start and stop positions
    a0 = (f0 - fmin) / df
    span = drift * dt * last / df
    vc.lemma('C13/bounding-box/lemma/centre-between-start-and-stop',
             Implies(inside, And(centre >= smin(a0, a0 + span), centre <= smax(a0, a0 + span))))
    vc.ensure('C13/bounding-box/post/covers-every-pixel-within-half-width-of-the-signal-centre', Implies(And(inside, near), And(j >= b0, j < b1)))
    vc.ensure('C13/add_constant_signal/post/returns-the-general-injection-result', out.value is not None)


@contract('C13', 'unsupported_profile', functions=[ACS])
def unsupported_profile(vc):
    f, p = frame_obj(vc, True)
    out = vc.call(ACS, f, Real('f_start'), Real('drift'), Real('level'), Real('width'), f_profile_type='triangle')
    vc.ensure('C13/add_constant_signal/exc/ValueError-iff-unknown-profile', And(not out.ok, out.exc == 'ValueError'))


@contract('C13', 'unit_drift_rate_is_positive_however_the_frame_was_built', functions=[FRAME + '.__init__'])
def unit_drift_rate_positive(vc):
    """The sub-step count max(1, ceil(|drift| / unit_drift_rate)) presupposes unit_drift_rate = df/dt > 0 with df the (positive) channel width:
    true for frames built from sizes with a resolution of either sign (descending bands are often described by a negative step) and for
    frames loaded from a file whose foff is negative."""
    from . import c03 as C3
    route = ('sizes-df-either-sign', 'loaded-foff-either-sign')[vc.choose(2, 'route')]
    cls = classref(vc, FRAME)
    n, T = Int('fchans'), Int('tchans')
    df, dt = Real('df_signed'), Real('dt')
    vc.assume(And(n >= 1, T >= 1, Not(eq(df, 0)), dt > 0))
    if route.startswith('sizes'):
        out = vc.run(lambda: vc.interp.call(cls, [], dict(fchans=n, tchans=T, df=df, dt=dt, fch1=Real('fch1'), ascending=bool(vc.choose(2, 'ascending')), seed=Int('seed'), t_start=Real('t0'))))
        want = abs(df) / dt
    else:
        w = C3.waterfall_record(vc, 'w', T, n, hdr={'nchans': n, 'fch1': Real('fch1_mhz'), 'foff': df, 'tsamp': dt, 'tstart': Real('mjd'), 'source_name': 'S'})
        w.fields['container'].fields['selection_shape'] = (T, 1, n)
        w.fields['data'] = symbolic_array('wd', (T, 1, n))
        out = vc.run(lambda: vc.interp.call(cls, [], dict(waterfall=w)))
        want = abs(df) * 10 ** 6 / dt
    vc.cover('reachable')
    vc.ensure(f'C13/Frame.__init__/{route}/exc/none', out.ok)
    if not out.ok:
        return
    F = out.value.fields
    vc.ensure(f'C13/Frame.__init__/{route}/post/unit_drift_rate=|df|/dt>0', And(eq(F['unit_drift_rate'], want), F['unit_drift_rate'] > 0, F['df'] > 0))
