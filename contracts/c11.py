"""C11 - synthetic noise has the requested distribution; SNR bookkeeping is consistent."""
from .common import *

PROP_LEVEL['C11'] = 'other'
PROP_TRUSTED['C11'] = [
    "that numpy's Generator.chisquare(k) has mean k and variance 2k and Generator.normal(m, s) has mean m and deviation s is a property of a "
    "third-party sampler and of probability: no contract over one call expresses it. It is an axiom here and is probed by a bounded 6-sigma run.",
    "astropy sigma_clip (the re-estimate branch) is trusted",
    "sqrt is an uninterpreted function with sqrt(x)^2 = x, sqrt(x) >= 0",
]
PROP_EXPLANATION['C11'] = ("deductive: degrees of freedom, recorded deviation = sqrt(variance of the scaled chi-squared), noise = scaled draws from the frame's "
                           "own generator, returned array = what was added, estimate bookkeeping, table sampling, intensity/SNR inverse, quadrature; "
                           "bounded: the distributions themselves")

FR = FRAME
DIST = 'setigen.distributions'
DS = 'setigen.voltage.data_stream:DataStream'


@contract('C11', 'add_noise', functions=[FR + '.add_noise', DIST + ':chi2', DIST + ':gaussian', DIST + ':truncated_gaussian', FR + '._update_noise_frame_stats'])
def add_noise(vc):
    kind = ('chi2', 'gaussian', 'normal', 'truncated', 'missing-std', 'bad-type')[vc.choose(6, 'noise_type')]
    empty = bool(vc.choose(2, 'empty-frame'))
    f, p = frame_obj(vc, bool(vc.choose(2, 'ascending')))
    F = f.fields
    if empty:
        F['noise_mean'], F['noise_std'] = 0, 0
    else:
        vc.assume(Not(And(eq(F['noise_mean'], 0), eq(F['noise_std'], 0))))
    d0 = SArr(p['data'].shape, p['data']._snapshot(), 'real')
    rng = F['rng']
    pos0 = rng.pos
    xm, xs, xmin = Real('x_mean'), Real('x_std'), Real('x_min')
    vc.assume(xs >= 0)
    kw = {'chi2': dict(noise_type='chi2'), 'gaussian': dict(x_std=xs, noise_type='gaussian'), 'normal': dict(x_std=xs, noise_type='normal'),
          'truncated': dict(x_std=xs, x_min=xmin, noise_type='gaussian'), 'missing-std': dict(noise_type='gaussian'), 'bad-type': dict(noise_type='poisson')}[kind]
    old_mean, old_std = F['noise_mean'], F['noise_std']
    out = vc.call(FR + '.add_noise', f, xm, **kw)
    vc.cover('reachable')
    if kind in ('missing-std', 'bad-type'):
        vc.ensure(f'C11/add_noise/{kind}/exc/ValueError', And(not out.ok, out.exc == 'ValueError'))
        vc.ensure(f'C11/add_noise/{kind}/frame-untouched', F['data'].writes == 0)
        return
    vc.ensure(f'C11/add_noise/{kind}/exc/none', out.ok)
    if not out.ok:
        return
    noise = out.value
    i, j = Int('i'), Int('j')
    inr = And(i >= 0, i < p['T'], j >= 0, j < p['n'])
    T, n = p['T'], p['n']
    vc.ensure(f'C11/add_noise/{kind}/post/returned-array-is-exactly-what-was-added', And(eq(noise.shape[0], T), eq(noise.shape[1], n),
                                                                                       Implies(inr, eq(F['data'].at((i, j)), d0.at((i, j)) + noise.at((i, j))))))
    flat = i * n + j
    d = L._draw(rng, pos0 + flat)
    k = F['chi2_df']
    if kind == 'chi2':
        CHI = z3.Function('chisq', z3.RealSort(), z3.RealSort(), z3.RealSort())
        want = Sym(CHI(Sym.lift(k).as_real(), d.t), 'real') * xm / k
        vc.ensure('C11/add_noise/chi2/post/noise=chisquare(k)*x_mean/k-from-the-frame-generator', Implies(inr, eq(noise.at((i, j)), want)))
        # Var(X*x_mean/k) = (x_mean/k)^2 * 2k = 2*x_mean^2/k; the recorded deviation squared equals it
        std_rec = sqrt(2 * k) * xm / k
        vc.assume(k >= 1)
        vc.ensure('C11/add_noise/chi2/lemma/recorded-deviation-squared=2*x_mean^2/k', eq(std_rec * std_rec, 2 * xm * xm / k))
        want_std = std_rec
    else:
        g = xm + xs * d
        want = smax(g, xmin) if kind == 'truncated' else g
        vc.ensure(f'C11/add_noise/{kind}/post/noise=x_mean+x_std*standard-normal-from-the-frame-generator', Implies(inr, eq(noise.at((i, j)), want)))
        if kind == 'truncated':
            vc.ensure('C11/add_noise/truncated/post/never-below-the-floor', Implies(inr, noise.at((i, j)) >= xmin))
        want_std = xs
    vc.ensure(f'C11/add_noise/{kind}/post/generator-advanced-by-one-draw-per-pixel', eq(rng.pos, pos0 + T * n))
    if empty:
        vc.ensure(f'C11/add_noise/{kind}/post/first-noise-on-an-empty-frame-sets-estimates-to-the-parameters', And(eq(F['noise_mean'], xm), eq(F['noise_std'], want_std)))
    else:
        calls = getattr(vc.interp, 'sigma_clip_calls', [])
        vc.ensure(f'C11/add_noise/{kind}/post/otherwise-sigma-clipped-re-estimate-of-the-data', len(calls) == 1 and calls[0][0] is F['data'])


@contract('C11', 'add_noise_from_obs', functions=[FR + '.add_noise_from_obs', 'setigen.sample_from_obs:sample_gaussian_params', DIST + ':chi2', DIST + ':truncated_gaussian'])
def add_noise_from_obs(vc):
    kind = ('chi2', 'gaussian', 'truncated')[vc.choose(3, 'noise_type')]
    share = bool(vc.choose(2, 'share_index'))
    f, p = frame_obj(vc, True)
    F = f.fields
    F['noise_mean'], F['noise_std'] = 0, 0
    nm, ns, nn = Int('len_mean'), Int('len_std'), Int('len_min')
    vc.assume(And(nm >= 1, ns >= 1, nn >= 1))
    Mt, St, Nt = symbolic_array('means', (nm,)), symbolic_array('stds', (ns,)), symbolic_array('mins', (nn,))
    d0 = SArr(p['data'].shape, p['data']._snapshot(), 'real')
    F['rng'].pos0 = F['rng'].pos
    kw = dict(x_mean_array=Mt, share_index=share, noise_type='chi2' if kind == 'chi2' else 'gaussian')
    if kind != 'chi2':
        kw['x_std_array'] = St
    if kind == 'truncated':
        kw['x_min_array'] = Nt
    out = vc.call(FR + '.add_noise_from_obs', f, **kw)
    vc.cover('reachable')
    equal_len = And(eq(nm, ns), eq(nm, nn)) if kind == 'truncated' else eq(nm, ns)
    if not out.ok:
        vc.ensure('C11/add_noise_from_obs/exc/IndexError-iff-index-sharing-with-unequal-lengths', And(out.exc == 'IndexError', share, kind != 'chi2', Not(equal_len)))
        return
    if share and kind != 'chi2':
        vc.ensure('C11/add_noise_from_obs/post/index-sharing-requires-equal-lengths', equal_len)
    i, j = Int('i'), Int('j')
    inr = And(i >= 0, i < p['T'], j >= 0, j < p['n'])
    vc.ensure('C11/add_noise_from_obs/post/returned-array-is-exactly-what-was-added', Implies(inr, eq(F['data'].at((i, j)), d0.at((i, j)) + out.value.at((i, j)))))
    a, b = Int('a'), Int('b')
    xm = F['noise_mean']
    # the parameters used are entries of the supplied tables
    vc.ensure('C11/add_noise_from_obs/post/mean-is-a-table-entry', ExistsIn(vc, xm, [Mt] if (kind == 'chi2' or share) else [Mt, St]))
    if kind != 'chi2':
        vc.ensure('C11/add_noise_from_obs/post/std-is-a-table-entry', ExistsIn(vc, F['noise_std'], [St]))
        if share:
            idx = getattr(F['rng'], 'last_choice_index', None)
            loc = vc.interp.last_locals
            ii = loc.get('i')
            vc.ensure('C11/add_noise_from_obs/post/one-common-index', And(ii is not None, eq(xm, Mt.at((ii,))), eq(F['noise_std'], St.at((ii,))),
                                                                            eq(loc['x_min'], Nt.at((ii,))) if kind == 'truncated' else True))


def ExistsIn(vc, value, tables):
    """value == table[w] for an in-range witness w: the witnesses are the generator's own index draws on this path."""
    F = None
    cands = []
    for t in tables:
        n = t.shape[0]
        # indices drawn by rng.choice / rng.integers appear as drawi(stream, pos): try every draw position used so far
        rng = vc.interp.last_locals.get('self').fields['rng'] if vc.interp.last_locals.get('self') is not None else None
        if rng is None:
            continue
        for posn in range(0, 4):
            w = L._drawi(rng, rng.pos0 + posn)
            cands.append(And(w >= 0, w < n, eq(value, t.at((w,)))))
    return Or(*cands) if cands else False


@contract('C11', 'estimates_and_snr', functions=[FR + '.zero_data', FR + '.get_intensity', FR + '.get_snr', FR + '.get_noise_stats'])
def estimates(vc):
    f, p = frame_obj(vc, True)
    F = f.fields
    snr = Real('snr')
    zero = bool(vc.choose(2, 'noise_std=0'))
    if zero:
        F['noise_std'] = 0
    else:
        vc.assume(F['noise_std'] > 0)
    a = vc.call(FR + '.get_intensity', f, snr)
    if zero:
        vc.ensure('C11/get_intensity/exc/ValueError-iff-no-noise', And(not a.ok, a.exc == 'ValueError'))
        b = vc.call(FR + '.get_snr', f, Real('intensity'))
        vc.ensure('C11/get_snr/exc/ValueError-iff-no-noise', And(not b.ok, b.exc == 'ValueError'))
    else:
        vc.ensure('C11/get_intensity/post/snr*noise_std/sqrt(tchans)', And(a.ok, eq(a.value, snr * F['noise_std'] / sqrt(p['T']))))
        b = vc.call(FR + '.get_snr', f, a.value)
        vc.ensure('C11/get_snr/post/inverse-of-get_intensity', And(b.ok, eq(b.value, snr)))
        inten = Real('intensity')
        c = vc.call(FR + '.get_snr', f, inten)
        d = vc.call(FR + '.get_intensity', f, c.value)
        vc.ensure('C11/get_intensity/post/inverse-of-get_snr', And(c.ok, d.ok, eq(d.value, inten)))
    st = vc.call(FR + '.get_noise_stats', f)
    vc.ensure('C11/get_noise_stats/post', And(st.ok, st.value[0] is F['noise_mean'], st.value[1] is F['noise_std']))
    z = vc.call(FR + '.zero_data', f)
    i, j = Int('i'), Int('j')
    vc.ensure('C11/zero_data/post/data-and-both-estimates-reset', And(z.ok, eq(F['noise_mean'], 0), eq(F['noise_std'], 0),
                                                                      Implies(And(i >= 0, i < p['T'], j >= 0, j < p['n']), eq(F['data'].at((i, j)), 0))))


@contract('C11', 'stream_noise_quadrature', functions=[DS + '.add_noise', DS + '.get_total_noise_std', 'setigen.voltage.data_stream:BackgroundDataStream.add_noise',
                                                       'setigen.voltage.data_stream:BackgroundDataStream._set_all_bg_noise'])
def quadrature(vc):
    cls = classref(vc, DS)
    bcls = classref(vc, 'setigen.voltage.data_stream:BackgroundDataStream')
    s = vc.interp.call(cls, [], dict(sample_rate=Real('sr'), fch1=0, ascending=True, t_start=0, seed=Int('seed')))
    s2 = vc.interp.call(cls, [], dict(sample_rate=Real('sr'), fch1=0, ascending=True, t_start=0, seed=Int('seed2')))
    a, b, c = Real('std_a'), Real('std_b'), Real('std_bg')
    vc.assume(And(a >= 0, b >= 0, c >= 0))
    vc.interp.call(vc.interp.getattr(s, 'add_noise'), [Real('m1'), a], {})
    n1 = s.fields['noise_std']
    vc.ensure('C11/DataStream.add_noise/post/first', eq(n1 * n1, a * a))
    vc.interp.call(vc.interp.getattr(s, 'add_noise'), [Real('m2'), b], {})
    n2 = s.fields['noise_std']
    vc.ensure('C11/DataStream.add_noise/post/deviations-add-in-quadrature', And(n2 >= 0, eq(n2 * n2, a * a + b * b)))
    vc.ensure('C11/DataStream.add_noise/post/two-noise-sources-registered', len(s.fields['noise_sources']) == 2)
    bg = vc.interp.call(bcls, [], dict(sample_rate=Real('sr'), fch1=0, ascending=True, t_start=0, seed=Int('seed3'), antenna_streams=[s, s2]))
    vc.interp.call(vc.interp.getattr(bg, 'add_noise'), [0, c], {})
    vc.ensure('C11/BackgroundDataStream.add_noise/post/propagated-to-every-antenna-stream', And(eq(s.fields['bg_noise_std'] * s.fields['bg_noise_std'], c * c),
                                                                                               eq(s2.fields['bg_noise_std'] * s2.fields['bg_noise_std'], c * c)))
    tot = vc.interp.call(vc.interp.getattr(s, 'get_total_noise_std'), [], {})
    vc.ensure('C11/get_total_noise_std/post/own-and-background-in-quadrature', And(tot >= 0, eq(tot * tot, a * a + b * b + c * c)))
    # a second background addition: the shared background deviation itself adds in quadrature and is what every antenna stream sees
    c2 = Real('std_bg2')
    vc.assume(c2 >= 0)
    vc.interp.call(vc.interp.getattr(bg, 'add_noise'), [0, c2], {})
    bgn = bg.fields['noise_std']
    vc.ensure('C11/BackgroundDataStream.add_noise/post/second-addition-in-quadrature-and-propagated-as-is',
              And(bgn >= 0, eq(bgn * bgn, c * c + c2 * c2), eq(s.fields['bg_noise_std'], bgn), eq(s2.fields['bg_noise_std'], bgn)))
    tot2 = vc.interp.call(vc.interp.getattr(s, 'get_total_noise_std'), [], {})
    vc.ensure('C11/get_total_noise_std/post/own-and-accumulated-background-in-quadrature', And(tot2 >= 0, eq(tot2 * tot2, a * a + b * b + c * c + c2 * c2)))
    # _set_all_bg_noise from an arbitrary state: every antenna stream's background deviation becomes this stream's deviation
    bg.fields['noise_std'] = Real('any_bg_std')
    s.fields['bg_noise_std'], s2.fields['bg_noise_std'] = Real('stale1'), Real('stale2')
    r = vc.call('setigen.voltage.data_stream:BackgroundDataStream._set_all_bg_noise', bg)
    vc.ensure('C11/_set_all_bg_noise/post/every-antenna-stream-sees-exactly-the-background-deviation',
              And(r.ok, eq(s.fields['bg_noise_std'], Real('any_bg_std')), eq(s2.fields['bg_noise_std'], Real('any_bg_std'))))


# "k = 4*round(df*dt)" is a clause of this property: the degrees of freedom every chi-squared draw uses are fixed by the constructor.
# C05's constructor contract (all three construction routes, both orientations, plain and unit-carrying arguments) - discharged again here.
from . import c05 as _C5
contract('C11', 'degrees_of_freedom_set_by_the_constructor', functions=[FR + '.__init__'])(_C5.frame_init)


@contract('C11', 'preloaded_frames_start_with_a_sigma_clipped_estimate', functions=[FR + '.__init__', FR + '._update_noise_frame_stats'])
def preloaded_estimate(vc):
    """A frame constructed around existing data is not "empty": its noise estimates are the sigma-clipped mean / deviation of that data (so the
    first add_noise on it re-estimates instead of writing the requested parameters)."""
    route = 'data'
    n, T = Int('fchans'), Int('tchans')
    df, dt, fch1 = Real('df'), Real('dt'), Real('fch1')
    vc.assume(And(n >= 1, T >= 1, df > 0, dt > 0, fch1 > 0))
    kw = dict(df=df, dt=dt, fch1=fch1, ascending=True, seed=Int('seed'), t_start=Real('t0'))
    D = symbolic_array('D', (T, n))
    if route == 'data':
        kw.update(data=D)
    else:
        kw.update(fchans=n, tchans=T)
    out = vc.run(lambda: vc.interp.call(classref(vc, FR), [], kw))
    vc.cover('reachable')
    vc.ensure(f'C11/Frame.__init__/{route}/exc/none', out.ok)
    if not out.ok:
        return
    F = out.value.fields
    clipped = L.sigma_clip(vc.interp, F['data'], sigma=3, maxiters=5, masked=False)
    want_m = L.LIB['numpy.mean'](vc.interp, clipped)
    want_s = L.LIB['numpy.std'](vc.interp, clipped)
    vc.ensure('C11/Frame.__init__/data/post/estimates-are-the-sigma-clipped-statistics-of-the-preloaded-data', And(eq(F['noise_mean'], want_m), eq(F['noise_std'], want_s)))
