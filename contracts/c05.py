"""C05 - frame axes and frequency/index conversion."""
from fractions import Fraction
from .common import *

PROP_LEVEL['C05'] = 'proof'
PROP_TRUSTED['C05'] = [
    "np.linspace(a,b,n,endpoint=False)[i] = a + i*((b-a)/n) (numpy's formula), np.round = half-even",
    "astropy sigma_clip / Time conversions are trusted library specs (not part of the axis clauses)",
    "'identical axes' of opposite-orientation frames is proved over the reals; in floats they agree to rounding (bounded probe reports the deviation)",
    "fp-relerr round trip requires fmin/df <= 2^40 and fchans <= 2^26 (the property's 'realistic ratios')",
]
PROP_EXPLANATION['C05'] = "frame invariant FI established by every construction route, conversions and derived quantities, round trip in fp-relerr"

FR = 'setigen.frame:Frame'


def new_frame(vc, route, asc, quantities=False, prefix=''):
    """Construct a Frame through the real __init__.  Returns (outcome, params)."""
    fch, tch = Int(prefix + 'fchans'), Int(prefix + 'tchans')
    df, dt, fch1 = Real(prefix + 'df'), Real(prefix + 'dt'), Real(prefix + 'fch1')
    vc.assume(And(fch >= 1, tch >= 1, df > 0, dt > 0, fch1 > 0))
    cls = classref(vc, FR)
    kw = dict(df=df, dt=dt, fch1=fch1, ascending=asc, t_start=Real(prefix + 't_start'))
    if quantities:
        kw['df'] = L.Quantity(df / 1000, L.Unit(('kHz',)))
        kw['fch1'] = L.Quantity(fch1 / 10 ** 6, L.Unit(('MHz',)))
        kw['dt'] = L.Quantity(dt * 1000, L.Unit(('ms',)))
    if route == 'sizes':
        kw.update(fchans=fch, tchans=tch)
    elif route == 'shape':
        kw.update(shape=(tch, fch))
    else:
        kw.update(data=symbolic_array(prefix + 'D', (tch, fch)))
    out = vc.run(lambda: vc.interp.call(cls, [], kw))
    return out, dict(fchans=fch, tchans=tch, df=df, dt=dt, fch1=fch1, asc=asc, data_arg=kw.get('data'))


def frame_invariant(vc, f, p, tag, chi2=None):
    """FI clauses (from the property text) at fresh symbolic indices."""
    F = f.fields
    n, T, df, dt = p['fchans'], p['tchans'], p['df'], p['dt']
    j, i = Int('j'), Int('i')
    jr = And(j >= 0, j < n)
    ir = And(i >= 0, i < T)
    fs, ts = F['fs'], F['ts']
    vc.ensure(f'C05/{tag}/FI/shape', And(eq(F['fchans'], n), eq(F['tchans'], T), eq(F['shape'][0], T), eq(F['shape'][1], n),
                                         eq(F['data'].shape[0], T), eq(F['data'].shape[1], n)))
    vc.ensure(f'C05/{tag}/FI/resolutions', And(eq(F['df'], df), eq(F['dt'], dt)))
    vc.ensure(f'C05/{tag}/FI/fs-length', And(fs.ndim == 1, eq(fs.shape[0], n)))
    vc.ensure(f'C05/{tag}/FI/ts-length', And(ts.ndim == 1, eq(ts.shape[0], T)))
    fmin_spec = p['fch1'] if p['asc'] else p['fch1'] - (n - 1) * df
    vc.ensure(f'C05/{tag}/FI/fmin', eq(F['fmin'], fmin_spec))
    vc.ensure(f'C05/{tag}/FI/fmax', eq(F['fmax'], fmin_spec + (n - 1) * df))
    vc.ensure(f'C05/{tag}/FI/fch1-is-fmax-desc-fmin-asc', eq(F['fch1'], F['fmin'] if p['asc'] else F['fmax']))
    vc.ensure(f'C05/{tag}/FI/fs[j]=fmin+j*df', Implies(jr, eq(fs.at((j,)), fmin_spec + j * df)))
    vc.ensure(f'C05/{tag}/FI/fs-strictly-increasing', Implies(And(jr, j + 1 < n), fs.at((j,)) < fs.at((j + 1,))))
    vc.ensure(f'C05/{tag}/FI/ts[i]=i*dt', Implies(ir, eq(ts.at((i,)), i * dt)))
    vc.ensure(f'C05/{tag}/FI/unit_drift_rate', eq(F['unit_drift_rate'], df / dt))
    vc.ensure(f'C05/{tag}/FI/chi2_df', eq(F['chi2_df'], 4 * round_half_even(df * dt) if chi2 is None else chi2))
    vc.ensure(f'C05/{tag}/FI/ascending-flag', F['ascending'] == p['asc'])


@contract('C05', 'frame_init_routes', functions=[FR + '.__init__', FR + '._update_fs', FR + '._update_ts', 'setigen.unit_utils:get_value'])
def frame_init(vc):
    route = ('sizes', 'shape', 'data')[vc.choose(3, 'route')]
    asc = bool(vc.choose(2, 'ascending'))
    quant = bool(vc.choose(2, 'quantities'))
    out, p = new_frame(vc, route, asc, quant)
    vc.cover('reachable')
    vc.ensure(f'C05/Frame.__init__/{route}/exc/none', out.ok)
    if not out.ok:
        return
    frame_invariant(vc, out.value, p, f'Frame.__init__/{route}')
    if route == 'data':
        a, b = Int('a'), Int('b')
        vc.ensure('C05/Frame.__init__/data/post/data-copied-not-aliased', out.value.fields['data'].root() is not p['data_arg'].root() and out.value.fields['data'].base is None)


@contract('C05', 'derived_quantities', functions=[FR + '.fmid', FR + '.t_stop', FR + '.obs_length', FR + '.ts_ext', FR + '.get_drift_rate', FR + '.get_frequency'])
def derived(vc):
    asc = bool(vc.choose(2, 'ascending'))
    out, p = new_frame(vc, 'sizes', asc)
    if not out.ok:
        vc.ensure('C05/derived/exc/none', False)
        return
    f = out.value
    F = f.fields
    n, T, df, dt = p['fchans'], p['tchans'], p['df'], p['dt']
    g = lambda name: vc.run(lambda: vc.interp.getattr(f, name))
    vc.ensure('C05/fmid/post', okv(g('fmid'), lambda v: eq(v, (F['fmin'] + F['fmax']) / 2)))
    vc.ensure('C05/t_stop/post', okv(g('t_stop'), lambda v: eq(v, F['t_start'] + T * dt)))
    # derived quantities are functions of the frame's *current* state: re-timing the frame (as Cadence.overwrite_times does) moves t_stop with it
    t_new = Real('t_start_after_retiming')
    vc.interp.setattr(f, 't_start', t_new)
    vc.ensure('C05/t_stop/post/follows-a-re-timed-start', okv(g('t_stop'), lambda v: eq(v, t_new + T * dt)))
    vc.ensure('C05/obs_length/post', okv(g('obs_length'), lambda v: eq(v, T * dt)))
    te = g('ts_ext')
    vc.ensure('C05/ts_ext/exc/none', te.ok)
    i = Int('i')
    vc.ensure('C05/ts_ext/post/length', okv(te, lambda v: eq(v.shape[0], T + 1)))
    vc.ensure('C05/ts_ext/post/values', okv(te, lambda v: Implies(And(i >= 0, i <= T), eq(v.at((i,)), i * dt))))
    a, b = Int('a'), Int('b')
    dr = vc.call(FR + '.get_drift_rate', f, a, b)
    vc.ensure('C05/get_drift_rate/post', okv(dr, lambda v: eq(v, (b - a) * df / (T * dt))))
    fq = vc.call(FR + '.get_frequency', f, a)
    vc.ensure('C05/get_frequency/post', eq(fq.value, F['fmin'] + a * df))


def frame_record(vc, prefix='', asc=None):
    """A complete frame satisfying FI (precondition of the conversion methods)."""
    if asc is None:
        asc = bool(vc.choose(2, 'ascending'))
    f, p = frame_obj(vc, asc, prefix)
    return f, dict(n=p['n'], T=p['T'], df=p['df'], dt=p['dt'], fmin=p['fmin'])


@contract('C05', 'get_index_nearest', functions=[FR + '.get_index'])
def get_index_nearest(vc):
    f, p = frame_record(vc)
    x = Real('frequency')
    out = vc.call(FR + '.get_index', f, x)
    vc.ensure('C05/get_index/exc/none', out.ok)
    k = out.value
    vc.ensure('C05/get_index/post/integer', I.type_tag(k) == 'int')
    # nearest channel of the (unclipped) grid: |x - (fmin + k*df)| <= df/2
    d = x - (p['fmin'] + k * p['df'])
    vc.ensure('C05/get_index/post/nearest', And(d <= p['df'] / 2, -d <= p['df'] / 2))
    vc.ensure('C05/get_index/post/formula', eq(k, round_half_even((x - p['fmin']) / p['df'])))


@contract('C05', 'index_roundtrip_fp', functions=[FR + '.get_index', FR + '.get_frequency'], mode='fp-relerr')
def roundtrip(vc):
    f, p = frame_record(vc)
    i = Int('i')
    vc.assume(And(i >= 0, i < p['n'], p['n'] <= 2 ** 26, p['fmin'] <= p['df'] * 2 ** 40))
    with fp(vc):
        fq = vc.call(FR + '.get_frequency', f, i)
        out = vc.call(FR + '.get_index', f, fq.value)
    vc.ensure('C05/roundtrip/exc/none', And(fq.ok, out.ok))
    vc.ensure('C05/roundtrip/post/get_index(get_frequency(i))=i', eq(out.value, i))


@contract('C05', 'orientation_independence', functions=[FR + '.__init__', FR + '._update_fs', FR + '._update_ts'])
def orientation(vc):
    n, T = Int('fchans'), Int('tchans')
    df, dt, fmin = Real('df'), Real('dt'), Real('fmin')
    vc.assume(And(n >= 1, T >= 1, df > 0, dt > 0, fmin > 0))
    cls = classref(vc, FR)
    a = vc.run(lambda: vc.interp.call(cls, [], dict(fchans=n, tchans=T, df=df, dt=dt, fch1=fmin, ascending=True, t_start=0)))
    d = vc.run(lambda: vc.interp.call(cls, [], dict(fchans=n, tchans=T, df=df, dt=dt, fch1=fmin + (n - 1) * df, ascending=False, t_start=0)))
    vc.ensure('C05/orientation/exc/none', And(a.ok, d.ok))
    A_, D_ = a.value.fields, d.value.fields
    j, i = Int('j'), Int('i')
    vc.ensure('C05/orientation/post/same-fs', Implies(And(j >= 0, j < n), eq(A_['fs'].at((j,)), D_['fs'].at((j,)))))
    vc.ensure('C05/orientation/post/same-ts', Implies(And(i >= 0, i < T), eq(A_['ts'].at((i,)), D_['ts'].at((i,)))))
    vc.ensure('C05/orientation/post/same-fmin-fmax', And(eq(A_['fmin'], D_['fmin']), eq(A_['fmax'], D_['fmax'])))
    vc.ensure('C05/orientation/post/same-shape', And(eq(A_['fchans'], D_['fchans']), eq(A_['tchans'], D_['tchans'])))


@contract('C05', 'from_backend_params', functions=[FR + '.from_backend_params', 'setigen.frame:params_from_backend'])
def from_backend_params(vc):
    asc = bool(vc.choose(2, 'ascending'))
    n, nb, fl, k = Int('fchans'), Int('num_branches'), Int('fftlength'), Int('int_factor')
    obs, sr, fch1 = Real('obs_length'), Real('sample_rate'), Real('fch1')
    vc.assume(And(n >= 1, nb >= 2, fl >= 1, k >= 1, sr > 0, fch1 > 0))
    dfs = sr / nb / fl
    dts = k / dfs
    vc.assume(obs >= dts)        # at least one integration
    cls = classref(vc, FR)
    out = vc.run(lambda: vc.interp.call(vc.interp.getattr(cls, 'from_backend_params'), [],
                                        dict(fchans=n, obs_length=obs, sample_rate=sr, num_branches=nb, fftlength=fl, int_factor=k, fch1=fch1, ascending=asc)))
    vc.ensure('C05/from_backend_params/exc/none', out.ok)
    if not out.ok:
        return
    T = out.value.fields['tchans']
    vc.ensure('C05/from_backend_params/post/tchans', And(T * dts <= obs, obs < (T + 1) * dts))
    frame_invariant(vc, out.value, dict(fchans=n, tchans=T, df=dfs, dt=dts, fch1=fch1, asc=asc), 'from_backend_params',
                    chi2=4 * k)   # df*dt = int_factor exactly


@contract('C05', 'from_data', functions=[FR + '.from_data', FR + '.add_metadata'])
def from_data(vc):
    asc = bool(vc.choose(2, 'ascending'))
    n, T = Int('fchans'), Int('tchans')
    df, dt, fch1 = Real('df'), Real('dt'), Real('fch1')
    vc.assume(And(n >= 1, T >= 1, df > 0, dt > 0, fch1 > 0))
    data = symbolic_array('D', (T, n))
    cls = classref(vc, FR)
    out = vc.run(lambda: vc.interp.call(vc.interp.getattr(cls, 'from_data'), [df, dt, fch1, asc, data], {}))
    vc.ensure('C05/from_data/exc/none', out.ok)
    if not out.ok:
        return
    frame_invariant(vc, out.value, dict(fchans=n, tchans=T, df=df, dt=dt, fch1=fch1, asc=asc), 'from_data')
    i, j = Int('i'), Int('j')
    vc.ensure('C05/from_data/post/data-equal', Implies(And(i >= 0, i < T, j >= 0, j < n), eq(out.value.fields['data'].at((i, j)), data.at((i, j)))))
    vc.ensure('C05/from_data/post/data-is-a-copy', out.value.fields['data'].root() is not data.root())


@contract('C05', 'axis_lengths_fp', functions=[FR + '._update_ts', FR + '._update_fs', FR + '.ts_ext'], mode='fp-relerr')
def axis_lengths_fp(vc):
    """The axes have exactly tchans / fchans (/ tchans+1) entries in floating point too (fp-relerr model)."""
    asc = bool(vc.choose(2, 'ascending'))
    f, p = frame_obj(vc, asc)
    vc.assume(And(p['T'] <= 2 ** 30, p['n'] <= 2 ** 30))
    with fp(vc):
        o1 = vc.call(FR + '._update_ts', f)
        o2 = vc.call(FR + '._update_fs', f)
        te = vc.run(lambda: vc.interp.getattr(f, 'ts_ext'))
    vc.ensure('C05/axes-fp/exc/none', And(o1.ok, o2.ok, te.ok))
    if not (o1.ok and o2.ok and te.ok):
        return
    vc.ensure('C05/axes-fp/post/ts-has-tchans-entries', And(f.fields['ts'].ndim == 1, eq(f.fields['ts'].shape[0], p['T'])))
    vc.ensure('C05/axes-fp/post/fs-has-fchans-entries', And(f.fields['fs'].ndim == 1, eq(f.fields['fs'].shape[0], p['n'])))
    vc.ensure('C05/axes-fp/post/ts_ext-has-tchans+1-entries', okv(te, lambda v: eq(v.shape[0], p['T'] + 1)))
