"""C01 - injected signal equals the pointwise product of its four components (and C06/C13/C16 share the spec)."""
from .common import *

PROP_LEVEL['C01'] = 'proof'
PROP_TRUSTED['C01'] = [
    "user callables are uninterpreted functions applied pointwise (TP, PATH: R->R; FP: RxR->R; BP: R->R)",
    "floats as reals; np.linspace/meshgrid/diff/reshape/mean axioms; sub-sample grids compared over the reals",
    "profile factories: exp/sinc/wofz uninterpreted with the axioms listed in the contract",
]
PROP_EXPLANATION['C01'] = "every pixel of Frame.add_signal's result equals the product / averaged product formula, for every input form and flag combination"

FR = FRAME
ADD = FR + '.add_signal'

TP = lambda: I.SFunc('TP')
PATH = lambda: I.SFunc('PATH')
FP = lambda: I.SFunc('FP', 2)
BP = lambda: I.SFunc('BP')


def bounding(vc, p, use):
    """Property: the requested interval in channel indices, intersected with the band."""
    n = p['n']
    if not use:
        return None, 0, n
    lo, hi = Real('bound_lo'), Real('bound_hi')
    ilo = round_half_even((lo - p['fmin']) / p['df'])
    ihi = round_half_even((hi - p['fmin']) / p['df'])
    b0, b1 = smax(ilo, 0), smin(ihi, n)
    return (lo, hi), b0, b1


def make_inputs(vc, p, path_form, t_form, bp_form, smear=False):
    T, n = p['T'], p['n']
    S = {}
    if path_form == 'callable':
        f = PATH()
        S['path'] = lambda t, i: f.apply_scalar(t)
        path = f
    elif path_form == 'array':
        L_ = T + 1 if smear else T
        a = symbolic_array('path_arr', (L_,))
        S['path'] = lambda t, i: a.at((i,))
        path = a
    else:
        c = Real('path_const')
        S['path'] = lambda t, i: c
        path = c
    if t_form == 'callable':
        f2 = TP()
        S['tp'] = lambda t, i: f2.apply_scalar(t)
        tp = f2
    elif t_form == 'array':
        a2 = symbolic_array('tp_arr', (T,))
        S['tp'] = lambda t, i: a2.at((i,))
        tp = a2
    else:
        c2 = Real('tp_const')
        S['tp'] = lambda t, i: c2
        tp = c2
    return path, tp, S


def bp_input(vc, p, bp_form, b0, b1):
    if bp_form == 'none':
        return None, (lambda f, j: 1)
    if bp_form == 'callable':
        g = BP()
        return g, (lambda f, j: g.apply_scalar(f))
    if bp_form == 'array':
        a = symbolic_array('bp_arr', (smax(b1 - b0, 0),))
        return a, (lambda f, j: a.at((j - b0,)))
    c = Real('bp_const')
    return c, (lambda f, j: c)


@contract('C01', 'plain_forms', functions=[ADD, FR + '.get_index'])
def plain_forms(vc):
    """No sub-sample integration, no smearing: every combination of input forms, bounded or not."""
    path_form = ('callable', 'array', 'scalar')[vc.choose(3, 'path')]
    t_form = ('callable', 'array', 'scalar')[vc.choose(3, 't_profile')]
    bp_form = ('none', 'callable', 'array', 'scalar')[vc.choose(4, 'bp')]
    use_b = bool(vc.choose(2, 'bounding'))
    f, p = frame_obj(vc, True)
    rng_bounds, b0, b1 = bounding(vc, p, use_b)
    vc.assume(b0 < b1)                          # non-empty intersection with the band (empty ranges: see C06)
    path, tp, S = make_inputs(vc, p, path_form, t_form, bp_form)
    bp, bpf = bp_input(vc, p, bp_form, b0, b1)
    fp = FP()
    data0 = p['data']
    d0 = SArr(data0.shape, data0._snapshot(), 'real')
    vc.probe_indices = [Int('i'), Int('i') + 1]
    out = vc.call(ADD, f, path, tp, fp, bp_profile=bp, bounding_f_range=rng_bounds)
    vc.cover('reachable')
    vc.ensure('C01/add_signal/plain/exc/none', out.ok)
    if not out.ok:
        return
    sig = out.value
    i, j = Int('i'), Int('j')
    inr = And(i >= 0, i < p['T'], j >= 0, j < p['n'])
    t_i = p['ts'].at((i,))
    f_j = p['fs'].at((j,))
    want = S['tp'](t_i, i) * fp.apply_scalar(f_j, S['path'](t_i, i)) * bpf(f_j, j)
    inside = And(j >= b0, j < b1)
    vc.ensure('C01/add_signal/plain/post/shape', And(sig.ndim == 2, eq(sig.shape[0], p['T']), eq(sig.shape[1], p['n'])))
    vc.ensure('C01/add_signal/plain/post/pixel=t_profile*f_profile*bandpass', Implies(And(inr, inside), eq(sig.at((i, j)), want)))
    vc.ensure('C01/add_signal/plain/post/zero-outside-bounding-range', Implies(And(inr, Not(inside)), eq(sig.at((i, j)), 0)))
    vc.ensure('C06/add_signal/plain/post/data-changed-by-exactly-the-returned-signal', Implies(inr, eq(f.fields['data'].at((i, j)), d0.at((i, j)) + sig.at((i, j)))))


def grids(vc, p, flags, nt, nf, b0, b1):
    """The sub-sample grids, built with numpy's own linspace formula (so that arguments of the user callables are
    syntactically the terms the code computes), and - as separate pure-arithmetic lemmas - equal to the documented
    grids ts[i] + k*dt/nt and fs[j] + k*df/nf."""
    int_path, int_t, int_f, smear = flags
    T, dt, df = p['T'], p['dt'], p['df']
    Teff = T + 1 if smear else T
    G = {}
    i, k, j = Int('gi'), Int('gk'), Int('gj')
    ts0 = p['ts'].at((0,))         # the grids start at the frame's own first time stamp (T0; 0 for a stand-alone frame)
    ts_of = lambda r: p['T0'] + r * dt
    if int_t:
        G['t'] = vc.interp.binop('Add', ts0, L.np_linspace(vc.interp, 0, T * dt, T * nt, endpoint=False))
        vc.ensure('C01/add_signal/lemma/time-subgrid-is-ts[i]+k*dt/nt',
                  Implies(And(i >= 0, i < T, k >= 0, k < nt), eq(G['t'].at((i * nt + k,)), ts_of(i) + k * dt / nt)), kind='lemma')
    if int_path:
        G['p'] = vc.interp.binop('Add', ts0, L.np_linspace(vc.interp, 0, Teff * dt, Teff * nt, endpoint=False))
        vc.ensure('C01/add_signal/lemma/path-subgrid-is-ts[i]+k*dt/nt',
                  Implies(And(i >= 0, i < Teff, k >= 0, k < nt), eq(G['p'].at((i * nt + k,)), ts_of(i) + k * dt / nt)), kind='lemma')
    if int_f:
        f0 = p['fs'].at((b0,))
        rc = b1 - b0
        G['f'] = L.np_linspace(vc.interp, f0, f0 + rc * df, rc * nf, endpoint=False)
        vc.ensure('C01/add_signal/lemma/frequency-subgrid-is-fs[j]+k*df/nf',
                  Implies(And(j >= b0, j < b1, k >= 0, k < nf), eq(G['f'].at(((j - b0) * nf + k,)), p['fs'].at((j,)) + k * df / nf)), kind='lemma')
    return G


def spec_pixel(p, S, fp, G, i, j, b0, flags, nt, nf, ns, tp_callable, path_callable):
    """The property's formula for pixel (i, j) inside the bounding range, over the grids above."""
    int_path, int_t, int_f, smear = flags
    dt, df = p['dt'], p['df']
    ts_i = lambda r: p['ts'].at((r,)) if True else r * dt

    def ts_ext(r):
        # frame.ts_ext: ts followed by ts[-1] + dt
        return sym_if(Sym.lift(r) < p['T'], p['ts'].at((r,)), p['ts'].at((p['T'] - 1,)) + dt)

    def tp(r):
        if tp_callable and int_t:
            return L.sum_term(nt, lambda k: S['tp'](G['t'].at((r * nt + k,)), r)) / nt
        return S['tp'](p['ts'].at((r,)), r)

    def pth(r):
        if path_callable and int_path:
            return L.sum_term(nt, lambda k: S['path'](G['p'].at((r * nt + k,)), r)) / nt
        return S['path'](ts_ext(r) if smear else p['ts'].at((r,)), r)

    def at_freq(k):
        if int_f:
            fq = G['f'].at(((j - b0) * nf + k,))
        else:
            fq = p['fs'].at((j,))
        return fq, S['bp'](fq, j, k)

    def smeared(fq, bq):
        if not smear:
            return tp(i) * fp.apply_scalar(fq, pth(i)) * bq
        dp = (pth(i + 1) - pth(i)) / ns
        return L.sum_term(ns, lambda m: tp(i) * fp.apply_scalar(fq, pth(i) + m * dp) / ns * bq)

    if int_f:
        return L.sum_term(nf, lambda k: smeared(*at_freq(k))) / nf
    return smeared(*at_freq(0))


class SmearLoop:
    """Invariant of add_signal/loop#0 (accumulation of the smeared copies), instantiated at the given points."""

    def __init__(self, vc, points):
        self.vc, self.points = vc, points
        self.p0 = None

    def havoc(self, interp, env, k, phase):
        sg, pt = env.get('signal'), env.get('path_tt')
        if self.p0 is None:
            self.p0 = SArr(pt.shape, pt._snapshot(), 'real')
        env.set('signal', symbolic_array('signal_h', sg.shape))
        env.set('path_tt', symbolic_array('path_tt_h', pt.shape))
        env.vars.pop('_', None)
        if phase == 'pres':
            for (i, j) in self.points:
                # definition of the finite sum at the step being taken
                self.vc.sum_step(k, (lambda i, j: (lambda m: self.term(env, m, i, j)))(i, j))

    def term(self, env, m, i, j):
        t, ff, bp, dp = env.get('t_profile_tt'), env.get('ff'), env.get('bp_profile_ff'), env.get('dpath_tt')
        fpf = env.get('f_profile')
        n = env.get('smearing_subsamples')
        return t.at((i, j)) * fpf.apply_scalar(ff.at((i, j)), self.p0.at((i, j)) + m * dp.at((i, j))) / n * bp.at((i, j))

    def inv(self, interp, env, k):
        if self.p0 is None:
            pt = env.get('path_tt')
            self.p0 = SArr(pt.shape, pt._snapshot(), 'real')
        sg, pt, dp = env.get('signal'), env.get('path_tt'), env.get('dpath_tt')
        cs = []
        for (i, j) in self.points:
            inr = And(i >= 0, i < sg.shape[0], j >= 0, j < sg.shape[1])
            Sk = L.sum_term(k, (lambda i, j: (lambda m: self.term(env, m, i, j)))(i, j))
            cs.append(Implies(inr, And(eq(sg.at((i, j)), Sk), eq(pt.at((i, j)), self.p0.at((i, j)) + k * dp.at((i, j))))))
        return And(*cs)


@contract('C01', 'flags_callable_time', functions=[ADD])
def flags_callable_time(vc):
    """All inputs callable; integrate_path / integrate_t_profile / doppler_smearing in every combination (symbolic counts)."""
    fl = vc.choose(8, 'flags')
    flags = (bool(fl & 1), bool(fl & 2), False, bool(fl & 4))
    run_flag_case(vc, flags, bool(vc.choose(2, 'bounding')), 'callable', 'callable', 'callable')


@contract('C01', 'flags_callable_freq', functions=[ADD])
def flags_callable_freq(vc):
    """integrate_f_profile with every combination of the time options (f_subsamples symbolic; no smearing)."""
    fl = vc.choose(4, 'flags')
    flags = (bool(fl & 1), bool(fl & 2), True, False)
    run_flag_case(vc, flags, bool(vc.choose(2, 'bounding')), 'callable', 'callable', 'callable')


@contract('C01', 'flags_other_forms', functions=[ADD])
def flags_other_forms(vc):
    """Smearing / frequency integration with array and scalar inputs (integration of path/time only applies to callables)."""
    path_form = ('array', 'scalar', 'callable')[vc.choose(3, 'path')]
    t_form = ('array', 'scalar')[vc.choose(2, 't_profile')]
    bp_form = ('none', 'array', 'scalar')[vc.choose(3, 'bp')]
    fl = vc.choose(2, 'flags')          # smearing alone / frequency integration alone (their combination: bounded run only)
    flags = (False, False, fl == 1, fl == 0)
    run_flag_case(vc, flags, bool(vc.choose(2, 'bounding')), path_form, t_form, bp_form)


def run_flag_case(vc, flags, use_b, path_form, t_form, bp_form):
    int_path, int_t, int_f, smear = flags
    T0 = Real('T0')               # the time axis may be shifted (cadence injection): ts[i] = T0 + i*dt
    f, p = frame_obj(vc, True, T0=T0)
    p['T0'] = T0
    rng_bounds, b0, b1 = bounding(vc, p, use_b)
    vc.assume(b0 < b1)
    nt, ns = Int('t_subsamples'), Int('smearing_subsamples')
    vc.assume(And(nt >= 1, ns >= 1))
    if int_f and smear:
        nf = 2 + vc.choose(2, 'f_subsamples')       # the accumulation invariant is instantiated once per frequency sub-sample
    else:
        nf = Int('f_subsamples')
        vc.assume(nf >= 1)
    path, tp, S = make_inputs(vc, p, path_form, t_form, bp_form, smear)
    fp = FP()
    if bp_form == 'callable':
        g = BP()
        bp = g
        S['bp'] = lambda fq, j, k: g.apply_scalar(fq)
    elif bp_form == 'none':
        bp = None
        S['bp'] = lambda fq, j, k: 1
    elif bp_form == 'scalar':
        c = Real('bp_const')
        bp = c
        S['bp'] = lambda fq, j, k: c
    else:
        mult = nf if int_f else 1
        a = symbolic_array('bp_arr', (smax(b1 - b0, 0) * mult,))
        bp = a
        S['bp'] = lambda fq, j, k: a.at(((j - b0) * mult + k,))
    # the pixel the obligations talk about: row ii, column b0 + jj (ii, jj universally quantified)
    ii, jj = Int('ii'), Int('jj')
    i, j = ii, b0 + jj
    if smear:
        pts = [(ii, jj * nf + k) for k in range(nf)] if int_f else [(ii, jj)]
        vc.interp.loop_specs[(ADD, 0)] = SmearLoop(vc, pts)
    out = vc.call(ADD, f, path, tp, fp, bp_profile=bp, bounding_f_range=rng_bounds, integrate_path=int_path, integrate_t_profile=int_t,
                  integrate_f_profile=int_f, doppler_smearing=smear, t_subsamples=nt, f_subsamples=nf, smearing_subsamples=ns)
    tag = f"flags[{'P' if int_path else '-'}{'T' if int_t else '-'}{'F' if int_f else '-'}{'S' if smear else '-'}]/{path_form[0]}{t_form[0]}{bp_form[0]}"
    vc.cover('reachable')
    vc.ensure(f'C01/add_signal/{tag}/exc/none', out.ok)
    if not out.ok:
        return
    sig = out.value
    G = grids(vc, p, flags, nt, nf, b0, b1)
    inr = And(i >= 0, i < p['T'], j >= b0, j < b1)
    want = spec_pixel(p, S, fp, G, i, j, b0, flags, nt, nf, ns, t_form == 'callable', path_form == 'callable')
    vc.ensure(f'C01/add_signal/{tag}/post/pixel-is-the-documented-average', Implies(inr, eq(sig.at((i, j)), want)))
    j2 = Int('j_out')
    vc.ensure(f'C01/add_signal/{tag}/post/zero-outside-bounding-range',
              Implies(And(ii >= 0, ii < p['T'], j2 >= 0, j2 < p['n'], Not(And(j2 >= b0, j2 < b1))), eq(sig.at((ii, j2)), 0)))


@contract('C01', 'input_validation', functions=[ADD])
def input_validation(vc):
    """Arrays of a wrong length raise ValueError; an input that is none of callable/list/ndarray/int/float raises TypeError."""
    which = ('t_len', 'path_len', 'bp_len', 't_type', 'path_type', 'bp_type')[vc.choose(6, 'case')]
    f, p = frame_obj(vc, True)
    T, n = p['T'], p['n']
    m = Int('m')
    vc.assume(m >= 0)
    tp, path, bp = Real('tpc'), Real('pc'), None
    bad = I.SObj(None, {}, tag='not-a-valid-input')
    if which == 't_len':
        tp = symbolic_array('tp_arr', (m,))
        vc.assume(Not(eq(m, T)))
    elif which == 'path_len':
        path = symbolic_array('path_arr', (m,))
        vc.assume(Not(eq(m, T)))
    elif which == 'bp_len':
        bp = symbolic_array('bp_arr', (m,))
        vc.assume(Not(eq(m, n)))
    elif which == 't_type':
        tp = bad
    elif which == 'path_type':
        path = bad
    else:
        bp = bad
    d0 = p['data']
    w0 = d0.writes
    out = vc.call(ADD, f, path, tp, FP(), bp_profile=bp)
    want = 'ValueError' if which.endswith('len') else 'TypeError'
    vc.ensure(f'C01/add_signal/validation/{which}/raises-{want}', And(not out.ok, out.exc == want))
    vc.ensure(f'C01/add_signal/validation/{which}/frame-untouched', f.fields['data'].writes == w0)


FUN = 'setigen.funcs'


@contract('C01', 'profile_factories', functions=[FUN + '.paths:constant_path', FUN + '.paths:squared_path', FUN + '.paths:sine_path', FUN + '.t_profiles:constant_t_profile',
                                                 FUN + '.t_profiles:sine_t_profile', FUN + '.f_profiles:box_f_profile', FUN + '.f_profiles:gaussian_f_profile',
                                                 FUN + '.f_profiles:lorentzian_f_profile', FUN + '.f_profiles:sinc2_f_profile', FUN + '.bp_profiles:constant_bp_profile',
                                                 FUN + '.func_utils:gaussian', FUN + '.func_utils:lorentzian'])
def profile_factories(vc):
    t, f0, d, c, w, f = Real('t'), Real('f_start'), Real('drift'), Real('centre'), Real('width'), Real('f')
    vc.assume(w > 0)
    call = lambda key, *a, **k: vc.interp.call_key(key, *a, **k)
    ap = lambda fn, *a: vc.interp.call(fn, list(a), {})
    vc.ensure('C01/constant_path/post', eq(ap(call(FUN + '.paths:constant_path', f0, d), t), f0 + d * t))
    vc.ensure('C01/squared_path/post', eq(ap(call(FUN + '.paths:squared_path', f0, d), t), f0 + d * t * t / 2))
    per, amp = Real('period'), Real('amplitude')
    vc.assume(per > 0)
    vc.ensure('C01/sine_path/post', eq(ap(call(FUN + '.paths:sine_path', f0, d, per, amp), t), f0 + amp * L.UF_SIN(2 * L.PI * t / per) + d * t))
    lv = Real('level')
    vc.ensure('C01/constant_t_profile/post/scalar', eq(ap(call(FUN + '.t_profiles:constant_t_profile', lv), t), lv))
    n = Int('n')
    vc.assume(n >= 1)
    arr = symbolic_array('tarr', (n,))
    r = ap(call(FUN + '.t_profiles:constant_t_profile', lv), arr)
    i = Int('i')
    vc.ensure('C01/constant_t_profile/post/array', And(isinstance(r, SArr), eq(r.shape[0], n), Implies(And(i >= 0, i < n), eq(r.at((i,)), lv))))
    ph = Real('phase')
    vc.ensure('C01/sine_t_profile/post', eq(ap(call(FUN + '.t_profiles:sine_t_profile', per, ph, amp, lv), t), amp * L.UF_SIN(2 * L.PI * (t + ph) / per) + lv))
    vc.ensure('C01/constant_bp_profile/post', eq(ap(call(FUN + '.bp_profiles:constant_bp_profile', lv), f), lv))
    box = ap(call(FUN + '.f_profiles:box_f_profile', w), symbolic_array('ff', (n,)), c)
    box1 = ap(call(FUN + '.f_profiles:box_f_profile', w), SArr((n,), lambda idx: f, 'real'), c)
    vc.ensure('C01/box_f_profile/post/1-iff-within-half-width', Implies(And(i >= 0, i < n), eq(box1.at((i,)), sym_if(abs(f - c) < w / 2, 1, 0))))
    lor = ap(call(FUN + '.f_profiles:lorentzian_f_profile', w), f, c)
    vc.ensure('C01/lorentzian_f_profile/post/formula', eq(lor, 1 / (1 + ((f - c) / (w / 2)) * ((f - c) / (w / 2)))))
    vc.ensure('C01/lorentzian_f_profile/post/1-at-centre-half-at-half-width',
              And(eq(ap(call(FUN + '.f_profiles:lorentzian_f_profile', w), c, c), 1), eq(ap(call(FUN + '.f_profiles:lorentzian_f_profile', w), c + w / 2, c) * 2, 1)))
    g = ap(call(FUN + '.f_profiles:gaussian_f_profile', w), f, c)
    sig = w / (2 * sqrt(2 * L._log(2)))
    vc.ensure('C01/gaussian_f_profile/post/formula', eq(g, L.UF_EXP(-((f - c) * (f - c)) / (2 * (sig * sig)))))
    vc.ensure('C01/gaussian_f_profile/post/1-at-centre', eq(ap(call(FUN + '.f_profiles:gaussian_f_profile', w), c, c), 1))
    s2 = ap(call(FUN + '.f_profiles:sinc2_f_profile', w), SArr((n,), lambda idx: f, 'real'), c)
    vc.ensure('C01/sinc2_f_profile/post/zero-outside-half-width-sinc2-inside',
              Implies(And(i >= 0, i < n), eq(s2.at((i,)), sym_if(abs(f - c) < w / 2, L.UF_SINC((f - c) / (w / 2)) * L.UF_SINC((f - c) / (w / 2)), 0))))
