"""C01 - injected signal equals the pointwise product of its four components (and C06/C13/C16 share the spec)."""
from .common import *

PROP_LEVEL['C01'] = 'proof'
PROP_TRUSTED['C01'] = [
    "user callables are uninterpreted functions applied pointwise (TP, PATH: R->R; FP: RxR->R; BP: R->R)",
    "floats as reals; np.linspace/meshgrid/diff/reshape/mean axioms; sub-sample grids compared over the reals",
    "profile factories: exp/sinc/wofz uninterpreted with the axioms listed in the contract",
]
PROP_EXPLANATION['C01'] = "every pixel of Frame.add_signal's result equals the product / averaged product formula, for every input form and flag combination"

FR = FRAME
ADD = FR + '.add_signal'

TP = lambda: I.SFunc('TP')
PATH = lambda: I.SFunc('PATH')
FP = lambda: I.SFunc('FP', 2)
BP = lambda: I.SFunc('BP')


def bounding(vc, p, use):
    """Property: the requested interval in channel indices, intersected with the band."""
    n = p['n']
    if not use:
        return None, 0, n
    lo, hi = Real('bound_lo'), Real('bound_hi')
    ilo = round_half_even((lo - p['fmin']) / p['df'])
    ihi = round_half_even((hi - p['fmin']) / p['df'])
    b0, b1 = smax(ilo, 0), smin(ihi, n)
    return (lo, hi), b0, b1


def make_inputs(vc, p, path_form, t_form, bp_form, smear=False):
    T, n = p['T'], p['n']
    S = {}
    if path_form == 'callable':
        f = PATH()
        S['path'] = lambda t, i: f.apply_scalar(t)
        path = f
    elif path_form == 'array':
        L_ = T + 1 if smear else T
        a = symbolic_array('path_arr', (L_,))
        S['path'] = lambda t, i: a.at((i,))
        path = a
    else:
        c = Real('path_const')
        S['path'] = lambda t, i: c
        path = c
    if t_form == 'callable':
        f2 = TP()
        S['tp'] = lambda t, i: f2.apply_scalar(t)
        tp = f2
    elif t_form == 'array':
        a2 = symbolic_array('tp_arr', (T,))
        S['tp'] = lambda t, i: a2.at((i,))
        tp = a2
    else:
        c2 = Real('tp_const')
        S['tp'] = lambda t, i: c2
        tp = c2
    return path, tp, S


def bp_input(vc, p, bp_form, b0, b1):
    if bp_form == 'none':
        return None, (lambda f, j: 1)
    if bp_form == 'callable':
        g = BP()
        return g, (lambda f, j: g.apply_scalar(f))
    if bp_form == 'array':
        a = symbolic_array('bp_arr', (smax(b1 - b0, 0),))
        return a, (lambda f, j: a.at((j - b0,)))
    c = Real('bp_const')
    return c, (lambda f, j: c)


@contract('C01', 'plain_forms', functions=[ADD, FR + '.get_index'])
def plain_forms(vc):
    """No sub-sample integration, no smearing: every combination of input forms, bounded or not."""
    path_form = ('callable', 'array', 'scalar')[vc.choose(3, 'path')]
    t_form = ('callable', 'array', 'scalar')[vc.choose(3, 't_profile')]
    bp_form = ('none', 'callable', 'array', 'scalar')[vc.choose(4, 'bp')]
    use_b = bool(vc.choose(2, 'bounding'))
    f, p = frame_obj(vc, True)
    rng_bounds, b0, b1 = bounding(vc, p, use_b)
    vc.assume(b0 < b1)                          # non-empty intersection with the band (empty ranges: see C06)
    path, tp, S = make_inputs(vc, p, path_form, t_form, bp_form)
    bp, bpf = bp_input(vc, p, bp_form, b0, b1)
    fp = FP()
    data0 = p['data']
    d0 = SArr(data0.shape, data0._snapshot(), 'real')
    out = vc.call(ADD, f, path, tp, fp, bp_profile=bp, bounding_f_range=rng_bounds)
    vc.cover('reachable')
    vc.ensure('C01/add_signal/plain/exc/none', out.ok)
    if not out.ok:
        return
    sig = out.value
    i, j = Int('i'), Int('j')
    inr = And(i >= 0, i < p['T'], j >= 0, j < p['n'])
    t_i = p['ts'].at((i,))
    f_j = p['fs'].at((j,))
    want = S['tp'](t_i, i) * fp.apply_scalar(f_j, S['path'](t_i, i)) * bpf(f_j, j)
    inside = And(j >= b0, j < b1)
    vc.ensure('C01/add_signal/plain/post/shape', And(sig.ndim == 2, eq(sig.shape[0], p['T']), eq(sig.shape[1], p['n'])))
    vc.ensure('C01/add_signal/plain/post/pixel=t_profile*f_profile*bandpass', Implies(And(inr, inside), eq(sig.at((i, j)), want)))
    vc.ensure('C01/add_signal/plain/post/zero-outside-bounding-range', Implies(And(inr, Not(inside)), eq(sig.at((i, j)), 0)))
    vc.ensure('C06/add_signal/plain/post/data-changed-by-exactly-the-returned-signal', Implies(inr, eq(f.fields['data'].at((i, j)), d0.at((i, j)) + sig.at((i, j)))))


def spec_pixel(p, S, fp, bpf, i, j, flags, nt, nf, ns, tp_callable, path_callable, bp_kind):
    """The property's formula for pixel (i, j) (inside the bounding range)."""
    int_path, int_t, int_f, smear = flags
    dt, df = p['dt'], p['df']
    ts_i = lambda r: r * dt          # the frame's own time axis (T0 = 0); row T is the end time stamp

    def tp(r):
        if tp_callable and int_t:
            return L.sum_term(nt, lambda k: S['tp'](ts_i(r) + k * dt / nt, r)) / nt
        return S['tp'](ts_i(r), r)

    def pth(r):
        if path_callable and int_path:
            return L.sum_term(nt, lambda k: S['path'](ts_i(r) + k * dt / nt, r)) / nt
        return S['path'](ts_i(r), r)

    def prod(fq, bq, centre):
        return tp(i) * fp.apply_scalar(fq, centre) * bq

    def at_freq(k):
        """frequency sample and bandpass value for sub-sample k of channel j (k = 0 when not integrating)."""
        fq = p['fs'].at((j,)) + (k * df / nf if int_f else 0)
        return fq, S['bp'](fq, j, k)

    def smeared(fq, bq):
        if not smear:
            return prod(fq, bq, pth(i))
        dp = (pth(i + 1) - pth(i)) / ns
        return L.sum_term(ns, lambda m: tp(i) * fp.apply_scalar(fq, pth(i) + m * dp) / ns * bq)

    if int_f:
        return L.sum_term(nf, lambda k: smeared(*at_freq(k))) / nf
    return smeared(*at_freq(0))


class SmearLoop:
    """Invariant of add_signal/loop#0 (accumulation of the smeared copies)."""

    def __init__(self, vc, i, j, ns):
        self.vc, self.i, self.j, self.ns = vc, i, j, ns

    def havoc(self, interp, env, k, phase):
        sg, pt = env.get('signal'), env.get('path_tt')
        self.p0 = getattr(self, 'p0', None) or SArr(pt.shape, pt._snapshot(), 'real')
        env.set('signal', symbolic_array('signal_h', sg.shape))
        env.set('path_tt', symbolic_array('path_tt_h', pt.shape))
        env.vars.pop('_', None)

    def term(self, env, m, i, j):
        t, ff, bp, dp = env.get('t_profile_tt'), env.get('ff'), env.get('bp_profile_ff'), env.get('dpath_tt')
        fpf = env.get('f_profile')
        n = env.get('smearing_subsamples')
        return t.at((i, j)) * fpf.apply_scalar(ff.at((i, j)), self.p0.at((i, j)) + m * dp.at((i, j))) / n * bp.at((i, j))

    def inv(self, interp, env, k):
        if not hasattr(self, 'p0') or self.p0 is None:
            pt = env.get('path_tt')
            self.p0 = SArr(pt.shape, pt._snapshot(), 'real')
        sg, pt, dp = env.get('signal'), env.get('path_tt'), env.get('dpath_tt')
        i, j = self.i, self.j
        inr = And(i >= 0, i < sg.shape[0], j >= 0, j < sg.shape[1])
        Sk = L.sum_term(k, lambda m: self.term(env, m, i, j))
        return Implies(inr, And(eq(sg.at((i, j)), Sk), eq(pt.at((i, j)), self.p0.at((i, j)) + k * dp.at((i, j)))))


@contract('C01', 'flags_callable', functions=[ADD])
def flags_callable(vc):
    """All inputs callable; every combination of the four options; sub-sample counts symbolic."""
    fl = vc.choose(16, 'flags')
    flags = (bool(fl & 1), bool(fl & 2), bool(fl & 4), bool(fl & 8))     # int_path, int_t, int_f, smear
    use_b = bool(vc.choose(2, 'bounding'))
    run_flag_case(vc, flags, use_b, 'callable', 'callable', 'callable')


def run_flag_case(vc, flags, use_b, path_form, t_form, bp_form):
    int_path, int_t, int_f, smear = flags
    f, p = frame_obj(vc, True)
    rng_bounds, b0, b1 = bounding(vc, p, use_b)
    vc.assume(b0 < b1)
    nt, nf, ns = Int('t_subsamples'), Int('f_subsamples'), Int('smearing_subsamples')
    vc.assume(And(nt >= 1, nf >= 1, ns >= 1))
    path, tp, S = make_inputs(vc, p, path_form, t_form, bp_form, smear)
    fp = FP()
    if bp_form == 'callable':
        g = BP()
        bp = g
        S['bp'] = lambda fq, j, k: g.apply_scalar(fq)
    elif bp_form == 'none':
        bp = None
        S['bp'] = lambda fq, j, k: 1
    elif bp_form == 'scalar':
        c = Real('bp_const')
        bp = c
        S['bp'] = lambda fq, j, k: c
    else:
        ln = smax(b1 - b0, 0) * (nf if int_f else 1)
        a = symbolic_array('bp_arr', (ln,))
        bp = a
        S['bp'] = lambda fq, j, k: a.at(((j - b0) * (nf if int_f else 1) + k,))
    i, j = Int('i'), Int('j')
    if smear:
        vc.interp.loop_specs[(ADD, 0)] = SmearLoop(vc, Int('ii'), Int('jj'), ns)
    out = vc.call(ADD, f, path, tp, fp, bp_profile=bp, bounding_f_range=rng_bounds, integrate_path=int_path, integrate_t_profile=int_t,
                  integrate_f_profile=int_f, doppler_smearing=smear, t_subsamples=nt, f_subsamples=nf, smearing_subsamples=ns)
    tag = f"flags[{'P' if int_path else '-'}{'T' if int_t else '-'}{'F' if int_f else '-'}{'S' if smear else '-'}]/{path_form[0]}{t_form[0]}{bp_form[0]}"
    vc.cover('reachable')
    vc.ensure(f'C01/add_signal/{tag}/exc/none', out.ok)
    if not out.ok:
        return
    sig = out.value
    inr = And(i >= 0, i < p['T'], j >= b0, j < b1)
    want = spec_pixel(p, S, fp, None, i, j, flags, nt, nf, ns, t_form == 'callable', path_form == 'callable', bp_form)
    vc.ensure(f'C01/add_signal/{tag}/post/pixel-is-the-documented-average', Implies(inr, eq(sig.at((i, j)), want)))
    vc.ensure(f'C01/add_signal/{tag}/post/zero-outside-bounding-range', Implies(And(i >= 0, i < p['T'], j >= 0, j < p['n'], Not(And(j >= b0, j < b1))), eq(sig.at((i, j)), 0)))
