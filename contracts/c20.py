"""C20 - block, length and sample accounting.

Top-level postconditions are taken from the property statement; preconditions/shapes from the code
and its call sites.  int mode for integer accounting, fp-relerr at every float->int site.
"""
from fractions import Fraction
from .common import *

PROP_LEVEL['C20'] = 'proof'
PROP_TRUSTED['C20'] = [
    "fp-relerr: binary64 round-to-nearest modelled as (1+d), |d|<=2^-53, no overflow/underflow, ints < 2^53",
    "Antenna/quantizer/filterbank objects are given as field records satisfying their constructors' documented ranges",
]
PROP_EXPLANATION['C20'] = ("integer block/sample accounting of RawVoltageBackend.__init__/get_num_blocks/record prologue and the "
                           "stand-alone helpers proved for all parameter values; float-to-int sites proved in the standard "
                           "rounding-error model; a bounded native sweep replays the same clauses on the real code")

BK = 'setigen.voltage.backend:RawVoltageBackend'


def _backend_inputs(vc, array=False):
    """Symbolic constructor arguments of a backend (single antenna or array)."""
    npol = 1 + vc.choose(2, 'num_pols')          # 1 or 2
    nbits = (4, 8)[vc.choose(2, 'num_bits')]
    sr = Real('sample_rate')
    nb = Int('num_branches')
    taps = Int('num_taps')
    vc.assume(And(sr >= 1000, sr <= 10 ** 12, nb >= 2, nb <= 2 ** 24, taps >= 1, taps <= 1024))
    fields = dict(sample_rate=sr, num_pols=npol, fch1=Real('fch1'), ascending=Bool('ascending').concrete() if False else True)
    fields['ascending'] = bool(vc.choose(2, 'ascending'))
    if array:
        nant = Int('num_antennas')
        vc.assume(And(nant >= 1, nant <= 4096))
        src = mkobj(vc, 'setigen.voltage.antenna:MultiAntennaArray', num_antennas=nant, **fields)
    else:
        nant = 1
        src = mkobj(vc, 'setigen.voltage.antenna:Antenna', **fields)
    dig = mkobj(vc, 'setigen.voltage.quantization:RealQuantizer', target_std=Real('dig_std'), num_bits=8)
    fb = mkobj(vc, 'setigen.voltage.polyphase_filterbank:PolyphaseFilterbank', num_taps=taps, num_branches=nb,
               cache=None, channelized_stds=None)
    rq = mkobj(vc, 'setigen.voltage.quantization:ComplexQuantizer', num_bits=nbits)
    return dict(npol=npol, nbits=nbits, sr=sr, nb=nb, taps=taps, nant=nant, src=src, dig=dig, fb=fb, rq=rq)


def _construct(vc, a, start_chan, num_chans, block_size, bpf=None, nsub=None):
    cls = classref(vc, BK)
    kw = dict(start_chan=start_chan, num_chans=num_chans, block_size=block_size)
    if bpf is not None:
        kw['blocks_per_file'] = bpf
    if nsub is not None:
        kw['num_subblocks'] = nsub
    return vc.run(lambda: vc.interp.call(cls, [a['src'], a['dig'], a['fb'], a['rq']], kw))


@contract('C20', 'backend_init_accounting', functions=[BK + '.__init__'], mode='int')
def backend_init(vc):
    vc.mode = 'int'
    array = bool(vc.choose(2, 'array'))
    a = _backend_inputs(vc, array)
    sc, nc, bs = Int('start_chan'), Int('num_chans'), Int('block_size')
    vc.assume(And(sc >= 0, nc >= 1, bs >= 1))
    out = _construct(vc, a, sc, nc, bs)
    npol, nbits, nant, taps, nb = a['npol'], a['nbits'], a['nant'], a['taps'], a['nb']
    bps = 2 * npol * nbits // 8
    admissible = And(sc + nc <= nb // 2, bs % (nant * nc * taps * bps) == 0)
    vc.cover('reachable')
    if out.ok:
        b = out.value
        f = b.fields
        vc.cover('constructed')
        vc.ensure('C20/backend.__init__/post/accepts-only-admissible', admissible)
        vc.ensure('C20/backend.__init__/post/bytes_per_sample', eq(f['bytes_per_sample'], bps))
        vc.ensure('C20/backend.__init__/post/samples_per_block*frame=block_size',
                  eq(f['samples_per_block'] * (nant * nc * bps), bs))
        vc.ensure('C20/backend.__init__/post/samples_per_block-multiple-of-taps', eq(f['samples_per_block'] % taps, 0))
        vc.ensure('C20/backend.__init__/post/time_per_block', eq(f['time_per_block'], f['samples_per_block'] * nb / a['sr']))
        vc.ensure('C20/backend.__init__/post/tbin', eq(f['tbin'], nb / a['sr']))
        vc.ensure('C20/backend.__init__/post/chan_bw', eq(f['chan_bw'], (1 if f['ascending'] else -1) * a['sr'] / nb))
        vc.ensure('C20/backend.__init__/post/num_antennas', eq(f['num_antennas'], nant))
        vc.ensure('C20/backend.__init__/post/total_obs_num_samples-unset', f['total_obs_num_samples'] is None)
    else:
        vc.ensure('C20/backend.__init__/exc/only-AssertionError', out.exc == 'AssertionError')
        vc.ensure('C20/backend.__init__/exc/rejects-only-inadmissible', Not(admissible))


def _backend_record(vc, fpmode):
    """A backend object as its constructor leaves it (fields related as proved above)."""
    npol = 1 + vc.choose(2, 'num_pols')
    nbits = (4, 8)[vc.choose(2, 'num_bits')]
    nant, nc, spb, nb = Int('num_antennas'), Int('num_chans'), Int('samples_per_block'), Int('num_branches')
    sr = Real('sample_rate')
    bps = 2 * npol * nbits // 8
    vc.assume(And(nant >= 1, nc >= 1, spb >= 1, nb >= 2, nb <= 2 ** 24, sr >= 1000, sr <= 10 ** 12))
    bs = spb * nant * nc * bps
    vc.assume(bs < 2 ** 53)
    asc = bool(vc.choose(2, 'ascending'))
    if fpmode:
        # floats computed by __init__: tbin = fl(nb/sr), chan_bw = +-fl(1/tbin), time_per_block = fl(spb*tbin)
        with fp(vc):
            tbin = nb / sr
            cbw = 1 / tbin
            tpb = spb * tbin
        if not asc:
            cbw = -cbw
    else:
        tbin = nb / sr
        cbw = (1 if asc else -1) * sr / nb
        tpb = spb * tbin
    b = mkobj(vc, BK, num_antennas=nant, num_chans=nc, bytes_per_sample=bps, block_size=bs, chan_bw=cbw, tbin=tbin,
              samples_per_block=spb, time_per_block=tpb, num_branches=nb, sample_rate=sr, num_pols=npol, num_bits=nbits,
              ascending=asc, input_num_blocks=None)
    return b, dict(npol=npol, nbits=nbits, nant=nant, nc=nc, spb=spb, nb=nb, sr=sr, bps=bps, bs=bs)


@contract('C20', 'get_num_blocks_fp', functions=[BK + '.get_num_blocks'], mode='fp-relerr')
def get_num_blocks(vc):
    b, p = _backend_record(vc, True)
    L_ = Real('obs_length')
    vc.assume(And(L_ >= 0, L_ <= 10 ** 9))
    with fp(vc):
        out = vc.call(BK + '.get_num_blocks', b, L_)
    vc.cover('reachable')
    vc.ensure('C20/get_num_blocks/exc/none', out.ok)
    if not out.ok:
        return
    n = out.value
    tpb = p['spb'] * p['nb'] / p['sr']        # exact
    slack = Fraction(1, 10 ** 9)
    vc.ensure('C20/get_num_blocks/post/integer-nonnegative', And(n >= 0, I.type_tag(n) == 'int'))
    vc.ensure('C20/get_num_blocks/post/does-not-exceed-request', n * tpb <= L_ * (1 + slack))
    vc.ensure('C20/get_num_blocks/post/short-by-less-than-one-block', L_ < (n + 1) * tpb * (1 + slack))


@contract('C20', 'get_block_size', functions=['setigen.voltage.backend:get_block_size'], mode='int')
def get_block_size(vc):
    vc.mode = 'int'
    npol = 1 + vc.choose(2, 'num_pols')
    nbits = (4, 8)[vc.choose(2, 'num_bits')]
    nant, tpb, nb, nc, fl, k = Int('nant'), Int('tchans_per_block'), Int('num_branches'), Int('num_chans'), Int('fftlength'), Int('int_factor')
    vc.assume(And(nant >= 1, tpb >= 1, nb >= 2, nc >= 1, fl >= 1, k >= 1))
    out = vc.call('setigen.voltage.backend:get_block_size', num_antennas=nant, tchans_per_block=tpb, num_bits=nbits,
                  num_pols=npol, num_branches=nb, num_chans=nc, fftlength=fl, int_factor=k)
    vc.ensure('C20/get_block_size/exc/none', out.ok)
    bs = out.value
    bps = 2 * npol * nbits // 8
    # agreement with the backend: samples_per_block = block_size // (nant*nc*bps) = tchans_per_block*fftlength*int_factor
    vc.ensure('C20/get_block_size/post/samples_per_block', And(eq(bs % (nant * nc * bps), 0), eq(bs // (nant * nc * bps), tpb * fl * k)))


@contract('C20', 'get_total_obs_num_samples', functions=['setigen.voltage.backend:get_total_obs_num_samples'], mode='fp-relerr')
def get_total_obs_num_samples(vc):
    npol = 1 + vc.choose(2, 'num_pols')
    nbits = (4, 8)[vc.choose(2, 'num_bits')]
    nant, nc, spb, nb, n = Int('nant'), Int('nc'), Int('spb'), Int('nb'), Int('num_blocks')
    bps = 2 * npol * nbits // 8
    vc.assume(And(nant >= 1, nc >= 1, spb >= 1, nb >= 2, n >= 0))
    bs = spb * nant * nc * bps
    vc.assume(bs < 2 ** 53)
    mode = vc.choose(2, 'length_mode')
    if mode == 0:
        sr = Real('sr')
        vc.assume(And(sr >= 1000, sr <= 10 ** 12, nb <= 2 ** 24))
        with fp(vc):
            out = vc.call('setigen.voltage.backend:get_total_obs_num_samples', num_blocks=n, length_mode='num_blocks',
                          num_antennas=nant, sample_rate=sr, block_size=bs, num_bits=nbits, num_pols=npol,
                          num_branches=nb, num_chans=nc)
        vc.ensure('C20/get_total_obs_num_samples/num_blocks/exc/none', out.ok)
        if out.ok:
            vc.ensure('C20/get_total_obs_num_samples/num_blocks/post/equals-n*spb*branches', eq(out.value, n * spb * nb))
    else:
        sr, L_ = Real('sr'), Real('obs_length')
        vc.assume(And(sr >= 1000, sr <= 10 ** 12, L_ >= 0, L_ <= 10 ** 9, nb <= 2 ** 24))
        with fp(vc):
            out = vc.call('setigen.voltage.backend:get_total_obs_num_samples', obs_length=L_, length_mode='obs_length',
                          num_antennas=nant, sample_rate=sr, block_size=bs, num_bits=nbits, num_pols=npol,
                          num_branches=nb, num_chans=nc)
        vc.ensure('C20/get_total_obs_num_samples/obs_length/exc/none', out.ok)
        if out.ok:
            tpb = spb * nb / sr
            slack = Fraction(1, 10 ** 9)
            tot = out.value
            # result = m*spb*nb for the whole number m of blocks the backend would record; the witness m is
            # the function's own local `num_blocks` (ghost access to the final locals)
            m = vc.interp.last_locals['num_blocks']
            vc.ensure('C20/get_total_obs_num_samples/obs_length/post/result-is-m-blocks', eq(tot, m * spb * nb))
            vc.ensure('C20/get_total_obs_num_samples/obs_length/post/whole-blocks',
                      And(m >= 0, m * tpb <= L_ * (1 + slack), L_ < (m + 1) * tpb * (1 + slack)))


@contract('C20', 'params_from_backend_fp', functions=['setigen.frame:params_from_backend'], mode='fp-relerr')
def params_from_backend(vc):
    obs, sr = Real('obs_length'), Real('sample_rate')
    nb, fl, k = Int('num_branches'), Int('fftlength'), Int('int_factor')
    vc.assume(And(obs >= 0, obs <= 10 ** 9, sr >= 1000, sr <= 10 ** 12, nb >= 2, nb <= 2 ** 24, fl >= 1, fl <= 2 ** 30, k >= 1, k <= 2 ** 20))
    with fp(vc):
        out = vc.call('setigen.frame:params_from_backend', obs_length=obs, sample_rate=sr, num_branches=nb, fftlength=fl, int_factor=k)
    vc.ensure('C20/params_from_backend/exc/none', out.ok)
    d = out.value
    df = sr / nb / fl
    dt = k / df
    slack = Fraction(1, 10 ** 9)
    vc.ensure('C20/params_from_backend/post/df', relclose(d['df'], df, 3))
    vc.ensure('C20/params_from_backend/post/dt', relclose(d['dt'], dt, 5))
    vc.ensure('C20/params_from_backend/post/tchans-whole-integrations',
              And(d['tchans'] >= 0, d['tchans'] * dt <= obs * (1 + slack), obs < (d['tchans'] + 1) * dt * (1 + slack)))


@contract('C20', 'unit_drift_rate_agrees', functions=['setigen.voltage.level_utils:get_unit_drift_rate', 'setigen.frame:params_from_backend'], mode='real')
def unit_drift_rate(vc):
    b, p = _backend_record(vc, False)
    fl, k = Int('fftlength'), Int('int_factor')
    vc.assume(And(fl >= 1, k >= 1))
    out = vc.call('setigen.voltage.level_utils:get_unit_drift_rate', b, fl, int_factor=k)
    vc.ensure('C20/get_unit_drift_rate/exc/none', out.ok)
    fr = vc.call('setigen.frame:params_from_backend', obs_length=Real('obs'), sample_rate=p['sr'], num_branches=p['nb'], fftlength=fl, int_factor=k)
    d = fr.value
    # "unit drift rate ... agree with the backend for the same inputs": magnitude = df/dt of the frame
    # parameters (the property does not fix a sign convention for descending bands; the helper returns
    # the signed channel bandwidth's sign - triaged D17, not a finding)
    vc.ensure('C20/get_unit_drift_rate/post/magnitude-equals-frame-df-over-dt', eq(abs(out.value), d['df'] / d['dt']))


# "the antenna source advances its clock accordingly": for an array the clock must advance by the samples delivered, not by the background
# draw (which is max_delay longer on the first request).  C15's first-request contract states exactly that (array-clock, stream positions);
# it is discharged again here.
from . import c15 as _C15
contract('C20', 'array_clock_advances_by_the_samples_delivered', functions=[_C15.MA + '.get_samples'])(_C15.first_request)


@contract('C20', 'record_on_input_data_reports_the_clamped_length', functions=[BK + '.record', BK + '._header_populate_configuration', BK + '.get_num_blocks'])
def record_clamped(vc):
    """A backend built on existing RAW data never records more blocks than the input holds, and everything it *reports* - num_blocks, observation
    length, total sample count, SCANLEN, PKTSTOP - is computed from that clamped count (checked where the file loop is entered; the loop itself is
    C04's contract)."""
    from . import c04 as C4
    npol = 1 + vc.choose(2, 'num_pols')
    mode = ('num_blocks', 'obs_length', 'default')[vc.choose(3, 'length_mode')]
    be, P = C4.build_backend(vc, npol, 8)
    F = be.fields
    Nin, N = Int('input_num_blocks'), Int('requested_blocks')
    vc.assume(And(Nin >= 1, N >= 1))
    F['input_num_blocks'] = Nin
    F['input_file_stem'] = 'in'
    F['input_header_dict'] = {'TELESCOP': 'GBT', 'OBSERVER': 'someone', 'SRC_NAME': 'VOYAGER'}
    F['header_size'] = Int('in_header_size')
    spb, tpb = F['samples_per_block'], F['time_per_block']

    class AtLoopEntry:
        def havoc(self, interp, env, k, phase):
            raise I.PathEnd()

        def inv(self, interp, env, k):
            hd = env.get('header_dict')
            n = F['num_blocks']
            want = smin(N, Nin) if mode != 'default' else Nin
            vc.cover('file-loop-entered')
            vc.ensure(f'C20/record-on-input/{mode}/post/num_blocks-clamped-to-the-input', eq(n, want) if mode != 'obs_length' else And(n <= Nin, n >= 0))
            vc.ensure(f'C20/record-on-input/{mode}/post/obs_length-and-total-samples-from-the-clamped-count',
                      And(eq(F['obs_length'], n * tpb), eq(F['total_obs_num_samples'], n * spb * P['nb'])))
            vc.ensure(f'C20/record-on-input/{mode}/post/SCANLEN-and-PKTSTOP-from-the-clamped-count', And(eq(hd['SCANLEN'], n * tpb), eq(hd['PKTSTOP'], hd['PKTSTART'] + n * spb)))
            raise I.PathEnd()
    vc.interp.loop_specs[(BK + '.record', 2)] = AtLoopEntry()
    vc.interp.open_hook = lambda path, m='r': L.FileW(path, m)
    kw = dict(verbose=False, load_template=False)
    if mode == 'num_blocks':
        kw.update(num_blocks=N, length_mode='num_blocks')
    elif mode == 'obs_length':
        kw.update(obs_length=Real('requested_length'), length_mode='obs_length')
        vc.assume(Real('requested_length') > 0)
    out = vc.run(lambda: vc.interp.call_key(BK + '.record', be, 'out', **kw))
    vc.ensure(f'C20/record-on-input/{mode}/exc/none-before-the-file-loop', out.ok)


# "stand-alone helpers (... frame parameters from backend parameters) agree with the backend for the same inputs": Frame.from_backend_params
# must hand *all* of its backend parameters to params_from_backend - C05's contract of that constructor (df = sample_rate/num_branches/fftlength,
# dt = int_factor/df, tchans = floor(obs_length/dt)), discharged again here
from . import c05 as _C5
contract('C20', 'frame_from_backend_params_uses_the_backend_parameters', functions=['setigen.frame:Frame.from_backend_params', 'setigen.frame:params_from_backend'])(_C5.from_backend_params)


@contract('C20', 'record_reports_exact_integers_in_floating_point', functions=[BK + '.record', BK + '._header_populate_configuration'], mode='fp-relerr')
def record_integers_fp(vc):
    """The integer-valued quantities a recording reports (num_blocks, total sample count, PKTSTOP - PKTSTART) are computed with integer
    arithmetic: executed in the rounding-error model they still equal n, n*spb*branches and n*spb exactly (a detour through the floating-point
    observation length and int() would not)."""
    from . import c04 as C4
    npol = 1 + vc.choose(2, 'num_pols')
    be, P = C4.build_backend(vc, npol, 8)
    F = be.fields
    N = Int('requested_blocks')
    vc.assume(And(N >= 1, N <= 2 ** 30, P['sr'] >= 1000, P['sr'] <= 10 ** 12, P['nb'] <= 2 ** 24, P['taps'] <= 1024, F['samples_per_block'] <= 2 ** 30))
    spb = F['samples_per_block']

    class AtLoopEntry:
        def havoc(self, interp, env, k, phase):
            raise I.PathEnd()

        def inv(self, interp, env, k):
            hd = env.get('header_dict')
            vc.cover('file-loop-entered')
            vc.ensure('C20/record/fp/num_blocks-total-samples-and-PKTSTOP-are-exact-integers',
                      exact(lambda: And(eq(F['num_blocks'], N), eq(F['total_obs_num_samples'], N * spb * P['nb']), eq(hd['PKTSTOP'], hd['PKTSTART'] + N * spb))))
            raise I.PathEnd()
    vc.interp.loop_specs[(BK + '.record', 2)] = AtLoopEntry()
    vc.interp.open_hook = lambda path, m='r': L.FileW(path, m)
    with fp(vc):
        out = vc.run(lambda: vc.interp.call_key(BK + '.record', be, 'out', num_blocks=N, length_mode='num_blocks', verbose=False, load_template=False))
    vc.ensure('C20/record/fp/exc/none-before-the-file-loop', out.ok)
