"""C18 - a cadence is a consistency-guarded list of frames with stable order labels.

Every primitive is verified as a Hoare triple over an *arbitrary* pre-state: `frames` is a list of symbolic
length whose elements are references into a symbolic heap of frames, so every operation history of every
length is covered by induction over the operations (no bounded enumeration).  The abstract view is the list
itself (length + element at a fresh index, compared by reference identity); the expected result of each
operation is CPython's list semantics written out independently below.
"""
from .common import *
from pyvc.heap import RefHeap, ObjRef, SList, fresh_list, Opaque

PROP_LEVEL['C18'] = 'proof'
PROP_TRUSTED['C18'] = [
    "collections.abc mixins (append/extend/pop/...) are interpreted from the stdlib source of /venv's interpreter",
    "stdlib Sequence.__iter__ enumerates self[0..len-1] (assumed for symbolic length)",
    "list comprehension with a filter yields the matching elements in order (library spec: selection map sel/inv)",
]
PROP_EXPLANATION['C18'] = "Hoare triple per list primitive over a symbolic-length list of heap references; guard and label clauses"

CAD = 'setigen.cadence:Cadence'
OCAD = 'setigen.cadence:OrderedCadence'
ATTRS = ['df', 'dt', 'fchans', 'fmin']


def frame_heap(vc, name='H'):
    m = vc.interp.load_module('setigen.frame')
    h = RefHeap(name, m.classes['Frame'])
    for f, k in [('df', 'real'), ('dt', 'real'), ('fmin', 'real'), ('fmax', 'real'), ('fch1', 'real'), ('t_start', 'real'),
                 ('fchans', 'int'), ('tchans', 'int'), ('ascending', 'bool'), ('__isinstance__', 'bool')]:
        h.declare(f, k)
    h.kinds['metadata'] = ('dict', ['order_label'])
    h.declare('metadata.has.order_label', 'bool')
    h.declare('metadata.val.order_label', 'opaque')
    return h


def consistent(h, r, r0):
    return And(h.read('__isinstance__', r.ref_id), *[eq(h.read(a, r.ref_id), h.read(a, r0.ref_id)) for a in ATTRS])


def cadence_pre(vc, ordered=False, nonempty=None):
    """Arbitrary cadence satisfying OK(c): every element is a Frame agreeing with element 0."""
    h = frame_heap(vc)
    view = fresh_list('frames', h)
    n = view.length
    if nonempty is True:
        vc.assume(n >= 1)
    fields = dict(frames=view, t_slew=0, t_overwrite=False)
    if ordered:
        fields['order'] = OrderStr()
    c = mkobj(vc, OCAD if ordered else CAD, **fields)
    old = view.snapshot()
    return c, h, old, n


def assume_ok_at(vc, h, old, n, *idx):
    """Instantiate the representation invariant OK at the given indices (sound instantiation of a forall)."""
    for k in idx:
        vc.assume(Implies(And(k >= 0, k < n), consistent(h, old.at(k), old.at(0))))


class OrderStr:
    """The order string of an OrderedCadence: labels as opaque codes; length symbolic."""
    type_tag = 'orderstr'

    def __init__(self):
        self.length = Int('order_len')
        self.f = z3.Function('order_char', z3.IntSort(), z3.IntSort())
        CTX.side.append((self.length >= 0).t)

    def label(self, i):
        return Opaque('label', Sym(self.f(Sym.lift(i).as_int()), 'int'))


def _order_getitem(interp, s):
    def g(interp2, key):
        n = s.length
        k = Sym.lift(key) if not isinstance(key, Sym) else key
        if not interp2.branch(And(k >= -n, k < n)):
            raise PyRaise('IndexError', 'string index out of range')
        if interp2.branch(k < 0):
            k = k + n
        return s.label(k)
    return g


L.LIBATTR[('orderstr', '__getitem__')] = _order_getitem


def elem(seq, j):
    """Element j of a symbolic sequence without Python's bounds check (specification-level access)."""
    if isinstance(seq, SArr):
        return seq.at((j,))
    return I.seq_at(seq, j)


def same_ref(a, b):
    return eq(a.ref_id, b.ref_id)


def view_of(c):
    return c.fields['frames']


def py_index(i, n):
    """CPython item index: valid iff -n <= i < n; position i or i+n."""
    return And(i >= -n, i < n), sym_if(i < 0, i + n, i)


def py_insert_pos(i, n):
    j = sym_if(i < 0, i + n, i)
    return sym_if(j < 0, 0, sym_if(j > n, n, j))


def new_frame_ref(vc, h, name='v'):
    return ObjRef(Int(name + '_id'), h)


def unchanged(vc, tag, c, old, n):
    k = Int('k_unch')
    v = view_of(c)
    vc.ensure(f'C18/{tag}/exc-post/view-unchanged', And(eq(v.length, n), Implies(And(k >= 0, k < n), same_ref(v.at(k), old.at(k)))))


@contract('C18', 'len_getitem_int', functions=[CAD + '.__len__', CAD + '.__getitem__'])
def len_getitem(vc):
    c, h, old, n = cadence_pre(vc)
    out = vc.call(CAD + '.__len__', c)
    vc.ensure('C18/__len__/post', And(out.ok, eq(out.value, n)))
    i = Int('i')
    out = vc.call(CAD + '.__getitem__', c, i)
    valid, pos = py_index(i, n)
    vc.cover('reachable')
    if out.ok:
        vc.ensure('C18/__getitem__/int/post/accepts-only-valid', valid)
        vc.ensure('C18/__getitem__/int/post/element-by-identity', same_ref(out.value, old.at(pos)))
    else:
        vc.ensure('C18/__getitem__/int/exc/IndexError-iff-out-of-range', And(out.exc == 'IndexError', Not(valid)))
    unchanged(vc, '__getitem__/int', c, old, n)


@contract('C18', 'getitem_slice', functions=[CAD + '.__getitem__', CAD + '.__init__', CAD + '._check', CAD + '.insert',
                                              '_collections_abc:MutableSequence.extend', '_collections_abc:MutableSequence.append'])
def getitem_slice(vc):
    c, h, old, n = cadence_pre(vc)
    a, b = Int('a'), Int('b')
    form = vc.choose(3, 'slice-form')
    sl = [slice(a, b, None), slice(a, None, None), slice(None, b, None)][form]
    ka, kb = Int('ka'), Int('kb')
    lo = 0 if form == 2 else smax(0, smin(sym_if(a < 0, a + n, a), n))
    hi = n if form == 1 else smax(0, smin(sym_if(b < 0, b + n, b), n))
    # OK(c), instantiated at the parent indices the guard reads (element lo+k and the first element lo)
    install_extend_loop(vc, h, ka, pre_elem=lambda k: And(Implies(And(lo + k >= 0, lo + k < n), consistent(h, old.at(lo + k), old.at(0))),
                                                            Implies(And(lo >= 0, lo < n), consistent(h, old.at(lo), old.at(0)))))
    w0 = len(h.writes)
    out = vc.call(CAD + '.__getitem__', c, sl)
    vc.cover('reachable')
    vc.ensure('C18/__getitem__/slice/exc/none', out.ok)
    # the selected frames are shared with the parent: selecting must not write to any frame (start time, labels, data ...)
    vc.ensure('C18/__getitem__/slice/frame/no-frame-field-written', len(h.writes) == w0, note=str(h.writes[w0:][:4]))
    if not out.ok:
        return
    res = out.value
    m = smax(hi - lo, 0)
    rv = view_of(res)
    vc.ensure('C18/__getitem__/slice/post/class', res.cls is c.cls)
    vc.ensure('C18/__getitem__/slice/post/length', eq(rv.length, m))
    vc.ensure('C18/__getitem__/slice/post/elements-by-identity-in-order', Implies(And(ka >= 0, ka < m), same_ref(rv.at(ka), old.at(lo + ka))))
    unchanged(vc, '__getitem__/slice', c, old, n)


class ExtendLoop:
    """Invariant of MutableSequence.extend/loop#0 when called from Cadence.__init__ on an empty cadence
    (or generally: the first k values have been appended in order)."""

    def __init__(self, vc, h, kidx, target=None, base_len=0, base=None, pre_elem=None):
        self.vc, self.h, self.kidx = vc, h, kidx
        self.base_len, self.base = base_len, base
        self.pre_elem = pre_elem

    def havoc(self, interp, env, k, phase):
        me = env.get('self')
        values = env.get('values')
        self.values = values
        lst = fresh_list('frames_h', self.h)
        lst.length = self.base_len + k
        me.fields['frames'] = lst
        env.vars.pop('v', None)
        if phase == 'pres' and self.pre_elem is not None:
            # precondition on the offered values, instantiated at the element being appended (index k)
            self.vc.assume(self.pre_elem(k) if self.pre_elem.__code__.co_argcount == 1 else self.pre_elem(k, values))

    def inv(self, interp, env, k):
        me = env.get('self')
        values = env.get('values')
        fr = me.fields['frames']
        ln = fr.length if isinstance(fr, SList) else len(fr)
        j = self.kidx
        if isinstance(fr, list):
            if k == 0 or (isinstance(k, int) and k == 0):
                return And(eq(ln, self.base_len))
            raise Unsupported("concrete list in extend invariant")
        el = Implies(And(j >= self.base_len, j < self.base_len + k), same_ref(fr.at(j), elem(values, j - self.base_len)))
        # the same invariant instantiated at position 0 (the element the guard compares against)
        z = self.base_len
        if self.base is None:
            el = And(el, Implies(Sym.lift(k) > 0, same_ref(fr.at(z), elem(values, 0))))
        if self.base is not None:
            el = And(el, Implies(And(j >= 0, j < self.base_len), same_ref(fr.at(j), self.base.at(j))),
                     Implies(Sym.lift(self.base_len) > 0, same_ref(fr.at(0), self.base.at(0))),
                     Implies(And(eq(self.base_len, 0), Sym.lift(k) > 0), same_ref(fr.at(0), elem(values, 0))))
        return And(eq(ln, self.base_len + k), el)


def install_extend_loop(vc, h, kidx, base_len=0, base=None, pre_elem=None):
    spec = ExtendLoop(vc, h, kidx, base_len=base_len, base=base, pre_elem=pre_elem)
    vc.interp.loop_specs[('_collections_abc:MutableSequence.extend', 0)] = spec
    return spec


@contract('C18', 'getitem_index_array', functions=[CAD + '.__getitem__', CAD + '.__init__', CAD + '._check'])
def getitem_index_array(vc):
    c, h, old, n = cadence_pre(vc)
    form = ('list', 'ndarray', 'tuple')[vc.choose(3, 'index-form')]
    ka = Int('ka')
    if form == 'ndarray':
        m = Int('m')
        vc.assume(m >= 0)
        idx = symbolic_array('idx', (m,), 'int')
        sel = lambda k: idx.at((k,))
        # precondition: every index valid (numpy raises IndexError otherwise); instantiated at k and 0
        valid = lambda k: And(sel(k) >= -n, sel(k) < n)
        key = idx
    else:
        i0, i1 = Int('i0'), Int('i1')
        m = 2
        sel = lambda k: sym_if(eq(k, 0), i0, i1)
        valid = lambda k: And(sel(k) >= -n, sel(k) < n)
        vc.assume(And(valid(0), valid(1)))
        key = [i0, i1] if form == 'list' else (i0, i1)
    pos = lambda k: sym_if(sel(k) < 0, sel(k) + n, sel(k))
    install_extend_loop(vc, h, ka, pre_elem=lambda k: And(valid(k), valid(0), consistent(h, old.at(pos(k)), old.at(0)), consistent(h, old.at(pos(0)), old.at(0))))
    w0 = len(h.writes)
    out = vc.call(CAD + '.__getitem__', c, key)
    vc.cover('reachable')
    vc.ensure(f'C18/__getitem__/{form}/exc/none', out.ok)
    vc.ensure(f'C18/__getitem__/{form}/frame/no-frame-field-written', len(h.writes) == w0, note=str(h.writes[w0:][:4]))
    if not out.ok:
        return
    rv = view_of(out.value)
    vc.ensure(f'C18/__getitem__/{form}/post/length', eq(rv.length, m))
    vc.ensure(f'C18/__getitem__/{form}/post/elements-by-identity-in-order',
              Implies(And(ka >= 0, ka < m, valid(ka)), same_ref(rv.at(ka), old.at(pos(ka)))))
    unchanged(vc, f'__getitem__/{form}', c, old, n)


def guard_outcome(vc, tag, out, h, v, old, n, c):
    """The consistency guard (property): non-frame -> TypeError, inconsistent frame -> AttributeError, not added."""
    isf = h.read('__isinstance__', v.ref_id)
    agrees = And(*[eq(h.read(a, v.ref_id), h.read(a, old.at(0).ref_id)) for a in ATTRS])
    acceptable = And(isf, Or(eq(n, 0), agrees))
    if out.ok:
        vc.ensure(f'C18/{tag}/post/guard-accepts-only-consistent-frames', acceptable)
    elif out.exc == 'TypeError':
        vc.ensure(f'C18/{tag}/exc/TypeError-iff-not-a-frame', Not(isf))
        unchanged(vc, tag + '/TypeError', c, old, n)
    elif out.exc == 'AttributeError':
        vc.ensure(f'C18/{tag}/exc/AttributeError-iff-inconsistent', And(isf, n > 0, Not(agrees)))
        unchanged(vc, tag + '/AttributeError', c, old, n)
    return acceptable


@contract('C18', 'setitem', functions=[CAD + '.__setitem__', CAD + '._check'])
def setitem(vc):
    c, h, old, n = cadence_pre(vc)
    i, k = Int('i'), Int('k')
    v = new_frame_ref(vc, h)
    out = vc.call(CAD + '.__setitem__', c, i, v)
    valid, pos = py_index(i, n)
    vc.cover('reachable')
    if out.ok or out.exc in ('TypeError', 'AttributeError'):
        guard_outcome(vc, '__setitem__', out, h, v, old, n, c)
    if out.ok:
        nv = view_of(c)
        vc.ensure('C18/__setitem__/post/accepts-only-valid-index', valid)
        vc.ensure('C18/__setitem__/post/list-semantics', And(eq(nv.length, n), Implies(And(k >= 0, k < n), same_ref(nv.at(k), sym_if(eq(k, pos), v, old.at(k))))))
    elif out.exc == 'IndexError':
        vc.ensure('C18/__setitem__/exc/IndexError-iff-out-of-range', Not(valid))
        unchanged(vc, '__setitem__/IndexError', c, old, n)
    elif out.exc not in ('TypeError', 'AttributeError'):
        vc.ensure('C18/__setitem__/exc/no-other-exception', False)


@contract('C18', 'delitem', functions=[CAD + '.__delitem__'])
def delitem(vc):
    c, h, old, n = cadence_pre(vc)
    i, k = Int('i'), Int('k')
    out = vc.call(CAD + '.__delitem__', c, i)
    valid, pos = py_index(i, n)
    vc.cover('reachable')
    if out.ok:
        nv = view_of(c)
        vc.ensure('C18/__delitem__/post/accepts-only-valid-index', valid)
        vc.ensure('C18/__delitem__/post/list-semantics', And(eq(nv.length, n - 1), Implies(And(k >= 0, k < n - 1), same_ref(nv.at(k), sym_if(k < pos, old.at(k), old.at(k + 1))))))
    else:
        vc.ensure('C18/__delitem__/exc/IndexError-iff-out-of-range', And(out.exc == 'IndexError', Not(valid)))
        unchanged(vc, '__delitem__', c, old, n)


def inserted_view(vc, tag, c, old, n, pos, v):
    k = Int('k')
    nv = view_of(c)
    vc.ensure(f'C18/{tag}/post/list-semantics',
              And(eq(nv.length, n + 1), Implies(And(k >= 0, k <= n), same_ref(nv.at(k), sym_if(k < pos, old.at(k), sym_if(eq(k, pos), v, old.at(k - 1)))))))


@contract('C18', 'insert_append', functions=[CAD + '.insert', CAD + '._check', '_collections_abc:MutableSequence.append'])
def insert_append(vc):
    c, h, old, n = cadence_pre(vc)
    v = new_frame_ref(vc, h)
    which = vc.choose(2, 'op')
    if which == 0:
        i = Int('i')
        out = vc.call(CAD + '.insert', c, i, v)
        pos, tag = py_insert_pos(i, n), 'insert'
    else:
        out = vc.run(lambda: vc.interp.call(vc.interp.getattr(c, 'append'), [v], {}))
        pos, tag = n, 'append'
    vc.cover('reachable')
    if not out.ok and out.exc not in ('TypeError', 'AttributeError'):
        vc.ensure(f'C18/{tag}/exc/no-other-exception', False)
        return
    guard_outcome(vc, tag, out, h, v, old, n, c)
    if out.ok:
        inserted_view(vc, tag, c, old, n, pos, v)


@contract('C18', 'pop', functions=['_collections_abc:MutableSequence.pop', CAD + '.__getitem__', CAD + '.__delitem__'])
def pop(vc):
    c, h, old, n = cadence_pre(vc)
    default = bool(vc.choose(2, 'default-index'))
    i, k = Int('i'), Int('k')
    args = [] if default else [i]
    ii = -1 if default else i
    out = vc.run(lambda: vc.interp.call(vc.interp.getattr(c, 'pop'), args, {}))
    valid, pos = py_index(Sym.lift(ii), n)
    vc.cover('reachable')
    if out.ok:
        nv = view_of(c)
        vc.ensure('C18/pop/post/returns-element', And(valid, same_ref(out.value, old.at(pos))))
        vc.ensure('C18/pop/post/list-semantics', And(eq(nv.length, n - 1), Implies(And(k >= 0, k < n - 1), same_ref(nv.at(k), sym_if(k < pos, old.at(k), old.at(k + 1))))))
    else:
        vc.ensure('C18/pop/exc/IndexError-iff-out-of-range', And(out.exc == 'IndexError', Not(valid)))
        unchanged(vc, 'pop', c, old, n)


@contract('C18', 'extend_and_init', functions=['_collections_abc:MutableSequence.extend', CAD + '.__init__', CAD + '.insert', CAD + '._check'])
def extend(vc):
    """extend on an arbitrary cadence with an arbitrary offered list: elements are appended in order; the first
    offered element that fails the guard raises and everything before it stays (exceptional exit of the loop)."""
    c, h, old, n = cadence_pre(vc)
    vals = fresh_list('values', h)
    m = vals.length
    ka = Int('ka')
    spec = install_extend_loop(vc, h, ka, base_len=n, base=old)
    out = vc.run(lambda: vc.interp.call(vc.interp.getattr(c, 'extend'), [vals], {}))
    nv = view_of(c)
    vc.cover('reachable')
    if out.ok:
        vc.ensure('C18/extend/post/list-semantics',
                  And(eq(nv.length, n + m), Implies(And(ka >= 0, ka < n + m), same_ref(nv.at(ka), sym_if(ka < n, old.at(ka), vals.at(ka - n))))))
    else:
        vc.ensure('C18/extend/exc/only-guard-exceptions', Or(out.exc == 'TypeError', out.exc == 'AttributeError'))
        # the rejected object is not added; the elements before it are (prefix of the offered list)
        added = nv.length - n
        vc.ensure('C18/extend/exc-post/prefix-kept-rejected-not-added',
                  And(added >= 0, added < m, Implies(And(ka >= 0, ka < n + added), same_ref(nv.at(ka), sym_if(ka < n, old.at(ka), vals.at(ka - n))))))


@contract('C18', 'init_from_list', functions=[CAD + '.__init__', '_collections_abc:MutableSequence.extend'])
def init_from_list(vc):
    h = frame_heap(vc)
    vals = fresh_list('values', h)
    m = vals.length
    ka = Int('ka')
    install_extend_loop(vc, h, ka)
    cls = classref(vc, CAD)
    out = vc.run(lambda: vc.interp.call(cls, [vals], {}))
    vc.cover('reachable')
    if out.ok:
        nv = view_of(out.value)
        vc.ensure('C18/__init__/post/contains-exactly-the-offered-frames', And(eq(nv.length, m), Implies(And(ka >= 0, ka < m), same_ref(nv.at(ka), vals.at(ka)))))
    else:
        vc.ensure('C18/__init__/exc/only-guard-exceptions', Or(out.exc == 'TypeError', out.exc == 'AttributeError'))
    e = vc.run(lambda: vc.interp.call(cls, [], {}))
    vc.ensure('C18/__init__/post/empty-by-default', And(e.ok, eq(I.seq_length(view_of(e.value)) if e.ok else -1, 0)))


def ordered_pre(vc):
    c, h, old, n = cadence_pre(vc, ordered=True)
    return c, h, old, n, c.fields['order']


def label_clause(vc, tag, h, v, had_label, old_label, order, pos):
    lab = h.read('metadata.val.order_label', v.ref_id)
    has = h.read('metadata.has.order_label', v.ref_id)
    vc.ensure(f'C18/{tag}/post/unlabelled-frame-gets-label-at-insertion-position',
              And(has, sym_if(had_label, eq(lab.code, old_label.code), eq(lab.code, order.label(pos).code))))


@contract('C18', 'ordered_insert', functions=[OCAD + '.insert', CAD + '._check', 'setigen.frame:Frame.add_metadata'])
def ordered_insert(vc):
    c, h, old, n, order = ordered_pre(vc)
    v = new_frame_ref(vc, h)
    i = Int('i')
    had = h.read('metadata.has.order_label', v.ref_id)
    oldlab = h.read('metadata.val.order_label', v.ref_id)
    pos = py_insert_pos(i, n)
    vc.assume(Or(had, pos < order.length))       # the order string covers the insertion position (derived from use)
    out = vc.call(OCAD + '.insert', c, i, v)
    vc.cover('reachable')
    if not out.ok and out.exc not in ('TypeError', 'AttributeError'):
        vc.ensure('C18/ordered-insert/exc/no-other-exception', False)
        return
    guard_outcome(vc, 'ordered-insert', out, h, v, old, n, c)
    if out.ok:
        inserted_view(vc, 'ordered-insert', c, old, n, pos, v)
        label_clause(vc, 'ordered-insert', h, v, had, oldlab, order, pos)


@contract('C18', 'ordered_setitem', functions=[OCAD + '.__setitem__', CAD + '._check', 'setigen.frame:Frame.add_metadata'])
def ordered_setitem(vc):
    c, h, old, n, order = ordered_pre(vc)
    v = new_frame_ref(vc, h)
    i, k = Int('i'), Int('k')
    had = h.read('metadata.has.order_label', v.ref_id)
    oldlab = h.read('metadata.val.order_label', v.ref_id)
    valid, pos = py_index(i, n)
    vc.assume(Implies(valid, Or(had, pos < order.length)))
    out = vc.call(OCAD + '.__setitem__', c, i, v)
    vc.cover('reachable')
    if out.ok:
        guard_outcome(vc, 'ordered-setitem', out, h, v, old, n, c)
        nv = view_of(c)
        vc.ensure('C18/ordered-setitem/post/list-semantics', And(valid, eq(nv.length, n), Implies(And(k >= 0, k < n), same_ref(nv.at(k), sym_if(eq(k, pos), v, old.at(k))))))
        label_clause(vc, 'ordered-setitem', h, v, had, oldlab, order, pos)
    elif out.exc in ('TypeError', 'AttributeError'):
        guard_outcome(vc, 'ordered-setitem', out, h, v, old, n, c)
    else:
        vc.ensure('C18/ordered-setitem/exc/IndexError-iff-out-of-range', And(out.exc == 'IndexError', Not(valid)))
        unchanged(vc, 'ordered-setitem/IndexError', c, old, n)


class SetOrderLoop:
    def __init__(self, vc, h, order, j):
        self.vc, self.h, self.order, self.j = vc, h, order, j

    def havoc(self, interp, env, k, phase):
        # labels of all frames are rewritten by the loop: havoc the label map
        self.h.fields.pop('metadata.val.order_label', None)
        self.h.fields.pop('metadata.has.order_label', None)
        self.h.name = self.h.name + '_h'
        env.vars.pop('fr', None)
        env.vars.pop('i', None)
        if phase == 'pres':
            # distinct list positions hold distinct frame objects (a frame appears once in a cadence)
            me = env.get('self')
            fr = me.fields['frames']
            self.vc.assume(Implies(And(self.j >= 0, self.j < k), Not(same_ref(fr.at(self.j), fr.at(k)))))

    def inv(self, interp, env, k):
        me = env.get('self')
        fr = me.fields['frames']
        j = self.j
        r = fr.at(j)
        return Implies(And(j >= 0, j < k), And(self.h.read('metadata.has.order_label', r.ref_id),
                                               eq(self.h.read('metadata.val.order_label', r.ref_id).code, me.fields['order'].label(j).code)))


@contract('C18', 'set_order', functions=[OCAD + '.set_order', 'setigen.frame:Frame.add_metadata'],
          note="set_order: distinct positions are assumed to hold distinct frame objects")
def set_order(vc):
    c, h, old, n, order = ordered_pre(vc)
    same = bool(vc.choose(2, 'same-order-string-again'))
    if same:
        # set_order with the order the cadence already has: the labels may be stale (after deletions / inserts) and must be rewritten all the same
        new_order = order
    else:
        new_order = OrderStr()
        new_order.length = Int('new_order_len')
        new_order.f = z3.Function('new_order_char', z3.IntSort(), z3.IntSort())
    vc.assume(new_order.length >= n)
    j = Int('j')
    vc.interp.loop_specs[(OCAD + '.set_order', 0)] = SetOrderLoop(vc, h, new_order, j)
    out = vc.call(OCAD + '.set_order', c, new_order)
    vc.cover('reachable')
    vc.ensure('C18/set_order/exc/none', out.ok)
    if out.ok:
        r = view_of(c).at(j)
        vc.ensure('C18/set_order/post/position-i-labelled-order[i]',
                  Implies(And(j >= 0, j < n), eq(h.read('metadata.val.order_label', r.ref_id).code, new_order.label(j).code)))
        unchanged(vc, 'set_order', c, old, n)


@contract('C18', 'by_label', functions=[OCAD + '.by_label', CAD + '.__init__', CAD + '.__getitem__', CAD + '.__len__'])
def by_label(vc):
    c, h, old, n, order = ordered_pre(vc)
    Lb = Opaque('label', Int('wanted_label'))
    ka, i = Int('ka'), Int('i')
    # every member of an ordered cadence carries a label and is a consistent frame (OK(c)), as forall-preconditions
    vc.assume_forall(lambda k: Implies(And(k >= 0, k < n), And(h.read('metadata.has.order_label', old.at(k).ref_id), consistent(h, old.at(k), old.at(0)))))
    okat = lambda t: Implies(And(t >= 0, t < n), And(h.read('metadata.has.order_label', old.at(t).ref_id), consistent(h, old.at(t), old.at(0))))
    spec = install_extend_loop(vc, h, ka, pre_elem=lambda k, values: And(okat(values.sel(k)), okat(values.sel(0))) if isinstance(values, I.FilteredSeq) else True)
    out = vc.call(OCAD + '.by_label', c, Lb)
    vc.cover('reachable')
    vc.ensure('C18/by_label/exc/none', out.ok)
    if not out.ok:
        return
    rv = view_of(out.value)
    if eq(n, 0) is True or vc.interp.branch(eq(n, 0)):
        vc.ensure('C18/by_label/post/empty-cadence-gives-empty', eq(I.seq_length(rv), 0))
        return
    fs = spec.values          # the filtered sequence the real code built (library spec of a filtering comprehension)
    vc.ensure('C18/by_label/post/is-a-filtered-comprehension', isinstance(fs, I.FilteredSeq))
    lab = lambda r: h.read('metadata.val.order_label', r.ref_id)
    s_ka, s_ka1 = fs.sel(ka), fs.sel(ka + 1)
    vc.ensure('C18/by_label/post/count', eq(rv.length, fs.count))
    vc.ensure('C18/by_label/post/only-frames-with-that-label',
              Implies(And(ka >= 0, ka < rv.length), And(same_ref(rv.at(ka), old.at(s_ka)), s_ka >= 0, s_ka < n, eq(lab(old.at(s_ka)).code, Lb.code))))
    vc.ensure('C18/by_label/post/in-cadence-order', Implies(And(ka >= 0, ka + 1 < rv.length), s_ka < s_ka1))
    p = fs.inv(i)
    has_lab = And(i >= 0, i < n, eq(lab(old.at(i)).code, Lb.code))
    vc.ensure('C18/by_label/post/every-frame-with-that-label-is-selected/position', Implies(has_lab, And(p >= 0, p < rv.length)))
    # ka is universally quantified, so this holds in particular for ka = p (instantiation of the loop invariant at p)
    vc.ensure('C18/by_label/post/every-frame-with-that-label-is-selected/identity', Implies(And(has_lab, eq(ka, p)), same_ref(rv.at(ka), old.at(i))))
    unchanged(vc, 'by_label', c, old, n)


@contract('C18', 'aggregates', functions=[CAD + '.tchans', CAD + '.obs_range', CAD + '.slew_times', CAD + '.t_start', CAD + '.fchans', CAD + '.df', CAD + '.dt',
                                           'setigen.frame:Frame.t_stop'])
def aggregates(vc):
    c, h, old, n = cadence_pre(vc)
    empty = bool(vc.choose(2, 'empty'))
    vc.assume(eq(n, 0) if empty else n >= 1)
    g = lambda name: vc.run(lambda: vc.interp.getattr(c, name))
    tstop = lambda r: h.read('t_start', r.ref_id) + h.read('tchans', r.ref_id) * h.read('dt', r.ref_id)
    if empty:
        for name in ('tchans', 'obs_range', 't_start', 'fchans', 'df', 'dt', 'fmin', 'fch1'):
            o = g(name)
            vc.ensure(f'C18/{name}/post/None-iff-empty', And(o.ok, o.value is None))
        return
    o = g('tchans')
    want = L.sum_term(n, lambda k: h.read('tchans', old.at(k).ref_id))
    vc.ensure('C18/tchans/post/sum-of-member-tchans', And(o.ok, eq(o.value, want)))
    o = g('obs_range')
    vc.ensure('C18/obs_range/post/last-stop-minus-first-start', And(o.ok, eq(o.value, tstop(old.at(n - 1)) - h.read('t_start', old.at(0).ref_id))))
    o = g('slew_times')
    vc.ensure('C18/slew_times/exc/none', o.ok)
    if o.ok:
        k = Int('k')
        st = o.value
        vc.ensure('C18/slew_times/post/len-1-entries', And(st.ndim == 1, eq(st.shape[0], n - 1)))
        vc.ensure('C18/slew_times/post/start-minus-previous-stop',
                  Implies(And(k >= 0, k < n - 1), eq(st.at((k,)), h.read('t_start', old.at(k + 1).ref_id) - tstop(old.at(k)))))
    for name, fld in (('t_start', 't_start'), ('fchans', 'fchans'), ('df', 'df'), ('dt', 'dt')):
        o = g(name)
        vc.ensure(f'C18/{name}/post/first-frame', And(o.ok, eq(o.value, h.read(fld, old.at(0).ref_id))))
