"""C09 - quantisers: monotone affine maps into the signed b-bit range, stated refresh schedule."""
from fractions import Fraction
from .common import *

PROP_LEVEL['C09'] = 'proof'
PROP_TRUSTED['C09'] = [
    "np.around = round-half-even, np.clip, astype(int) exact on integer-valued floats; np.mean/np.std as Sum terms",
    "num_bits enumerated over 2..8 (the signed b-bit formats the property speaks of)",
    "zero variance is proved over the reals; the float behaviour of np.std on constant arrays is only probed (bounded)",
]
PROP_EXPLANATION['C09'] = "pointwise formula/range/monotonicity of quantize_real, estimate_stats, refresh schedule as two-state invariant, complex = 2 x real"

Q = 'setigen.voltage.quantization'
RQ = Q + ':RealQuantizer'
CQ = Q + ':ComplexQuantizer'


def spec_q(x, m, ds, tm, ts, b):
    f = sym_if(eq(ds, 0), 0, ts / ds) if not is_conc(ds) else (0 if ds == 0 else ts / ds)
    y = f * (x - m) + tm
    return smin(smax(round_half_even(y), -2 ** (b - 1)), 2 ** (b - 1) - 1), y, f


@contract('C09', 'quantize_real', functions=[Q + ':quantize_real'])
def quantize_real(vc):
    b = 2 + vc.choose(7, 'num_bits')
    n = Int('n')
    vc.assume(n >= 1)
    x = symbolic_array('x', (n,))
    m, ds, tm, ts = Real('data_mean'), Real('data_std'), Real('target_mean'), Real('target_std')
    vc.assume(And(ds >= 0, ts >= 0))
    # "for every input" includes huge finite samples: the float -> int64 cast must only ever see values already clipped to the code range
    vc.check_int_overflow = True
    out = vc.call(Q + ':quantize_real', x, target_mean=tm, target_std=ts, num_bits=b, data_mean=m, data_std=ds)
    vc.check_int_overflow = False
    vc.cover('reachable')
    vc.ensure('C09/quantize_real/exc/none', out.ok)
    if not out.ok:
        return
    q = out.value
    i, j = Int('i'), Int('j')
    inr = And(i >= 0, i < n, j >= 0, j < n)
    qi, yi, f = spec_q(x.at((i,)), m, ds, tm, ts, b)
    vc.ensure('C09/quantize_real/post/shape', And(q.ndim == 1, eq(q.shape[0], n)))
    vc.ensure('C09/quantize_real/post/integer-typed', q.dtype == 'int')
    vc.ensure('C09/quantize_real/post/formula', Implies(inr, eq(q.at((i,)), qi)))
    vc.ensure('C09/quantize_real/post/range', Implies(inr, And(q.at((i,)) >= -2 ** (b - 1), q.at((i,)) <= 2 ** (b - 1) - 1)))
    vc.ensure('C09/quantize_real/post/zero-variance-maps-to-target-mean',
              Implies(And(inr, eq(ds, 0)), eq(q.at((i,)), smin(smax(round_half_even(tm), -2 ** (b - 1)), 2 ** (b - 1) - 1))))
    # monotone: lemma on the affine argument first (prompting the nonlinear step), then the rounded/clipped values
    _, yj, _ = spec_q(x.at((j,)), m, ds, tm, ts, b)
    vc.lemma('C09/quantize_real/lemma/affine-map-monotone', Implies(And(inr, x.at((i,)) <= x.at((j,))), And(f >= 0, yi <= yj)))
    vc.ensure('C09/quantize_real/post/non-decreasing', Implies(And(inr, x.at((i,)) <= x.at((j,))), q.at((i,)) <= q.at((j,))))


@contract('C09', 'estimate_stats', functions=['setigen.voltage.data_stream:estimate_stats'])
def estimate_stats(vc):
    n, N = Int('n'), Int('N')
    vc.assume(And(n >= 1, N >= 1))
    v = symbolic_array('v', (n,))
    out = vc.call('setigen.voltage.data_stream:estimate_stats', v, N)
    vc.ensure('C09/estimate_stats/exc/none', out.ok)
    if not out.ok:
        return
    mean, std = out.value
    c = smin(N, n)
    want_mean = L.sum_term(c, lambda k: v.at((k,))) / c
    vc.ensure('C09/estimate_stats/post/mean-of-at-most-N-leading-samples', eq(mean, want_mean))
    var = L.sum_term(c, lambda k: (v.at((k,)) - want_mean) * (v.at((k,)) - want_mean)) / c
    vc.lemma('C09/estimate_stats/lemma/same-mean', eq(mean, want_mean))
    # constant data (max == min) is reported with exactly zero deviation; otherwise the population deviation
    ptps = getattr(vc.interp, 'ptp_terms', [])
    is_const = eq(ptps[0][0], 0) if ptps else False
    vc.ensure('C09/estimate_stats/post/std-of-at-most-N-leading-samples', And(std >= 0, Or(eq(std * std, var), And(is_const, eq(std, 0)))))
    vc.ensure('C09/estimate_stats/post/nonconstant-data-uses-population-std', Implies(Not(is_const), eq(std * std, var)))


def real_quantizer(vc, prefix='', b=8):
    p, s = Int(prefix + 'period'), Int(prefix + 'indices')
    cm, cs = Real(prefix + 'cache_mean'), Real(prefix + 'cache_std')
    cache = [cm, cs]
    q = mkobj(vc, RQ, target_mean=Real(prefix + 'tm'), target_std=Real(prefix + 'ts'), target_fwhm=Real(prefix + 'fwhm'), num_bits=b,
              stats_cache=cache, stats_calc_indices=s, stats_calc_period=p, stats_calc_num_samples=Int(prefix + 'N'))
    vc.assume(And(q.fields['target_std'] >= 0, q.fields['stats_calc_num_samples'] >= 1, cs >= 0))
    return q, dict(p=p, s=s, cm=cm, cs=cs)


def sched_inv(k, p, s, c):
    """INV(k): calls since the last reset k >= 0; indices = k mod p (p > 0, ghost quotient c: k = c*p + s) / k (p <= 0)."""
    return And(k >= 0, s >= 0, c >= 0, sym_if(p > 0, And(s < p, eq(k, c * p + s)), eq(s, k)))


@contract('C09', 'real_quantizer_schedule', functions=[RQ + '.quantize', RQ + '._reset_cache', RQ + '.__init__', RQ + '.digitize'])
def schedule(vc):
    b = (4, 8)[vc.choose(2, 'num_bits')]
    custom = bool(vc.choose(2, 'custom_std'))
    q, P = real_quantizer(vc, b=b)
    p, s = P['p'], P['s']
    k = Int('k_calls')          # ghost: calls since the last _reset_cache
    cq = Int('c_quot')          # ghost: completed periods
    vc.assume(sched_inv(k, p, s, cq))
    n = Int('n')
    vc.assume(n >= 1)
    x = symbolic_array('x', (n,))
    cstd = Real('custom_std')
    vc.assume(cstd >= 0)
    via = ('quantize', 'digitize')[vc.choose(2, 'entry')]
    out = vc.call(RQ + '.' + via, q, x, custom_std=cstd if custom else None)
    vc.cover('reachable')
    vc.ensure('C09/RealQuantizer.quantize/exc/none', out.ok)
    if not out.ok:
        return
    F = q.fields
    refreshed = eq(s, 0)                       # what the code does: refresh iff indices == 0 on entry
    c = smin(F['stats_calc_num_samples'], n)
    est_mean = L.sum_term(c, lambda t: x.at((t,))) / c
    # property: refreshed on calls 0, p, 2p, ... (p > 0: k is a multiple of p) and only on the first call otherwise
    m = Int('m_any')
    vc.ensure('C09/RealQuantizer.quantize/post/refreshed-on-multiples-of-p', Implies(And(p > 0, refreshed), eq(k, cq * p)))
    vc.lemma('C09/RealQuantizer.quantize/lemma/multiples-below', Implies(And(p > 0, m <= cq), (m - cq) * p <= 0))
    vc.lemma('C09/RealQuantizer.quantize/lemma/multiples-above', Implies(And(p > 0, m >= cq + 1), (m - cq) * p >= p))
    vc.ensure('C09/RealQuantizer.quantize/post/not-refreshed-off-multiples-of-p', Implies(And(p > 0, Not(refreshed)), Not(eq(k, m * p))))
    vc.ensure('C09/RealQuantizer.quantize/post/nonpositive-period-refreshes-only-first-call', Implies(p <= 0, eq(refreshed, eq(k, 0))))
    vc.ensure('C09/RealQuantizer.quantize/post/cache-mean', eq(F['stats_cache'][0], sym_if(refreshed, est_mean, P['cm'])))
    vc.ensure('C09/RealQuantizer.quantize/post/cache-std-kept-unless-refresh', Implies(Not(refreshed), eq(F['stats_cache'][1], P['cs'])))
    s1 = F['stats_calc_indices']
    vc.ensure('C09/RealQuantizer.quantize/post/schedule-invariant-preserved',
              sched_inv(k + 1, p, s1, sym_if(And(p > 0, eq(s1, 0)), cq + 1, cq)))
    i = Int('i')
    ds = cstd if custom else F['stats_cache'][1]
    qi, _, _ = spec_q(x.at((i,)), F['stats_cache'][0], ds, F['target_mean'], F['target_std'], b)
    vc.ensure('C09/RealQuantizer.quantize/post/uses-cached-mean-and-std-or-custom-std', Implies(And(i >= 0, i < n), eq(out.value.at((i,)), qi)))
    vc.ensure('C09/RealQuantizer.quantize/frame/targets-unchanged', And(F['num_bits'] == b, eq(F['stats_calc_period'], p)))


@contract('C09', 'real_quantizer_reset_init', functions=[RQ + '._reset_cache', RQ + '.__init__', RQ + '._set_target_stats'])
def reset_init(vc):
    q, P = real_quantizer(vc)
    out = vc.call(RQ + '._reset_cache', q)
    vc.ensure('C09/_reset_cache/post/initial-schedule-state', And(out.ok, eq(q.fields['stats_calc_indices'], 0), q.fields['stats_cache'][0] is None, q.fields['stats_cache'][1] is None))
    vc.ensure('C09/_reset_cache/post/establishes-INV(0)', sched_inv(0, P['p'], q.fields['stats_calc_indices'], 0))
    cls = classref(vc, RQ)
    fw, per = Real('fwhm'), Int('per')
    o = vc.run(lambda: vc.interp.call(cls, [], dict(target_mean=Real('tm0'), target_fwhm=fw, num_bits=8, stats_calc_period=per, stats_calc_num_samples=Int('N0'))))
    vc.ensure('C09/RealQuantizer.__init__/exc/none', o.ok)
    if o.ok:
        F = o.value.fields
        vc.ensure('C09/RealQuantizer.__init__/post/initial-state', And(eq(F['stats_calc_indices'], 0), eq(F['stats_calc_period'], per), F['stats_cache'][0] is None))
        # target_std = fwhm / (2 sqrt(2 ln 2)): std * 2*sqrt(2*log 2) = fwhm
        two_s = 2 * sqrt(2 * L._log(2))
        vc.ensure('C09/RealQuantizer.__init__/post/target_std-from-fwhm', eq(F['target_std'] * two_s, fw))
    tm, ts = Real('ntm'), Real('nts')
    o2 = vc.call(RQ + '._set_target_stats', q, tm, ts)
    vc.ensure('C09/_set_target_stats/post', And(o2.ok, eq(q.fields['target_mean'], tm), eq(q.fields['target_std'], ts)))


@contract('C09', 'complex_quantizer', functions=[CQ + '.quantize', CQ + '._reset_cache', RQ + '.quantize'])
def complex_quantizer(vc):
    form = ('none', 'scalar', 'pair')[vc.choose(3, 'custom_stds')]
    qr, Pr = real_quantizer(vc, 'r_')
    qi, Pi = real_quantizer(vc, 'i_')
    c = mkobj(vc, CQ, quantizer_r=qr, quantizer_i=qi, stats_cache_r=[None, None], stats_cache_i=[None, None], num_bits=8)
    n = Int('n')
    vc.assume(n >= 1)
    v = symbolic_array('v', (n,), 'complex')
    s0, s1 = Real('s0'), Real('s1')
    vc.assume(And(s0 >= 0, s1 >= 0))
    cs = None if form == 'none' else (s0 if form == 'scalar' else [s0, s1])
    out = vc.call(CQ + '.quantize', c, v, custom_stds=cs)
    vc.cover('reachable')
    vc.ensure('C09/ComplexQuantizer.quantize/exc/none', out.ok)
    if not out.ok:
        return
    i = Int('i')
    inr = And(i >= 0, i < n)
    res = out.value.at((i,))
    dr = qr.fields['stats_cache'][1] if form == 'none' else s0
    di = qi.fields['stats_cache'][1] if form == 'none' else (s0 if form == 'scalar' else s1)
    wr, _, _ = spec_q(v.at((i,)).re, qr.fields['stats_cache'][0], dr, qr.fields['target_mean'], qr.fields['target_std'], 8)
    wi, _, _ = spec_q(v.at((i,)).im, qi.fields['stats_cache'][0], di, qi.fields['target_mean'], qi.fields['target_std'], 8)
    vc.ensure('C09/ComplexQuantizer.quantize/post/real-and-imag-independent', Implies(inr, And(eq(res.re, wr), eq(res.im, wi))))
    vc.ensure('C09/ComplexQuantizer.quantize/post/separate-estimates', And(c.fields['stats_cache_r'] is qr.fields['stats_cache'], c.fields['stats_cache_i'] is qi.fields['stats_cache'],
                                                                           qr.fields['stats_cache'] is not qi.fields['stats_cache']))
    o = vc.call(CQ + '._reset_cache', c)
    vc.ensure('C09/ComplexQuantizer._reset_cache/post', And(o.ok, eq(qr.fields['stats_calc_indices'], 0), eq(qi.fields['stats_calc_indices'], 0),
                                                            qr.fields['stats_cache'][0] is None, qi.fields['stats_cache'][0] is None))


@contract('C09', 'quantize_complex_fn', functions=[Q + ':quantize_complex', Q + ':quantize_real', 'setigen.voltage.data_stream:estimate_stats'])
def quantize_complex_fn(vc):
    n = Int('n')
    vc.assume(n >= 1)
    v = symbolic_array('v', (n,), 'complex')
    tm, ts = Real('tm'), Real('ts')
    vc.assume(ts >= 0)
    N = Int('N')
    vc.assume(N >= 1)
    out = vc.call(Q + ':quantize_complex', v, target_mean=tm, target_std=ts, num_bits=8, stats_calc_num_samples=N)
    vc.ensure('C09/quantize_complex/exc/none', out.ok)
    if not out.ok:
        return
    i = Int('i')
    r = out.value.at((i,))
    vc.ensure('C09/quantize_complex/post/range', Implies(And(i >= 0, i < n), And(r.re >= -128, r.re <= 127, r.im >= -128, r.im <= 127)))


@contract('C09', 'complex_quantizer_init', functions=[CQ + '.__init__', RQ + '.__init__'])
def complex_quantizer_init(vc):
    """Both component quantisers of a ComplexQuantizer are configured exactly like the complex quantiser itself: same target statistics,
    bit depth, refresh period and sample budget (a component left on a default would re-estimate on a different schedule)."""
    tm, fw, per, ns = Real('target_mean'), Real('target_fwhm'), Int('stats_calc_period'), Int('stats_calc_num_samples')
    b = (4, 8)[vc.choose(2, 'num_bits')]
    vc.assume(And(fw > 0, ns >= 1))
    out = vc.run(lambda: vc.interp.call(classref(vc, CQ), [], dict(target_mean=tm, target_fwhm=fw, num_bits=b, stats_calc_period=per, stats_calc_num_samples=ns)))
    vc.cover('reachable')
    vc.ensure('C09/ComplexQuantizer.__init__/exc/none', out.ok)
    if not out.ok:
        return
    F = out.value.fields
    for part in ('quantizer_r', 'quantizer_i'):
        G = F[part].fields
        vc.ensure(f'C09/ComplexQuantizer.__init__/post/{part}-configured-like-the-complex-quantiser',
                  And(eq(G['stats_calc_period'], per), eq(G['stats_calc_num_samples'], ns), eq(G['num_bits'], b), eq(G['target_mean'], tm), eq(G['target_fwhm'], fw),
                      eq(G['target_std'], F['target_std']), eq(G['stats_calc_indices'], 0), G['stats_cache'][0] is None and G['stats_cache'][1] is None))
    vc.ensure('C09/ComplexQuantizer.__init__/post/own-fields', And(eq(F['stats_calc_period'], per), eq(F['stats_calc_num_samples'], ns), eq(F['num_bits'], b), F['quantizer_r'] is not F['quantizer_i']))


@contract('C09', 'quantize_real_float_accuracy', functions=[Q + ':quantize_real'], mode='fp-relerr')
def quantize_real_fp(vc):
    """In floating point the rounded value must come from an argument that is accurate to a few ulps of |factor*(x - data_mean)| + |target_mean|:
    an unclipped output lies within 1/2 + that bound of the exact affine value, for every data mean (also one that is huge compared with the
    deviation - the subtraction x - data_mean must come first, fusing the mean into an offset cancels catastrophically)."""
    b = (4, 8)[vc.choose(2, 'num_bits')]
    x = symbolic_array('x', (1,))
    m, ds, tm, ts = Real('data_mean'), Real('data_std'), Real('target_mean'), Real('target_std')
    big = 10 ** 18
    x0 = x.at((0,))
    vc.assume(And(ds > Fraction(1, 10 ** 9), ds < 10 ** 9, ts > Fraction(1, 10 ** 3), ts < 10 ** 3, tm > -300, tm < 300, m > -big, m < big, x0 > -big, x0 < big))
    with fp(vc):
        out = vc.call(Q + ':quantize_real', x, target_mean=tm, target_std=ts, num_bits=b, data_mean=m, data_std=ds)
    vc.cover('reachable')
    vc.ensure('C09/quantize_real/fp/exc/none', out.ok)
    if not out.ok:
        return
    q = out.value.at((0,))
    ex = exact(lambda: (ts / ds) * (x0 - m) + tm)
    lo, hi = -2 ** (b - 1), 2 ** (b - 1) - 1
    bound = exact(lambda: Fraction(16, 2 ** 53) * (abs((ts / ds) * (x0 - m)) + abs(tm)))
    vc.ensure('C09/quantize_real/fp/unclipped-output-within-half-a-level-of-the-exact-affine-value',
              exact(lambda: Implies(And(ex >= lo + 1, ex <= hi - 1), And(q - ex <= Fraction(1, 2) + bound, ex - q <= Fraction(1, 2) + bound))))
