"""C19 - splitting utilities tile the band and the array exactly."""
import ast
from .common import *
from pyvc.heap import SList

PROP_LEVEL['C19'] = 'other'
PROP_TRUSTED['C19'] = [
    "blimpy.Waterfall(filename, f_start, f_stop, t_start, t_stop) is an external constructor: modelled as a record of the file header and the requested "
    "selection; that blimpy maps the frequency window [fch1 + i*s*df, fch1 + (i*s + fchans)*df] to file channels [i*s, i*s + fchans) is its contract, "
    "exercised by the bounded native run for many headers",
    "generators are executed eagerly into the list of yielded values (consumers here iterate them to the end without interleaved effects)",
    "split_array: the contract covers the tiling loops up to their exit; the trimming filters are covered by (a) the filter lambdas, extracted from the "
    "real source, characterising exactly the full-size tiles and (b) Python's filter() keeping exactly the elements satisfying the predicate, in order; "
    "the final packaging into an ndarray (object array when ragged) is covered by the bounded native run",
    "row/column of a list position j (j = r*C + c) are introduced as ghost functions with their defining instances at the positions the proof inspects",
]
PROP_EXPLANATION['C19'] = ("split_waterfall_generator: loop invariant over the channel window (piece count floor((nchans-fchans)/s)+1, i-th window frequencies, "
                           "leading integrations); consumers return one entry per piece; split_array: two nested loop invariants giving the row-major partition")

SU = 'setigen.split_utils'
SO = 'setigen.sample_from_obs'


# ---------------------------------------------------------------------------------------------------------------------
# split_waterfall_generator

class PiecesLoop:
    """while chan_start + fchans <= nchans: after i iterations chan_start = i*s and pieces 0..i-1 have been yielded."""

    def __init__(self, vc, P):
        self.vc, self.P = vc, P

    def piece(self, j):
        P = self.P
        a = P['fch1'] + (j * P['s']) * P['df']
        b = P['fch1'] + (j * P['s'] + P['fchans']) * P['df']
        return a, b

    def havoc(self, interp, env, k, phase):
        P = self.P
        env.set('chan_start', k * P['s'])
        for nm in ('f_start', 'f_stop', 'fmin', 'fmax', 'waterfall'):
            env.vars.pop(nm, None)
        self.old = env.yield_sink = SList(k, lambda j: ('piece', j))

    def inv(self, interp, env, k):
        P = self.P
        sink = env.yield_sink
        n = sink.length if isinstance(sink, SList) else len(sink)
        ok = And(eq(env.get('chan_start'), k * P['s']), eq(n, k), Implies(Sym.lift(k) >= 1, (k - 1) * P['s'] + P['fchans'] <= P['nchans']) if not is_conc(k) else True)
        if isinstance(sink, SList) and sink is getattr(self, 'old', None) and sink.mutations:
            # the element appended in this iteration is the k-1'th window with the requested integrations
            w = sink.at(k - 1)
            if not hasattr(w, 'fields'):
                return False
            sel = w.fields['selection']
            a, b = self.piece(k - 1)
            ok = And(ok, eq(sel['f_start'], smin(a, b)), eq(sel['f_stop'], smax(a, b)), eq(sel['t_start'], 0), eq(sel['t_stop'], P['tchans_eff']),
                     w.fields['filename'] == P['fn'])
        return ok

    def variant(self, interp, env):
        return self.P['nchans'] - env.get('chan_start') + 1


def _generator_inputs(vc):
    nchans, fchans, tt = Int('nchans'), Int('fchans'), Int('tchans_total')
    fch1, df = Real('fch1'), Real('foff')
    vc.assume(And(nchans >= 1, fchans >= 1, tt >= 1, Not(eq(df, 0))))
    sform = ('default', 'given')[vc.choose(2, 'f_shift')]
    tform = ('default', 'given')[vc.choose(2, 'tchans')]
    s = fchans if sform == 'default' else Int('f_shift')
    t = None if tform == 'default' else Int('tchans')
    if sform == 'given':
        vc.assume(s >= 1)
    if tform == 'given':
        vc.assume(t >= 1)
    P = dict(nchans=nchans, fchans=fchans, s=s, fch1=fch1, df=df, fn='obs.fil', tt=tt, t=t, tchans_eff=tt if t is None else t, sform=sform, tform=tform)
    vc.interp.blimpy_files = {'obs.fil': {'header': {'fch1': fch1, 'nchans': nchans, 'foff': df}, 'selection_shape': (tt, 1, nchans)}}
    return P


@contract('C19', 'split_waterfall_generator_pieces', functions=[SU + ':split_waterfall_generator'])
def generator_pieces(vc):
    P = _generator_inputs(vc)
    spec = PiecesLoop(vc, P)
    vc.interp.loop_specs[(SU + ':split_waterfall_generator', 0)] = spec
    kw = {}
    if P['sform'] == 'given':
        kw['f_shift'] = P['s']
    if P['t'] is not None:
        kw['tchans'] = P['t']
    out = vc.run(lambda: vc.interp.call_key(SU + ':split_waterfall_generator', 'obs.fil', P['fchans'], **kw).collect())
    vc.cover('reachable')
    if P['t'] is not None and not out.ok:
        vc.ensure('C19/split_waterfall_generator/exc/ValueError-only-when-more-integrations-than-the-file-has', And(out.exc == 'ValueError', P['t'] > P['tt']))
        return
    vc.ensure('C19/split_waterfall_generator/exc/none', And(out.ok, True if P['t'] is None else P['t'] <= P['tt']))
    if not out.ok:
        return
    pieces = out.value
    n = pieces.length if isinstance(pieces, SList) else len(pieces)
    nch, fc, s = P['nchans'], P['fchans'], P['s']
    want = sym_if(nch >= fc, (nch - fc) // s + 1, 0)
    vc.ensure('C19/split_waterfall_generator/post/piece-count-floor((nchans-fchans)/shift)+1', eq(n, want))
    # every yielded piece is the j-th window with the requested leading integrations: pieces appended inside the loop are covered by the
    # loop invariant (checked when appended); pieces yielded outside it (any shortcut path) are inspected here one by one
    if isinstance(pieces, list):
        for j, w in enumerate(pieces):
            sel = w.fields['selection'] if hasattr(w, 'fields') and 'selection' in w.fields else None
            a, b = spec.piece(j)
            ok = sel is not None and None not in (sel['f_start'], sel['f_stop'], sel['t_start'], sel['t_stop'])
            vc.ensure('C19/split_waterfall_generator/post/piece-outside-the-loop-is-the-j-th-window-with-the-requested-integrations',
                      And(eq(sel['f_start'], smin(a, b)), eq(sel['f_stop'], smax(a, b)), eq(sel['t_start'], 0), eq(sel['t_stop'], P['tchans_eff'])) if ok else False)


@contract('C19', 'distribution_lengths', functions=[SO + ':get_parameter_distributions', SO + ':get_mean_distribution'])
def distribution_lengths(vc):
    """One entry per piece: the consumers' loops append exactly once per yielded Waterfall."""
    which = ('get_parameter_distributions', 'get_mean_distribution')[vc.choose(2, 'function')]
    npieces = Int('pieces')
    vc.assume(npieces >= 0)
    seen = {}

    def gen_contract(interp, clo, args, kwargs):
        seen['args'] = (args, kwargs)
        return SList(npieces, lambda j: I.SObj(None, {'piece': j}, tag='Waterfall'))
    vc.interp.call_specs[SU + ':split_waterfall_generator'] = gen_contract
    vc.interp.call_specs['setigen.waterfall_utils:get_data'] = lambda interp, clo, args, kwargs: symbolic_array('piece_data', (Int('pt'), Int('pf')))
    vc.assume(And(Int('pt') >= 1, Int('pf') >= 1))
    names = ('x_mean_array', 'x_std_array', 'x_min_array') if which == 'get_parameter_distributions' else ('x_mean_array',)

    class Loop:
        def havoc(self, interp, env, k, phase):
            for nm in names:
                env.set(nm, SList(k, lambda j, nm=nm: Real(f'{nm}_{0}') * 0 + I.SFunc(nm).apply_scalar(j)))
            for nm in ('waterfall', 'clipped_data'):
                env.vars.pop(nm, None)

        def inv(self, interp, env, k):
            return And(*[eq(seq_len(env.get(nm)), k) for nm in names])
    vc.interp.loop_specs[(SO + ':' + which, 0)] = Loop()
    fch, tch, sh = Int('fchans'), Int('tchans'), Int('f_shift')
    out = vc.call(SO + ':' + which, 'obs.fil', fch, tchans=tch, f_shift=sh)
    vc.cover('reachable')
    vc.ensure(f'C19/{which}/exc/none', out.ok)
    if not out.ok:
        return
    a, kw = seen['args']
    vc.ensure(f'C19/{which}/pre@callsite/arguments-passed-through', And(a[0] == 'obs.fil', a[1] is fch, kw.get('tchans') is tch, kw.get('f_shift') is sh))
    res = out.value if which == 'get_parameter_distributions' else (out.value,)
    vc.ensure(f'C19/{which}/post/one-entry-per-piece', And(len(res) == len(names), *[And(r.ndim == 1, eq(r.shape[0], npieces)) for r in res]))


def seq_len(x):
    return x.length if isinstance(x, SList) else len(x)


# ---------------------------------------------------------------------------------------------------------------------
# split_array

def _tiling_inputs(vc):
    H, W, th, tw = Int('height'), Int('width'), Int('t_sample_num'), Int('f_sample_num')
    vc.assume(And(H >= 1, W >= 1, th >= 1, tw >= 1))
    R, C = Int('tile_rows'), Int('tile_cols')
    # R = ceil(H/th), C = ceil(W/tw) by their defining inequalities
    vc.assume(And(R >= 1, C >= 1, (R - 1) * th < H, H <= R * th, (C - 1) * tw < W, W <= C * tw))
    data = symbolic_array('data', (H, W))
    RO = z3.Function('row_of', z3.IntSort(), z3.IntSort())
    CO = z3.Function('col_of', z3.IntSort(), z3.IntSort())
    P = dict(H=H, W=W, th=th, tw=tw, R=R, C=C, data=data,
             row_of=lambda j: Sym(RO(Sym.lift(j).as_int()), 'int'), col_of=lambda j: Sym(CO(Sym.lift(j).as_int()), 'int'))

    def decomp(r, c):
        """ghost: position r*C + c is row r, column c (instance of the definition of row_of/col_of = divmod by C)."""
        j = r * C + c
        vc.assume(Implies(And(Sym.lift(c) >= 0, Sym.lift(c) < C, Sym.lift(r) >= 0), And(eq(P['row_of'](j), r), eq(P['col_of'](j), c))))
        return j
    P['decomp'] = decomp
    snap = data._snapshot()

    def tile(r, c):
        y0, y1 = r * th, smin((r + 1) * th, H)
        x0, x1 = c * tw, smin((c + 1) * tw, W)
        return SArr((y1 - y0, x1 - x0), lambda idx: snap((y0 + idx[0], x0 + idx[1])), 'real')
    P['tile'] = tile
    P['spec_list'] = lambda n: SList(n, lambda j: tile(P['row_of'](j), P['col_of'](j)))
    return P


def _same_tile(P, got, r, c):
    """got is the spec tile (r, c): same shape and same elements of data."""
    want = P['tile'](r, c)
    a, b = Int('ta'), Int('tb')
    if not isinstance(got, SArr) or got.ndim != 2:
        return False
    return And(eq(got.shape[0], want.shape[0]), eq(got.shape[1], want.shape[1]),
               Implies(And(a >= 0, a < want.shape[0], b >= 0, b < want.shape[1]), eq(got.at((a, b)), want.at((a, b)))))


def _list_ok(vc, P, lst, n, tag):
    """list has length n and its element at a generic position rj*C + cj < n is tile (rj, cj)."""
    rj, cj = Int('rj_' + tag), Int('cj_' + tag)
    vc.assume(And(rj >= 0, cj >= 0, cj < P['C']))
    jg = P['decomp'](rj, cj)
    ln = seq_len(lst)
    if not isinstance(lst, SList):
        if len(lst) != 1:
            return False
        return And(eq(n, 1), _same_tile(P, lst[0], 0, 0))
    return And(eq(ln, n), Implies(jg < n, _same_tile(P, lst.at(jg), rj, cj)))


class InnerLoop:
    """while x_in_bound: after m iterations in row r the last appended tile is (r, m)."""

    def __init__(self, vc, P, outer):
        self.vc, self.P, self.outer = vc, P, outer

    def state(self, env, m):
        P, r = self.P, self.outer.r
        env.set('x_start', m * P['tw'])
        env.set('x_stop', smin((m + 1) * P['tw'], P['W']))
        env.set('x_in_bound', smin((m + 1) * P['tw'], P['W']) < P['W'])
        env.set('split_data', P['spec_list'](r * P['C'] + m + 1))

    def havoc(self, interp, env, m, phase):
        self.vc.assume(m < self.P['C'])
        self.state(env, m)
        self.P['decomp'](self.outer.r, m + 1)
        if phase == 'exit':
            self.vc.cover('row-finished-reachable')
            # leaving the row: the column index is the last one
            self.vc.lemma('C19/split_array/lemma/inner-exit-is-the-last-column',
                          Implies(And(m >= 0, m < self.P['C'], Not(smin((m + 1) * self.P['tw'], self.P['W']) < self.P['W'])), eq(m, self.P['C'] - 1)))

    def inv(self, interp, env, m):
        P, r = self.P, self.outer.r
        n = r * P['C'] + m + 1
        return And(m < P['C'], eq(env.get('x_start'), m * P['tw']), eq(env.get('x_stop'), smin((m + 1) * P['tw'], P['W'])),
                   eq(Sym.lift(env.get('x_in_bound')), smin((m + 1) * P['tw'], P['W']) < P['W']),
                   eq(env.get('y_start'), r * P['th']), eq(env.get('y_stop'), smin((r + 1) * P['th'], P['H'])),
                   _list_ok(self.vc, P, env.get('split_data'), n, 'in'))

    def variant(self, interp, env):
        return self.P['W'] - env.get('x_stop') + 1


class OuterLoop:
    """while y_in_bound or x_in_bound: at the head of iteration r the first tile of row r has been appended."""

    def __init__(self, vc, P):
        self.vc, self.P = vc, P
        self.r = 0
        self.done = False

    def post(self, env, tag):
        """Loop postcondition: the list is the complete row-major partition."""
        P = self.P
        return _list_ok(self.vc, P, env.get('split_data'), P['R'] * P['C'], tag)

    def havoc(self, interp, env, r, phase):
        P = self.P
        self.r = r
        self.vc.assume(r < P['R'])
        P['decomp'](r, 0)
        P['decomp'](r + 1, 0)
        if phase == 'exit':
            # normal exit (test false at the head of iteration r): then r is the last row and there is one column,
            # so the r*C + 1 tiles recorded by the invariant are all R*C tiles.  The other exit is the break (on_break).
            ys, xs = smin((r + 1) * P['th'], P['H']), smin(P['tw'], P['W'])
            self.vc.lemma('C19/split_array/lemma/normal-exit-is-the-last-row-of-a-single-column',
                          Implies(And(r >= 0, r < P['R'], Not(ys < P['H']), Not(xs < P['W'])), And(eq(r, P['R'] - 1), eq(P['C'], 1))))
            self.vc.ensure('C19/split_array/loops/exit/complete-row-major-partition',
                           Implies(And(Not(ys < P['H']), Not(xs < P['W'])), eq(r * P['C'] + 1, P['R'] * P['C'])))
            self.vc.cover('normal-exit-reachable')
            self.done = True
            raise I.PathEnd()           # the tail (trim filters, packaging) is not executed symbolically - see PROP_TRUSTED
        env.set('y_start', r * P['th'])
        env.set('y_stop', smin((r + 1) * P['th'], P['H']))
        env.set('y_in_bound', smin((r + 1) * P['th'], P['H']) < P['H'])
        env.set('x_start', 0)
        env.set('x_stop', smin(P['tw'], P['W']))
        env.set('x_in_bound', smin(P['tw'], P['W']) < P['W'])
        env.set('split_data', P['spec_list'](r * P['C'] + 1))

    def inv(self, interp, env, r):
        P = self.P
        return And(r < P['R'], eq(env.get('y_start'), r * P['th']), eq(env.get('y_stop'), smin((r + 1) * P['th'], P['H'])),
                   eq(Sym.lift(env.get('y_in_bound')), smin((r + 1) * P['th'], P['H']) < P['H']),
                   eq(env.get('x_start'), 0), eq(env.get('x_stop'), smin(P['tw'], P['W'])),
                   eq(Sym.lift(env.get('x_in_bound')), smin(P['tw'], P['W']) < P['W']),
                   _list_ok(self.vc, P, env.get('split_data'), r * P['C'] + 1, 'out'))

    def on_break(self, interp, env, r):
        P = self.P
        self.vc.lemma('C19/split_array/lemma/break-is-in-the-last-row', Implies(And(r >= 0, r < P['R'], Not(smin((r + 1) * P['th'], P['H']) < P['H'])), eq(r, P['R'] - 1)))
        self.vc.cover('break-exit-reachable')
        self.vc.ensure('C19/split_array/loops/break/complete-row-major-partition', self.post(env, 'brk'))

    def variant(self, interp, env):
        return self.P['H'] - env.get('y_stop') + (self.P['W'] - env.get('x_stop')) + 1


@contract('C19', 'split_array_tiling', functions=[SU + ':split_array'])
def split_array_tiling(vc):
    P = _tiling_inputs(vc)
    shifts = ('default', 'equal-to-tile-size')[vc.choose(2, 'shifts')]
    outer = OuterLoop(vc, P)
    vc.interp.loop_specs[(SU + ':split_array', 0)] = outer
    vc.interp.loop_specs[(SU + ':split_array', 1)] = InnerLoop(vc, P, outer)
    kw = dict(f_sample_num=P['tw'], t_sample_num=P['th'])
    if shifts != 'default':
        kw.update(f_shift=P['tw'], t_shift=P['th'])
    P['decomp'](0, 0)
    out = vc.run(lambda: vc.interp.call_key(SU + ':split_array', P['data'], **kw))
    vc.cover('reachable')
    vc.ensure('C19/split_array/exc/none-before-the-loops-finish', out.ok)


@contract('C19', 'split_array_trim_predicates', functions=[SU + ':split_array'])
def trim_predicates(vc):
    """The two filter lambdas of split_array, extracted from the real source, hold exactly for the full-size tiles of the partition."""
    P = _tiling_inputs(vc)
    fi = vc.interp.lookup(SU + ':split_array')
    lams = [n for n in ast.walk(fi.node) if isinstance(n, ast.Lambda)]
    if len(lams) != 2:
        # the contract no longer matches the code's structure: undecided here (the bounded run still decides the trimming clause)
        raise Unsupported(f"split_array: expected the two trim filter predicates, found {len(lams)} lambda(s)")
    r, c = Int('r'), Int('c')
    vc.assume(And(r >= 0, r < P['R'], c >= 0, c < P['C']))
    t = P['tile'](r, c)
    glob = vc.interp.module_globals(fi.module)
    res = []
    for lam in lams:
        clo = I.Closure(lam, [{'t_sample_num': P['th'], 'f_sample_num': P['tw']}, glob], fi.module)
        res.append(Sym.lift(vc.interp.truth(vc.interp.call(clo, [t], {}))))
    vc.cover('reachable')
    full_h = (r + 1) * P['th'] <= P['H']
    full_w = (c + 1) * P['tw'] <= P['W']
    vc.ensure('C19/split_array/trim/t_trim-keeps-exactly-full-height-tiles', eq(res[0], full_h))
    vc.ensure('C19/split_array/trim/f_trim-keeps-exactly-full-width-tiles', eq(res[1], full_w))


@contract('C19', 'split_fil_writes_one_file_per_piece', functions=[SU + ':split_fil'])
def split_fil_writes(vc):
    """split_fil: exactly one write_to_fil call per yielded piece, piece i to the i-th returned name, in order; names are returned in order.
    (What blimpy puts into the file is outside the contract; an existing file must not change what is written.)"""
    npieces = Int('pieces')
    vc.assume(npieces >= 0)
    log = {'writes': 0, 'ordered': True, 'names': []}
    seen = {}

    def make_piece(j):
        w = I.SObj(None, {'piece': j}, tag='Waterfall')

        def write_to_fil(interp, fn, *a, **k):
            log['ordered'] = And(log['ordered'], eq(w.fields['piece'], log['writes'])) if not isinstance(log['ordered'], bool) or True else log['ordered']
            log['writes'] = log['writes'] + 1
            log['last_name'] = fn
            return None
        w.fields['write_to_fil'] = write_to_fil
        return w

    def gen_contract(interp, clo, args, kwargs):
        seen['args'] = (args, kwargs)
        return SList(npieces, make_piece)
    vc.interp.call_specs[SU + ':split_waterfall_generator'] = gen_contract
    vc.interp.lib['os.makedirs'] = lambda interp, *a, **k: None
    vc.interp.lib['os.path.exists'] = lambda interp, *a, **k: CTX.fresh('file_exists', 'bool')     # any earlier content of the directory

    class Loop:
        def havoc(self, interp, env, k, phase):
            env.set('split_fns', SList(k, lambda j: ('name', j)))
            log['writes'] = k
            for nm in ('i', 'waterfall', 'output_fn'):
                env.vars.pop(nm, None)

        def inv(self, interp, env, k):
            fns = env.get('split_fns')
            return And(eq(seq_len(fns), k), eq(log['writes'], k), log['ordered'])
    vc.interp.loop_specs[(SU + ':split_fil', 0)] = Loop()
    fch, tch, sh = Int('fchans'), Int('tchans'), Int('f_shift')
    out = vc.call(SU + ':split_fil', 'obs.fil', 'outdir', fch, tchans=tch, f_shift=sh)
    vc.cover('reachable')
    vc.ensure('C19/split_fil/exc/none', out.ok)
    if not out.ok:
        return
    a, kw = seen['args']
    vc.ensure('C19/split_fil/pre@callsite/arguments-passed-through', And(a[0] == 'obs.fil', a[1] is fch, kw.get('tchans') is tch, kw.get('f_shift') is sh))
    vc.ensure('C19/split_fil/post/one-write-per-piece-in-order-and-one-name-per-piece', And(eq(log['writes'], npieces), eq(seq_len(out.value), npieces), log['ordered']))
