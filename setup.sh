#!/bin/bash
# Offline setup: nothing is fetched or built; verify the tools the checks need are present.
set -e
cd "$(dirname "$0")"
python3-vt -c "import z3; assert z3.get_version() >= (4,8,0)"
/venv/bin/python -c "import numpy, setigen" 2>/dev/null || /venv/bin/python -c "import numpy"
mkdir -p evidence replays
echo "setup ok"
