#!/usr/bin/env python3
"""Regression over the seeded changes: apply each patch in a scratch worktree of /repo HEAD and run its property's quick check against it.
Records the outcome in seeded/<name>/meta.json under 'final_check' and prints one line per change.  Usage: reseed.py [parallel] [name-prefix]"""
import json, os, subprocess, sys, glob, shutil
from concurrent.futures import ThreadPoolExecutor
ROOT = os.path.dirname(os.path.dirname(os.path.abspath(__file__)))
par = int(sys.argv[1]) if len(sys.argv) > 1 else 3
pref = sys.argv[2] if len(sys.argv) > 2 else ''


def run(d):
    name = os.path.basename(d)
    prop = name.split('-')[0]
    wt = f'/tmp/reseed_{name}'
    subprocess.run(f'rm -rf {wt}; git -C /repo worktree prune; git -C /repo worktree add -q --detach {wt} HEAD', shell=True, capture_output=True)
    try:
        ap = subprocess.run(f'git -C {wt} apply {d}/patch.diff', shell=True, capture_output=True, text=True)
        if ap.returncode != 0:
            return name, 'PATCH-DOES-NOT-APPLY', 0, 0, []
        r = subprocess.run(['./check', prop, '--tier', 'quick'], cwd=ROOT, env=dict(os.environ, VERIF_REPO=wt, VERIF_SOLVER_MS='15000'), capture_output=True, text=True)
        vio = [l for l in r.stdout.splitlines() if l.startswith('VIOLATION')]
        ded = sum('/bounded_' not in l for l in vio)
        bnd = sum('/bounded_' in l for l in vio)
        other = [l[:160] for l in r.stdout.splitlines() if l.startswith(('ENGINE', 'UNDECIDED'))][:3]
        mf = os.path.join(d, 'meta.json')
        m = json.load(open(mf))
        m['final_check'] = {'property': prop, 'rc': r.returncode, 'deductive_violations': ded, 'bounded_violations': bnd, 'violations': vio[:6], 'other': other}
        json.dump(m, open(mf, 'w'), indent=1)
        return name, r.returncode, ded, bnd, other
    finally:
        subprocess.run(f'git -C /repo worktree remove --force {wt}', shell=True, capture_output=True)
        shutil.rmtree(wt, ignore_errors=True)


dirs = sorted(d for d in glob.glob(os.path.join(ROOT, 'seeded', '*')) if os.path.basename(d).startswith(pref))
missed = 0
with ThreadPoolExecutor(par) as ex:
    for name, rc, ded, bnd, other in ex.map(run, dirs):
        print(f'{name}: rc={rc} ded={ded} bnd={bnd} {other if other else ""}', flush=True)
        missed += rc != 1
print('NOT DETECTED:', missed, 'of', len(dirs))
