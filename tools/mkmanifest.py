#!/usr/bin/env python3
"""Regenerate MANIFEST.json from the table below (keeps it valid at all times)."""
import json, os, subprocess
ROOT = os.path.dirname(os.path.dirname(os.path.abspath(__file__)))
props = [json.loads(l) for l in open(os.path.join(ROOT, 'properties.jsonl'))]

CLAIMS = {
 'C20': dict(cat='proof', ref='DESIGN.md 2/C20',
   text="Every integer accounting clause of RawVoltageBackend.__init__ and the stand-alone helpers, and every float-to-int site "
        "(get_num_blocks, get_total_obs_num_samples, params_from_backend) in the rounding-error model, is a z3/cvc5-discharged "
        "obligation generated from the real source for all parameter values; a bounded native sweep (recordings of <= 6 tiny blocks) "
        "replays the clauses incl. total_obs_num_samples and the antenna clock on the real code. Also: record() on input data reports the clamped length; the integers a recording reports are exact in the floating-point model; the array clock advances by the samples delivered; from_backend_params uses all backend parameters.",
   note="trusted: pyvc engine + numpy/builtin axioms; fp-relerr standard model (no overflow, ints < 2^53); the record()-level clauses "
        "(clock advance, SCANLEN/PKTSTOP) are covered by the record contract shared with C02/C04 when present, else bounded only",
   technique="contract-based deductive verification: AST->z3 VC generation over the real functions (int + fp-relerr modes), cvc5 second opinion; bounded native replay"),
 'C05': dict(cat='proof', ref='DESIGN.md 2/C05',
   text="The frame invariant (uniform strictly increasing fs from fmin to fmax, fch1 per orientation, ts=i*dt, derived quantities) is a "
        "postcondition of the real Frame.__init__/from_data/from_backend_params proved at a symbolic channel/row for all sizes and both "
        "orientations; get_index nearest-channel and the index round trip (fp-relerr, fmin/df<=2^40, fchans<=2^26) are discharged; "
        "opposite-orientation frames have equal axes over the reals. Bounded native probe round-trips every channel in floats. Also: derived quantities follow a re-timed frame (t_stop), the preloaded array is copied (compared with the caller's array).",
   note="trusted: pyvc engine, np.linspace/np.round axioms, real-mode arithmetic; 'identical injected data' follows from C01's postcondition mentioning only fs/ts",
   technique="contract-based deductive verification (AST->z3 VCs, arrays as index functions, fp-relerr for the round trip); bounded native replay"),
 'C17': dict(cat='proof', ref='DESIGN.md 2/C17',
   text="get_slice, dedrift (row loop with an inductive invariant and a rounding-monotonicity lemma) and integrate/spectrum/timeseries are "
        "symbolically executed from the real source; every pixel/axis entry of the result equals the property's formula at a symbolic "
        "index, rates leaving no channels raise ValueError exactly when round(|d|*T*dt/df) >= fchans, derived frames inherit orientation, "
        "resolutions, start time and source name and hold a copy of the data. Bounded native reference loops replay the clauses.",
   note="trusted: pyvc engine, numpy axioms, Sum extensionality; sigma-clip normalisation branch and attached blimpy Waterfall (C03) not verified here",
   technique="contract-based deductive verification (AST->z3/cvc5 VCs with loop invariant + lemma); bounded native replay"),
 'C18': dict(cat='proof', ref='DESIGN.md 2/C18',
   text="Every list primitive of Cadence/OrderedCadence (construction, append/extend/pop via the stdlib mixins interpreted from source, insert, "
        "item assignment, deletion, int/slice/list/ndarray/tuple selection, labels, set_order, by_label, aggregates) is a Hoare triple over an "
        "arbitrary pre-state: `frames` is a list of symbolic length of references into a symbolic frame heap, the post-state is compared with "
        "CPython list semantics by reference identity at a fresh index, and the guard's exceptional postcondition (not added) is discharged. "
        "Induction over operations covers every history; a bounded native run compares random histories with a plain list.",
   note="trusted: pyvc engine (heap/list model), stdlib Sequence.__iter__ semantics for symbolic length, filter-comprehension library spec; set_order assumes distinct positions hold distinct frames",
   technique="contract-based deductive verification (Hoare triples over a symbolic heap and symbolic-length list, loop invariants for extend/set_order); bounded native replay"),
 'C09': dict(cat='proof', ref='DESIGN.md 2/C09',
   text="quantize_real's pointwise formula, signed b-bit range (b=2..8), integer type, monotonicity (with an affine-map lemma) and the "
        "zero-variance path; estimate_stats over at most N leading samples (Sum-term extensionality); the refresh schedule of "
        "RealQuantizer.quantize as a two-state invariant with ghost call counter (refresh exactly on calls 0,p,2p,.. / first call only); "
        "ComplexQuantizer = two independent real quantisers for all custom_stds forms - all discharged from the real source for arbitrary "
        "array length and state. Bounded native probe covers float behaviour incl. constant arrays. Also: the float->int64 cast only ever sees values already clipped to the code range (safety obligation, so huge samples saturate); ComplexQuantizer's components share its schedule and bit depth.",
   note="trusted: pyvc engine, numpy axioms (around half-even, clip, mean/std as Sum terms, ptp); reals for floats (zero-variance in floats is bounded-probe only)",
   technique="contract-based deductive verification (AST->z3/cvc5 VCs, two-state class invariant with ghost state, lemmas); bounded native replay"),
 'C10': dict(cat='proof', ref='DESIGN.md 2/C10',
   text="DataStream.get_samples/_update_t/add_* and Antenna are executed symbolically from the real source: sample k sits at t_start+k/sample_rate, "
        "the sum of noise (ghost generator stream), chirp closed form and custom (incl. complex) sources is proved at a symbolic sample, three "
        "consecutive requests of symbolic sizes equal the one-shot request segment by segment (same clock, same generator position), clock "
        "setters and update_noise restore/move the clock exactly, an antenna stacks x,y and keeps its clock equal to its streams'. "
        "Known finding F1 (two noise sources on one stream) is reported, not suppressed for other inputs. Also: an array returned by an earlier request is never written by a later one (ownership frame obligation).",
   note="trusted: pyvc engine; numpy Generator stream-splitting axiom (probed natively); real-mode time grid; cos uninterpreted; source loops unrolled for 2 noise + 3 signal sources",
   technique="contract-based deductive verification (AST->z3 VCs with ghost generator stream); bounded native replay"),
 'C15': dict(cat='proof', ref='DESIGN.md 2/C15',
   text="MultiAntennaArray.__init__/get_samples/set_time/add_time/reset_start are executed symbolically for 1-3 antennas x 1-2 polarisations with "
        "symbolic delays, request sizes and stream contents: for the first request and for a later request from an ARBITRARY state satisfying "
        "the cache invariant (N samples delivered, caches = last delay_i background samples) every output sample equals own(N+k) + "
        "background(N+k+max_delay-delay_i), the invariant is re-established (so every request sequence is covered by induction), omitted "
        "delays mean zero, and resetting clears the carried-over background. Bounded native run compares with a same-seed reference background. Ownership: a separate later-request contract builds each cache as a *view* of the background stream's previous buffer (the heap shape the code leaves) and carries the frame obligation that this buffer is never written by the next request.",
   note="trusted: pyvc engine; ghost generator stream model; antenna count enumerated 1..3 (stated, not hidden); one noise + one signal source per stream",
   technique="contract-based deductive verification (Hoare triples with a two-state cache invariant, ghost stream positions); bounded native replay"),
 'C08': dict(cat='proof', ref='DESIGN.md 2/C08',
   text="pfb_frontend's row loop carries an inductive invariant (row n = window-weighted sum of num_taps segments, real and complex input, "
        "any taps/branches/length); channelize is proved equal to the FIR+DFT definition (DFT as its defining sum) for the one-shot call and, as a "
        "Hoare triple from an arbitrary state satisfying the streaming invariant (cache = last taps*branches samples of everything fed), for any "
        "admissible chunk: the spectra emitted are exactly those of the whole stream at positions pos..pos+rows (none missing or repeated) and the "
        "invariant is re-established, which covers every chunk composition by induction. Linearity is a lemma over the definition.",
   note="trusted: pyvc engine; np.fft = DFT definition with uninterpreted twiddles (FFT numerics only in the bounded native run against a direct O(B^2) evaluation); firwin; linearity of finite sums",
   technique="contract-based deductive verification (loop invariant, two-state streaming invariant with ghost stream, Sum-term extensionality, modular call contract); bounded native replay"),
 'C01': dict(cat='proof', ref='DESIGN.md 2/C01',
   text="Frame.add_signal's 130-line body is executed symbolically path by path: for every combination of input forms (callable / array / "
        "scalar path and time profile, none / callable / array / scalar bandpass), bounded or not, every pixel of the returned array equals "
        "t_profile*f_profile*bandpass at a symbolic (i,j); with integrate_path / integrate_t_profile / doppler_smearing (all combinations, "
        "symbolic sub-sample counts, smearing loop with an inductive invariant) and with integrate_f_profile (with the time options) it equals "
        "the documented average over grids proved equal to ts[i]+k*dt/nt and fs[j]+k*df/nf, also for a shifted time axis; wrong lengths/types "
        "raise; profile factories have their closed forms. integrate_f_profile combined with smearing is covered by the bounded native "
        "per-pixel evaluator only (stated).",
   note="trusted: pyvc engine; user callables uninterpreted pointwise functions; reals for floats; numpy axioms (linspace, meshgrid, reshape, mean as Sum terms); F+S combination bounded only",
   technique="contract-based deductive verification (path-wise symbolic execution, Sum-term extensionality, loop invariant with sum unfolding, grid lemmas); bounded native per-pixel oracle"),
 'C06': dict(cat='proof', ref='DESIGN.md 2/C06',
   text="The modifies-clause of add_signal is discharged: data changes by exactly the returned signal (one in-place write of the slice), pixels "
        "outside [b0,b1) keep their value, no attribute of the frame is rebound, axes/noise estimates/metadata/random state unchanged (also with "
        "smearing); ranges that do not intersect the band inject nothing and raise nothing; bounded = unbounded restricted to the range; two "
        "successive injections add the sum of the separately computed signals in either order (over the reals). Also: injection through a cadence restores every time axis (C16's contract), frames built from an array own a copy (C05's contracts).",
   note="trusted: pyvc engine (aliasing by object identity, write counters); float summation order not modelled (reals); bit-for-bit clause replayed natively (tobytes equality)",
   technique="contract-based deductive verification (frame conditions, two-run relational lemmas); bounded native replay"),
 'C13': dict(cat='proof', ref='DESIGN.md 2/C13',
   text="add_constant_signal is verified against add_signal's contract: the arguments it passes (linear path, constant time profile, profile "
        "of the requested type and width for all five types, unit bandpass, smearing flag, smearing_subsamples = max(1, ceil(|drift|/unit))) "
        "are call-site obligations, and the bounding box it requests provably contains every pixel within width/2 of every (smeared) signal "
        "centre for drift of either sign or zero and any width > 0 (incl. sub-channel), both orientations; with C06's restriction lemma this "
        "gives equality with the general injection on the support and zero elsewhere. Also: unit_drift_rate = |df|/dt > 0 for frames built with a resolution of either sign and for frames loaded from files with negative foff.",
   note="trusted: pyvc engine; add_signal through its proved contract (C01/C06); wofz/exp/sinc uninterpreted",
   technique="contract-based deductive verification (modular call-site obligations, nonlinear coverage lemma); bounded native comparison with add_signal"),
 'C16': dict(cat='proof', ref='DESIGN.md 2/C16',
   text="Cadence.add_signal over a cadence of SYMBOLIC length (frames as references into a symbolic heap) carries an inductive invariant: at "
        "each call site the frame's time axis is its own axis shifted by its start time relative to the first frame, and on normal AND "
        "exceptional exit (user callback raising in any frame) every frame's time axis equals what it was; overwrite_times spaces consecutive "
        "frames by exactly the slew time (sequential loop invariant). Frame.add_signal is used through its C01 contract, which is proved for "
        "a shifted axis including the sub-sample grids. Also: single-frame injection on a shifted time axis (sub-sample grids, smearing end points from the frame's own ts) - C01's contract, discharged again. consolidate(): rows of every frame in cadence order and every frame's own sample times made absolute, for frames of different lengths (1-3 frames enumerated).",
   note="trusted: pyvc engine (heap model); (ts+o)-o = ts over the reals; overwrite_times assumes distinct positions hold distinct frames; consolidate is proved for 1-3 frames (enumerated) of arbitrary, different lengths",
   technique="contract-based deductive verification (loop invariants over a symbolic heap, exceptional postcondition, modular call contract); bounded native replay"),
 'C04': dict(cat='proof', ref='DESIGN.md 2/C04',
   text="Writer: format_header_line returns exactly 80 characters with the key in columns 0-7 for every valid card form (string-length model); "
        "_make_header writes one 80-byte card per entry + END + zero padding to 512 iff DIRECTIO != 0 and unaligned, for every card count "
        "(all residues mod 32) and DIRECTIO form, and advances PKTIDX; record() is verified with inductive invariants over the files loop and the "
        "blocks loop (symbolic block count and blocks-per-file): every file holds whole header+BLOCSIZE blocks, blocks-per-file at a time, PKTIDX "
        "advances per block, pipeline-owned fields equal the configuration for any incoming dictionary, user cards are kept. Readers: "
        "read_header (loop invariant over a symbolic-length header), get_blocks_in_file for DIRECTIO 0/1/absent, get_total_blocks for every "
        "directory listing order, from_data's header size - against the writer's layout. blimpy GuppiRaw agreement is bounded (native). Also: samples_per_block (the PKTIDX step) is the number of time samples BLOCSIZE bytes hold for every antenna/polarisation/bit-depth configuration (constructor contract); header cards with END-prefixed user keys.",
   note="trusted: pyvc engine; string-length and file-counter models; collect_data_block/_make_header used through contracts inside record(); one antenna in the record contract; blimpy agreement bounded",
   technique="contract-based deductive verification (loop invariants with ghost counters, modular call contracts, symbolic file layout); bounded native replay with an independent reader"),
 'C07': dict(cat='other', ref='DESIGN.md 2/C07',
   text="Deductive: recorded coarse channel c is centred at fch1+(start_chan+c)*chan_bw from the header record() writes (C04), "
        "get_raw_params(start_chan) reproduces fch1/bandwidth/orientation/counts, the quick-look reducer skips exactly the first header "
        "(DIRECTIO 0/1/absent), decodes x/y and applies the requested FFT length and integration factor, output shape of get_pfb_waterfall; a stream's constant "
        "signal is level*cos(+-2pi((f_start-fch1)t + drift t^2/2) +- phase) at every sample for both orientations (chirp law). "
        "NOT decidable here: that a tone peaks within one fine bin of f (a DFT theorem) and the per-column value of the fine channelisation "
        "(undecided within budget) - both carried by a bounded native run of the real pipeline. Also: the header written for antenna arrays (OBSBW spans one antenna's band), the stream's time axis is contiguous across requests and the antenna clock follows its streams (C10's contracts).",
   note="trusted: pyvc engine; header formulas proved in C04; tone localisation and fine-channel values bounded only (level 'other' for that reason)",
   technique="contract-based deductive verification for the header/reader clauses; bounded native pipeline runs for tone localisation"),
 'C02': dict(cat='proof', ref='DESIGN.md 2/C02',
   text="collect_data_block's sub-block loop (symbolic sub-block count, windows per block, branches, channels, first channel; taps in "
        "{1,2,3,8} (thorough: {1,2,3,4,5,8,16}); 1-2 pols; 8/4 bit; digitiser on/off; first or later block) carries an inductive invariant over ghost stream positions: "
        "each stage is called with exactly the next samples of its stream (call-site obligations against the C10/C09/C08 contracts), every "
        "(channel, time, polarisation, re/im) byte of the block equals the requantised spectrum at global position pos0+t of filterbank channel "
        "start_chan+c in GUPPI layout (4-bit: real high / imag low nibble), every value fits a signed byte, a block consumes exactly "
        "T*branches samples (+ one warm-up window), for every partition into sub-blocks incl. non-divisors. File/block loops of record(): C04. "
        "Bounded native run: bytes vs a straight-line reference pipeline and bit-identical output for every partition. Also: both component quantisers of the requantiser are configured with the backend's schedule (constructor contract).",
   note="trusted: pyvc engine; stage contracts proved under C08/C09/C10 and used modularly; one antenna in the deductive contract; num_taps enumerated; FFT numerics bounded",
   technique="contract-based deductive verification (loop invariant with ghost stream positions, affine scatter inversion, stepwise window-arithmetic lemmas); bounded native reference pipeline"),
 'C14': dict(cat='proof', ref='DESIGN.md 2/C14',
   text="_read_next_block decodes every (channel, time, polarisation) sample of an input block to exactly the stored pair in GUPPI layout for "
        "8 and 4 bit (unpack inverts the nibble packing), 1-2 pols, 1-2 antennas, and consumes exactly header+block bytes (header padded or "
        "not); collect_data_block with input data: the sub-block invariant of C02 extended with the input - every output sample is the "
        "requantisation of (input sample at the same (c,t,p) + synthetic sample requantised with zero mean and gain channelized_stds x "
        "digitiser target deviation), the gain passed is the same in every sub-block and the filterbank's channelized_stds are never "
        "modified (frame condition inside the loop invariant), target means restored; requantize=False is rejected. from_data: header "
        "size == the input's written header size for every card count (padded iff DIRECTIO != 0), same block size / bit depth / channel and block counts. Bounded native run: decode round trip, framing, flat added power per sub-block. Also: every requantiser of a from_data backend and both of its components use the input's bit depth (4- and 8-bit inputs). Also: every (antenna, polarisation) owns its digitiser / filterbank / requantiser objects; every estimate_channelized_stds call channelises fresh noise with its own filterbank; the requested length is clamped to the input and everything reported comes from the clamped count.",
   note="trusted: pyvc engine; input files follow the writer layout of C04; stage contracts modular; one antenna in the injection contract, taps enumerated; requantiser target statistics bounded only",
   technique="contract-based deductive verification (loop invariant incl. frame condition, modular stage contracts, symbolic file layout); bounded native replay"),
 'C11': dict(cat='other', ref='DESIGN.md 2/C11',
   text="Decided deductively from the real source: noise = chisquare(k) draws of the frame's own generator scaled by x_mean/k (k = 4*round(df*dt), "
        "proved under C05), the recorded deviation squared = 2*x_mean^2/k, Gaussian / truncated noise = x_mean + x_std*draw (max with the floor), the "
        "returned array is exactly what was added, the generator advances one draw per pixel, first noise on an empty frame sets the estimates to "
        "the parameters (else exactly one sigma-clipped re-estimate), table sampling uses table entries / one common index / IndexError on "
        "unequal lengths, intensity and SNR are mutually inverse and raise without noise, stream deviations add in quadrature incl. the shared "
        "background. NOT decidable by a contract: that numpy's samplers have the stated moments - an axiom here, probed by a bounded 6-sigma run. Also: the constructor sets k = 4*round(df*dt) for every construction route (C05's constructor contract, discharged again). Also: a frame constructed around existing data starts with the sigma-clipped statistics of that data.",
   note="level 'other': the headline distributional clause is probabilistic and about a third-party sampler; everything else is discharged",
   technique="contract-based deductive verification for formulas/bookkeeping (ghost generator stream); bounded statistical run for the distributions"),
 'C12': dict(cat='other', ref='DESIGN.md 2/C12',
   text="Non-interference by two-run relational obligations on the real code: the same constructor and calls executed twice from equal "
        "seeds give equal data / voltages at a symbolic position (frames: chi2, Gaussian, table noise, custom signals; Antenna and "
        "MultiAntennaArray streams), no wall-clock value and no unseeded generator stream occurs in any result (the clock reaches only "
        "t_start, and only when no start time is given), every child generator is seeded from its parent in program order. History: "
        "record() called twice on one backend from arbitrary stale pipeline state - caches reset and start-of-observation set before the "
        "first block, the second recording's default header is a fresh dictionary and block numbering restarts (file/block invariants of "
        "C04 re-established). Copies: copy() equal field by field, no mutable node shared, also for frames carrying a .fil/.h5 Waterfall "
        "(open handle stays with the original); pickled state drops only the Waterfall. NOT decidable by a contract: that different seeds "
        "give different noise, and determinism of third-party estimators (sigma_clip): bounded native runs.",
   note="level 'other': determinism across executions is a 2-safety property - decided here for the modelled state (arguments, fields, ghost generator streams, wall clock); third-party calls are assumed functions of their inputs",
   technique="contract-based deductive verification (relational two-run obligations, taint of wall-clock/unseeded streams, loop invariants of C04, heap-isomorphism for copies); bounded native two-run replay"),
 'C19': dict(cat='other', ref='DESIGN.md 2/C19',
   text="split_waterfall_generator: loop invariant over the channel window (symbolic nchans, fchans, shift, header frequency and resolution of either "
        "sign): exactly floor((nchans-fchans)/shift)+1 pieces (0 if the band is narrower than a piece), the i-th request is the frequency window of "
        "file channels [i*s, i*s+fchans) with integrations [0, tchans), ValueError only if more integrations are requested than the file has; the "
        "window test is integer arithmetic, so the count is independent of floating point. Consumers (get_parameter_distributions, "
        "get_mean_distribution) return exactly one entry per piece. split_array with shifts equal to the tile sizes: two nested loop invariants "
        "(symbolic array shape and tile size) - at loop exit (both exits) the list is the complete row-major partition: R*C tiles, tile (r,c) = "
        "data[r*th:min((r+1)th,H), c*tw:min((c+1)tw,W)]; the two trim predicates (extracted lambdas) hold exactly for full-size tiles. split_fil performs exactly one write per yielded piece, in order, whatever the output directory already contains. NOT decided "
        "here: blimpy's mapping of a frequency window to channels, the content blimpy writes, the final ndarray packaging - bounded native runs.",
   note="level 'other': the per-piece data/frequency clause goes through blimpy (external); the contract side proves the requests and counts, the bounded side the files",
   technique="contract-based deductive verification (loop invariants incl. nested loops with break, ghost row/column maps, extracted predicates); bounded native runs on written files"),
 'C03': dict(cat='other', ref='DESIGN.md 2/C03',
   text="Decided on the in-session equivalent of the file (Frame.get_waterfall(), an observation point of the property): for every frame and every "
        "prior Waterfall state (none / inherited from a parent or loaded, with arbitrary stale container attributes) _update_waterfall leaves a "
        "Waterfall whose data are the frame's intensities in file channel order (flipped for descending), whose header has nchans/fch1/foff sign/"
        "tsamp/tstart of the frame, and whose container shapes, channel counts, index and frequency limits describe exactly this frame (frame "
        "condition: nothing stale survives). A frame built from that Waterfall has the same shape, intensities, frequency axis, resolutions, "
        "start time, orientation and source name (round-trip lemma over the two contracts). get_fs/get_ts/get_data return axes of exactly "
        "nchans / integration-count entries = fch1+i*foff, i*tsamp - also in the floating-point rounding model, i.e. for every header value. "
        "NOT decidable by a contract here: what blimpy writes to and reads from disk (external library; its assumed contract is that files carry "
        "header + container-described data) - bounded native round trips over 13 construction routes x 2 formats with blimpy as independent reader. Also: a frame re-timed after its Waterfall was requested is described with its current start time; slices / de-drifted frames keep the name the file will carry; min/max frequency helpers = ends of the axis by orientation.",
   note="level 'other': the file itself is produced and parsed by blimpy; the contract side proves what setigen hands over and reads back",
   technique="contract-based deductive verification (postcondition + frame condition over arbitrary prior state, composition lemma, fp-relerr mode for axis lengths); bounded native file round trips"),
}
NA_REASON = "not yet built in this session (see DESIGN.md build order)"

m = {
 "version": 1,
 "setup_cmd": "./setup.sh",
 "hooks": {"guard": "SETIGEN_VERIF", "enable": "no hooks: contracts are sidecar files under /verif/contracts; /repo is read as source text on every run",
           "baseline_off_cmd": "cd /repo && /venv/bin/python -m pytest -ra -q -p no:cacheprovider --timeout=900 --continue-on-collection-errors",
           "source_commits": [], "add_only": True},
 "engines": [{"name": "pyvc", "path": "pyvc/", "serves_properties": sorted(CLAIMS),
              "kind_free_text": "self-built VC generator: symbolic execution of the real /repo Python AST into z3 obligations (cvc5 second opinion), sidecar contracts in contracts/, bounded native stand-ins in standin/"}],
 "checks": [], "notes": "see DESIGN.md; KNOWN_FINDINGS.txt lists fixed defects and recorded findings",
 "not_applicable": [],
}
for p in props:
    i = p['id']
    if i in CLAIMS:
        c = CLAIMS[i]
        m['checks'].append({
            "property_id": i, "quick_cmd": f"./check {i} --tier quick", "thorough_cmd": f"./check {i} --tier thorough",
            "evidence_file": f"evidence/{i}.json", "replay_cmd_template": f"./check {i} --replay {{path}}", "engine": "pyvc",
            "level_claimed": {"category": c['cat'], "text": c['text'], "design_ref": c['ref']},
            "level_note": c['note'], "technique": c['technique']})
    else:
        m['not_applicable'].append({"property_id": i, "reason": NA_REASON})
json.dump(m, open(os.path.join(ROOT, 'MANIFEST.json'), 'w'), indent=1)
print("MANIFEST.json written:", len(m['checks']), "checks,", len(m['not_applicable']), "not applicable")
