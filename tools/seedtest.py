#!/usr/bin/env python3
"""Confirm a candidate seeded change and run the checks against it.

usage: tools/seedtest.py <property> <dir with patch.diff demo.py note.txt> <name> [--keep] [--all]
 1. scratch worktree of /repo HEAD under /tmp, apply patch
 2. full test suite must pass; demo must fail with the change and pass without
 3. run ./check <property> (quick) with VERIF_REPO=<scratch>; record whether a VIOLATION is reported
 4. with --keep: store under /verif/seeded/<name>/ (patch.diff, demo.py, note.txt, meta.json)
"""
import sys, os, subprocess, json, shutil, time
ROOT = os.path.dirname(os.path.dirname(os.path.abspath(__file__)))
prop, src, name = sys.argv[1], sys.argv[2], sys.argv[3]
keep = '--keep' in sys.argv
WT = f'/tmp/seedwt_{os.getpid()}'


def sh(cmd, **kw):
    return subprocess.run(cmd, shell=True, capture_output=True, text=True, **kw)


sh(f'git -C /repo worktree add -f {WT} HEAD')
try:
    env = dict(os.environ, PYTHONPATH=WT, MPLBACKEND='Agg')
    d0 = sh(f'cd {WT} && /venv/bin/python -W ignore {src}/demo.py', env=env, timeout=600)
    ap = sh(f'git -C {WT} apply {src}/patch.diff')
    if ap.returncode != 0:
        print('PATCH DOES NOT APPLY', ap.stderr); sys.exit(2)
    t = sh(f'cd {WT} && /venv/bin/python -m pytest -q -p no:cacheprovider --timeout=900 2>&1 | tail -3', env=env, timeout=1800)
    tests_ok = ' passed' in t.stdout and 'failed' not in t.stdout and 'error' not in t.stdout.lower().replace('errors=0', '')
    d1 = sh(f'cd {WT} && /venv/bin/python -W ignore {src}/demo.py', env=env, timeout=600)
    print(f'demo unchanged rc={d0.returncode}  demo changed rc={d1.returncode}  tests: {t.stdout.strip().splitlines()[-1] if t.stdout.strip() else t.stderr[-200:]}')
    confirmed = d0.returncode == 0 and d1.returncode != 0 and tests_ok
    props = [prop] if '--all' not in sys.argv else [c['property_id'] for c in json.load(open(f'{ROOT}/MANIFEST.json'))['checks']]
    detected = {}
    for p in props:
        t0 = time.time()
        r = sh(f'cd {ROOT} && ./check {p} --tier quick', env=dict(os.environ, VERIF_REPO=WT), timeout=3600)
        vio = [l for l in r.stdout.splitlines() if l.startswith('VIOLATION')]
        und = [l for l in r.stdout.splitlines() if l.startswith(('UNDECIDED', 'ENGINE'))]
        detected[p] = {'rc': r.returncode, 'violations': vio[:6], 'other': und[:4], 'wall': round(time.time() - t0, 1)}
        print(f'  check {p}: rc={r.returncode} violations={len(vio)} {vio[:2]} {und[:2]}')
    # restore evidence for the real tree afterwards
    if keep and confirmed:
        dst = f'{ROOT}/seeded/{name}'
        os.makedirs(dst, exist_ok=True)
        for f in ('patch.diff', 'demo.py', 'note.txt'):
            if os.path.exists(f'{src}/{f}'):
                shutil.copy(f'{src}/{f}', dst)
        json.dump({'property': prop, 'confirmed': confirmed, 'needs_to_manifest': open(f'{src}/note.txt').read().strip()[:1500] if os.path.exists(f'{src}/note.txt') else '',
                   'ran': {'tests': t.stdout.strip().splitlines()[-1:], 'demo_unchanged_rc': d0.returncode, 'demo_changed_rc': d1.returncode,
                           'how': 'scratch worktree of /repo HEAD under /tmp, git apply patch.diff, full pytest, demo.py with PYTHONPATH=<worktree>; checks run with VERIF_REPO=<worktree>'},
                   'detected_by': detected}, open(f'{dst}/meta.json', 'w'), indent=1)
        print('kept as', dst)
    print('CONFIRMED' if confirmed else 'NOT CONFIRMED', 'DETECTED' if any(v['rc'] == 1 for v in detected.values()) else 'MISSED')
finally:
    sh(f'git -C /repo worktree remove --force {WT}')
    shutil.rmtree(WT, ignore_errors=True)
