#!/usr/bin/env python3
"""Regenerate the two generated tables of DESIGN.md section 9 (evidence numbers; seeded changes) from evidence/*.json and seeded/*/meta.json."""
import json, glob, os
ROOT = os.path.dirname(os.path.dirname(os.path.abspath(__file__)))
man = {c['property_id']: c for c in json.load(open(f'{ROOT}/MANIFEST.json'))['checks']}
rows = []
for i in range(1, 21):
    p = f'C{i:02d}'
    d = json.load(open(f'{ROOT}/evidence/{p}.json')); c = d['coverage']
    rows.append(f"| {p} | {man[p]['level_claimed']['category']} | {len(c.get('contracts', []))} | {len(c.get('functions_under_contract', {}))} | {c.get('paths_explored')} | {c['obligations']} | "
                f"{c['discharged']} | {c.get('solver_time_s')} | {d.get('wall_s')} | {c.get('evaluations')} | {len(c.get('known_findings_matched', []))} |")
table = ("| id | level | contracts | functions under contract | paths | obligations | discharged | solver s | wall s | bounded evaluations | known findings matched |\n"
         "|----|-------|----|----|----|----|----|----|----|----|----|\n" + "\n".join(rows))
srows = []
for d in sorted(glob.glob(f'{ROOT}/seeded/*')):
    m = json.load(open(d + '/meta.json')); name = os.path.basename(d)
    note = m.get('needs_to_manifest', '')
    what = note.split(':', 1)[1].strip() if ':' in note[:140] else note
    what = what.replace('\n', ' ').replace('|', '/')[:140]
    fc = m.get('final_check') or {}
    if not fc:
        v = (m.get('detected_by') or {}).get(name.split('-')[0], {})
        vio = v.get('violations', [])
        fc = {'deductive_violations': sum('/bounded_' not in x for x in vio), 'bounded_violations': sum('/bounded_' in x for x in vio), 'rc': v.get('rc')}
    kinds = '+'.join(k for k, n in (('ded', fc.get('deductive_violations')), ('bnd', fc.get('bounded_violations'))) if n)
    srows.append(f"| {name} | {what} | {kinds or 'rc=%s' % fc.get('rc')} |")
seeded = "| seeded change | what it does (from its note) | caught by (final checks) |\n|----|----|----|\n" + "\n".join(srows)
p = f'{ROOT}/DESIGN.md'; s = open(p).read()
a = s.index("| id | level | contracts | functions under contract"); b = s.index("\n\nLevels are as planned in section 0.")
s = s[:a] + table + s[b:]
a = s.index("| seeded change | what it does (from its note) | caught by"); b = s.index("\n\nChecks strengthened because a first-round seeded change")
s = s[:a] + seeded + s[b:]
open(p, 'w').write(s)
print(len(rows), 'properties,', len(srows), 'seeded changes')
