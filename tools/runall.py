#!/usr/bin/env python3
"""Run every registered check (quick) for several seeds; report exit codes, wall time and slow obligations."""
import json, os, subprocess, sys, time
from concurrent.futures import ThreadPoolExecutor
ROOT = os.path.dirname(os.path.dirname(os.path.abspath(__file__)))
m = json.load(open(os.path.join(ROOT, 'MANIFEST.json')))
seeds = [int(x) for x in (sys.argv[1].split(',') if len(sys.argv) > 1 else ['0'])]
tier = sys.argv[2] if len(sys.argv) > 2 else 'quick'
par = int(sys.argv[3]) if len(sys.argv) > 3 else 4


def run(job):
    pid, seed = job
    env = dict(os.environ, VERIF_SEED=str(seed), VERIF_TIER=tier)
    t = time.time()
    p = subprocess.run(['./check', pid, '--tier', tier], cwd=ROOT, env=env, capture_output=True, text=True)
    ev = {}
    try:
        ev = json.load(open(os.path.join(ROOT, 'evidence', pid + '.json')))
    except Exception:
        pass
    slow = [x for x in ev.get('coverage', {}).get('slowest', []) if x['s'] >= 2]
    return pid, seed, p.returncode, round(time.time() - t, 1), slow, [l for l in p.stdout.splitlines() if l.startswith(('VIOLATION', 'ENGINE', 'UNDECIDED', 'KNOWN'))][:5]


jobs = [(c['property_id'], s) for s in seeds for c in m['checks']]
bad = 0
with ThreadPoolExecutor(par) as ex:
    for pid, seed, rc, wall, slow, lines in ex.map(run, jobs):
        print(f"{pid} seed={seed} rc={rc} wall={wall}s slow={slow}")
        for l in lines:
            print("   ", l[:200])
        bad += rc != 0
print("NONZERO:", bad)
