#!/bin/bash
# usage: tools/standin_seeds.sh c17 "1 2 3" quick
cd "$(dirname "$0")/.."
for s in $2; do
  PYTHONPATH=/repo:/verif/standin /venv/bin/python -W ignore standin/$1.py --tier ${3:-quick} --seed $s 2>&1 | tail -1 | python3 -c "
import json,sys
try:
    d=json.loads(sys.stdin.read()); print('$1 seed $s', d['evaluations'], [ (f['case'], f['input']) for f in d['failures']][:3])
except Exception as e: print('$1 seed $s BROKEN', e)"
done
