"""C07 bounded stand-in: tones through the real pipeline, located through the file's own header."""
from base import *
import numpy as np
import setigen as stg
from setigen.voltage import raw_utils, waterfall

R = Runner('C07', 'bounded: tones on/off fine-bin centres, both orientations, start_chan in {0,1,mid,last}, 1-2 pols, through the real record() and the file header', '32 branches, 8 recorded channels, fft 64')
rng = R.rng
NB, TAPS, FL = 32, 4, 64


def run_case(asc, sc, nc, npol, off_frac, chan_pick, drift_ch, case, nbits=8):
    sr = 32e6
    fch1 = 1.0e9
    src = stg.voltage.Antenna(sample_rate=sr, fch1=fch1, ascending=asc, num_pols=npol, seed=case)
    for s in src.streams:
        s.add_noise(0, 0.05)
    cbw = sr / NB * (1 if asc else -1)
    df = cbw / FL
    coarse = sc + chan_pick
    # tone in the lower half of fine bins away from the DC-straddling centre bin and from the exact coarse centre
    kbin = rng.randint(3, FL // 2 - 3) * rng.choice([1, -1])
    f_tone = fch1 + coarse * cbw + (kbin + off_frac) * df
    T = TAPS * FL * 2
    spb = T
    bps = 2 * npol * nbits // 8
    for s in src.streams:
        s.add_constant_signal(f_start=f_tone, drift_rate=drift_ch * abs(df) / (spb * NB / sr), level=1.0)
    be = stg.voltage.RawVoltageBackend(src, digitizer=stg.voltage.RealQuantizer(target_fwhm=32, num_bits=8), filterbank=stg.voltage.PolyphaseFilterbank(num_taps=TAPS, num_branches=NB),
                                       requantizer=stg.voltage.ComplexQuantizer(target_fwhm=32 if nbits == 8 else 6, num_bits=nbits), start_chan=sc, num_chans=nc, block_size=spb * nc * bps,
                                       blocks_per_file=2, num_subblocks=3)
    stem = os.path.join(R.tmp, f't{case}')
    be.record(stem, num_blocks=1, length_mode='num_blocks', header_dict={'DIRECTIO': rng.choice([0, 1])}, load_template=False, verbose=False)
    fn = stem + '.0000.raw'
    h = raw_utils.read_header(fn)
    p = raw_utils.get_raw_params(stem, start_chan=sc)
    ok_params = abs(p['fch1'] - fch1) <= 1e-3 and abs(p['chan_bw'] - cbw) <= 1e-6 and p['ascending'] == asc and p['num_chans'] == nc
    # decode the first block with an independent reader
    raw = open(fn, 'rb').read()
    n = 0
    while not raw[80 * n: 80 * n + 80].startswith(b'END'):
        n += 1
    hs = 80 * (n + 1)
    if int(h.get('DIRECTIO', 0)) != 0:
        hs = (hs + 511) // 512 * 512
    if nbits == 8:
        d = np.frombuffer(raw[hs: hs + int(h['BLOCSIZE'])], dtype=np.int8).reshape(nc, -1).astype(float)
        x = d[:, 0::2 * npol] + 1j * d[:, 1::2 * npol]
    else:
        # GUPPI 4-bit: one byte per complex sample, real part in the high nibble, imaginary part in the low nibble (two's complement)
        u = np.frombuffer(raw[hs: hs + int(h['BLOCSIZE'])], dtype=np.uint8).reshape(nc, -1).astype(int)
        hi_, lo_ = u >> 4, u & 15
        hi_, lo_ = np.where(hi_ >= 8, hi_ - 16, hi_), np.where(lo_ >= 8, lo_ - 16, lo_)
        x = (hi_[:, 0::npol] + 1j * lo_[:, 0::npol]).astype(complex)
    spec = np.abs(np.fft.fftshift(np.fft.fft(x[:, :FL * (x.shape[1] // FL)].reshape(nc, -1, FL), axis=2), axes=2)) ** 2
    spec = spec.sum(axis=1)
    c_peak, b_peak = np.unravel_index(np.argmax(spec), spec.shape)
    obsfreq, obsbw, chbw = float(h['OBSFREQ']) * 1e6, float(h['OBSBW']) * 1e6, float(h['CHAN_BW']) * 1e6
    f_bin = obsfreq - obsbw / 2 + (c_peak + 0.5) * chbw + (b_peak - FL // 2) * chbw / FL
    os.unlink(fn)
    return ok_params, abs(f_bin - f_tone) / abs(df), (int(c_peak), int(b_peak)), dict(f_tone=f_tone, f_bin=f_bin)


case = 0
for it in range(R.n(16, 300)):
    case += 1
    asc = rng.random() < 0.5
    nc = 8
    sc = rng.choice([0, 1, 4, NB // 2 - nc])
    npol = rng.choice([1, 2])
    off = rng.choice([0.0, 0.0, 0.3, -0.4])
    pick = rng.randint(1 if sc == 0 else 0, nc - 1)     # coarse channel 0 straddles DC (tone and mirror coincide): excluded by the property
    nbits = 4 if it % 3 == 2 else 8
    c = dict(asc=asc, start_chan=sc, num_chans=nc, npol=npol, off_bin=off, channel=pick, num_bits=nbits)
    r = R.guard('pipeline', c, lambda: run_case(asc, sc, nc, npol, off, pick, 0.0, case, nbits))
    if r is None:
        continue
    okp, dist, peak, info = r
    R.check('get_raw_params/reproduces-fch1-chan_bw-orientation', c, okp, None)
    R.check('tone/within-one-fine-bin-of-header-frequency', dict(c, **info), dist <= 1.0 + 1e-6, dist)

# chirps: the instantaneous frequency of the stream follows f_start + drift*t, both orientations, both drift signs
for it in range(R.n(8, 60)):
    asc = bool(it % 2)
    sr, fch1 = 1.0e6, 1.0e9
    drift = rng.choice([1, -1]) * rng.uniform(2e5, 6e5)
    sgn = 1 if asc else -1
    f_start = fch1 + sgn * rng.uniform(1.2e5, 3.0e5)
    st = stg.voltage.DataStream(sample_rate=sr, fch1=fch1, ascending=asc, seed=it)
    st.add_constant_signal(f_start=f_start, drift_rate=drift, level=1.0, phase=rng.uniform(0, 6))
    W = 4096
    worst = 0.0
    for chunk in range(3):
        t_mid = (chunk * 20000 + W / 2) / sr
        if chunk:
            st.get_samples(20000 - W)
        v = np.asarray(st.get_samples(W))
        sp = np.abs(np.fft.rfft(v * np.hanning(W), 8 * W))
        f_meas = np.argmax(sp) * sr / (8 * W)
        f_want = abs(f_start + drift * t_mid - fch1)
        worst = max(worst, abs(f_meas - f_want))
    R.check('chirp/instantaneous-frequency-follows-f_start+drift*t', dict(asc=asc, drift=drift, f_offset=f_start - fch1), worst < 1500.0, worst, '< 1500 Hz')

# the reducer applies the requested FFT length and integration factor
nrng = np.random.default_rng(R.seed)
for it in range(R.n(6, 40)):
    nspec, nch = rng.choice([64, 96, 128]), rng.randint(1, 4)
    x = nrng.normal(size=(nspec, nch)) + 1j * nrng.normal(size=(nspec, nch))
    y = nrng.normal(size=(nspec, nch)) + 1j * nrng.normal(size=(nspec, nch))
    fl, k = rng.choice([4, 8, 16, 3, 5, 15, 1]), rng.choice([1, 2, 3])
    out = waterfall.get_pfb_waterfall(x, y, fftlength=fl, int_factor=k)
    nw = nspec // fl
    ref = np.zeros((nw // k, nch * fl))
    for r_ in range(nw // k):
        for cch in range(nch):
            for b in range(fl):
                kb = (b - fl // 2) % fl
                tot = 0.0
                for m in range(k):
                    w = r_ * k + m
                    for arr in (x, y):
                        X = sum(arr[w * fl + q, cch] * np.exp(-2j * np.pi * q * kb / fl) for q in range(fl)) / fl ** 0.5
                        tot += abs(X) ** 2
                ref[r_, cch * fl + b] = tot
    R.check('get_pfb_waterfall/fine-channel-order-and-integration', dict(nspec=nspec, nch=nch, fftlength=fl, int_factor=k), out.shape == ref.shape and np.allclose(out, ref, rtol=1e-9), list(out.shape))
R.finish()
