"""C18 bounded stand-in: random list-operation histories on real cadences vs a plain Python list."""
from base import *
import numpy as np
import setigen as stg

R = Runner('C18', 'bounded: seeded-random operation histories (<= 25 ops) on real (Ordered)Cadence vs plain list', '<= 25 operations per history')
rng = R.rng


def mkframe(kind='ok'):
    if kind == 'ok':
        return stg.Frame(fchans=8, tchans=2, df=2.0, dt=1.0, fch1=1e9, t_start=float(rng.randint(0, 1000)))
    if kind == 'bad':
        return stg.Frame(fchans=rng.choice([4, 16]), tchans=2, df=2.0, dt=1.0, fch1=1e9, t_start=0.0)
    return rng.choice([3, 'x', None, [1]])


for h in range(R.n(40, 800)):
    ordered = rng.random() < 0.5
    order = 'ABACADAEAFAGAHAIAJAKALAMANAOAPAQ'
    cad = stg.OrderedCadence(order=order) if ordered else stg.Cadence()
    model = []
    hist = []
    for step in range(rng.randint(1, 25)):
        op = rng.choice(['append', 'insert', 'setitem', 'del', 'pop', 'extend', 'slice', 'index', 'getint'])
        n = len(model)
        kind = rng.choice(['ok'] * 6 + ['bad', 'non'])
        i = rng.randint(-n - 3, n + 3)
        hist.append((op, i, kind))
        inp = {'ordered': ordered, 'history': [list(x) for x in hist]}
        try:
            exp_exc = None
            if op in ('append', 'insert', 'setitem', 'extend'):
                v = mkframe(kind)
                guard = TypeError if kind == 'non' else (AttributeError if n > 0 and any(getattr(v, a) != getattr(model[0], a) for a in ('df', 'dt', 'fchans', 'fmin')) else None)
                try:
                    if op == 'append': cad.append(v)
                    elif op == 'insert': cad.insert(i, v)
                    elif op == 'setitem': cad[i] = v
                    else: cad.extend([v])
                    got = None
                except Exception as e:
                    got = type(e)
                if guard is None:
                    m2 = list(model)
                    try:
                        if op == 'append' or op == 'extend': m2.append(v)
                        elif op == 'insert': m2.insert(i, v)
                        else: m2[i] = v
                        exp = None
                    except IndexError:
                        exp = IndexError
                    R.check(f'{op}/same-outcome-as-list', inp, got == exp, str(got), str(exp))
                    if got is None and exp is None:
                        if ordered and op in ('insert', 'setitem', 'append', 'extend') and 'order_label' in v.metadata:
                            pos = [k for k, x in enumerate(m2) if x is v][0]
                            R.check(f'{op}/label-at-position', inp, v.metadata['order_label'] == order[pos], v.metadata['order_label'], order[pos])
                        model = m2
                else:
                    R.check(f'{op}/guard-raises', inp, got == guard or (op == 'setitem' and got == IndexError and not -n <= i < n), str(got), str(guard))
            elif op in ('del', 'pop', 'getint'):
                m2 = list(model)
                try:
                    exp = m2.pop(i) if op == 'pop' else (m2.__delitem__(i) if op == 'del' else m2[i])
                    ee = None
                except IndexError:
                    ee = IndexError
                try:
                    got = cad.pop(i) if op == 'pop' else (cad.__delitem__(i) if op == 'del' else cad[i])
                    ge = None
                except Exception as e:
                    ge = type(e)
                R.check(f'{op}/same-outcome-as-list', inp, ge == ee and (ee is not None or got is exp), str(ge), str(ee))
                if ee is None and ge is None and op != 'getint':
                    model = m2
            elif op == 'slice':
                a, b = rng.randint(-n - 2, n + 2), rng.randint(-n - 2, n + 2)
                sub = cad[a:b]
                R.check('slice/identity-order', dict(inp, a=a, b=b), type(sub) is type(cad) and [id(x) for x in sub] == [id(x) for x in model[a:b]], None)
            elif op == 'index' and n > 0:
                idx = [rng.randint(-n, n - 1) for _ in range(rng.randint(1, 4))]
                form = rng.choice(['list', 'ndarray', 'tuple'])
                key = idx if form == 'list' else (np.array(idx) if form == 'ndarray' else tuple(idx))
                sub = R.guard('index-array/' + form, dict(inp, idx=idx), lambda: cad[key])
                if sub is not None:
                    R.check('index-array/identity-order', dict(inp, idx=idx, form=form), [id(x) for x in sub] == [id(model[q]) for q in idx], None)
            R.check('view/equals-list', inp, len(cad) == len(model) and all(a is b for a, b in zip(cad, model)), len(cad), len(model), nontrivial=False)
        except Exception as e:
            R.check('harness', inp, False, repr(e))
            break
    if model:
        R.check('aggregates', {'n': len(model)}, cad.tchans == sum(f.tchans for f in model) and abs(cad.obs_range - (model[-1].t_stop - model[0].t_start)) < 1e-9
                and np.allclose(cad.slew_times, [model[k].t_start - model[k - 1].t_stop for k in range(1, len(model))]), None)
        if ordered:
            for lab in 'AB':
                got = cad.by_label(lab)
                R.check('by_label', {'n': len(model), 'label': lab}, [id(x) for x in got] == [id(x) for x in model if x.metadata['order_label'] == lab], None)
# set_order after the labels have drifted away from the positions (deletions / inserts), with the same and with another order string
for order2 in ('ABACAD', 'XYZXYZ'):
    for hist_op in ('del-first', 'insert-middle', 'pop-middle'):
        cad = stg.OrderedCadence(order='ABACAD')
        for _ in range(5):
            cad.append(mkframe())
        if hist_op == 'del-first':
            del cad[0]
        elif hist_op == 'insert-middle':
            cad.insert(1, mkframe())
        else:
            cad.pop(2)
        cad.set_order(order2)
        labels = ''.join(f.metadata['order_label'] for f in cad)
        R.check('set_order/relabels-every-position', dict(history=hist_op, new_order=order2), labels == order2[:len(cad)] and
                [id(x) for x in cad.by_label(order2[0])] == [id(f) for k_, f in enumerate(cad) if order2[k_] == order2[0]], labels, order2[:len(cad)])
# selections from an ordered cadence: labels of the (shared) frames are stable, empty index sequences give an empty cadence
for order in ('ABACD', 'ABACAD'):
    cad = stg.OrderedCadence(order=order)
    for _ in range(5):
        cad.append(mkframe())
    lab0 = [f.metadata['order_label'] for f in cad]
    for sel in (slice(1, 4), [3, 1], (2, 0, 4), slice(0, None, 2)):
        sub = cad[sel]
        want = [cad.frames[k] for k in (range(*sel.indices(5)) if isinstance(sel, slice) else sel)]
        R.check('selection/labels-stable-and-frames-as-a-list-would', dict(order=order, selection=str(sel)),
                [id(x) for x in sub] == [id(x) for x in want] and [f.metadata['order_label'] for f in cad] == lab0, [f.metadata['order_label'] for f in cad], lab0)
for ordered in (False, True):
    cad = stg.OrderedCadence(order='ABACAD') if ordered else stg.Cadence()
    for _ in range(3):
        cad.append(mkframe())
    for empty in ([], (), slice(2, 2)):
        sub = R.guard('selection/empty-index/no-exception', dict(ordered=ordered, index=repr(empty)), lambda: cad[empty])
        if sub is not None:
            R.check('selection/empty-index-gives-an-empty-cadence', dict(ordered=ordered, index=repr(empty)), len(sub) == 0 and isinstance(sub, stg.Cadence), len(sub), 0)
R.finish()
