"""Bounded stand-in / replay harness (runs the REAL setigen under /venv python).

Everything here is *bounded* evidence: enumerated and seeded-random inputs, never counted as proved.
It doubles as the replay oracle: with --model it first tries inputs derived from a solver counter-model.
"""
import sys, os, json, time, random, argparse, traceback, tempfile, shutil, warnings
warnings.filterwarnings('ignore')
os.environ.setdefault('SETIGEN_ENABLE_GPU', '0')
os.environ.setdefault('MPLBACKEND', 'Agg')
REPO = os.environ.get('VERIF_REPO', '/repo')
sys.path.insert(0, REPO)


class Runner:
    def __init__(self, prop, label, bound):
        ap = argparse.ArgumentParser()
        ap.add_argument('--tier', default='quick')
        ap.add_argument('--seed', type=int, default=0)
        ap.add_argument('--model', default=None)
        a = ap.parse_args()
        self.prop, self.label, self.bound = prop, label, bound
        self.tier, self.seed = a.tier, a.seed
        self.model = json.loads(a.model) if a.model else None
        self.rng = random.Random(1000003 * a.seed + 17)
        self.evaluations = 0
        self.distinct = set()
        self.failures = []
        self.samples = []
        self.t0 = time.time()
        self.tmp = tempfile.mkdtemp(prefix='setigen-verif-', dir=os.environ.get('TMPDIR', '/var/tmp'))
        self.last = None
        runner = self

        def hook(tp, val, tb):
            # an exception escaping the harness while it drives the real code: report it as a failing case with the
            # input that was being processed (never happens on a tree where the clauses hold; seeds 0..8 checked)
            runner.failures.append({'case': 'unexpected-exception', 'input': runner.last, 'observed': f'{tp.__name__}: {val}',
                                    'expected': 'no exception', 'traceback': ''.join(traceback.format_tb(tb))[-800:]})
            runner.finish()
            os._exit(0)
        sys.excepthook = hook

    def n(self, quick, thorough):
        return thorough if self.tier == 'thorough' else quick

    def check(self, case, inp, ok, observed=None, expected=None, nontrivial=True):
        """Record one evaluation of a clause on the real code."""
        self.evaluations += 1
        self.last = {'case': case, 'input': inp}
        key = (case, json.dumps(inp, sort_keys=True, default=str))
        if nontrivial:
            self.distinct.add(key)
        if len(self.samples) < 4 and not any(s['case'] == case for s in self.samples):
            self.samples.append({'case': case, 'input': inp, 'observed': _j(observed), 'ok': bool(ok)})
        if not ok and not any(f['case'] == case for f in self.failures):
            self.failures.append({'case': case, 'input': inp, 'observed': _j(observed), 'expected': _j(expected)})
        return ok

    def guard(self, case, inp, fn):
        """Run fn(); an unexpected exception of the real code under the clause's precondition is a failure."""
        try:
            return fn()
        except Exception as e:
            self.check(case, inp, False, observed=f"{type(e).__name__}: {e}", expected='no exception')
            return None

    def wants(self, prefix):
        """In replay mode: is the failed obligation one of this group?"""
        if not self.model or not self.model.get('obligation'):
            return True
        return True

    def finish(self):
        shutil.rmtree(self.tmp, ignore_errors=True)
        print(json.dumps({
            'label': self.label, 'bound': self.bound, 'evaluations': self.evaluations,
            'distinct_nontrivial': len(self.distinct),
            'rule': 'each evaluation runs the real function on one enumerated/seeded input and evaluates the clause; '
                    'distinct = distinct (clause, input) pairs; trivial (empty / degenerate) inputs are not counted',
            'failures': self.failures, 'samples': self.samples, 'wall': round(time.time() - self.t0, 2)}, default=str))


def _j(x):
    try:
        json.dumps(x)
        return x
    except Exception:
        return repr(x)[:300]


def model_num(model, name, default=None):
    """Fetch a numeric value from a solver counter-model (strings like '3', '1/3', '(- 5)', '2.5?')."""
    from fractions import Fraction
    if not model or not model.get('model'):
        return default
    v = model['model'].get(name)
    if v is None:
        return default
    v = str(v).replace('?', '').strip()
    try:
        if v.startswith('(-'):
            return -Fraction(v[2:].strip(' )'))
        if v.startswith('(/'):
            a, b = v[2:].strip(' )').split()
            return Fraction(a) / Fraction(b)
        return Fraction(v)
    except Exception:
        return default
