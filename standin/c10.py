"""C10 bounded stand-in: chunked vs one-shot requests on real streams/antennas."""
from base import *
import numpy as np
import setigen as stg
from setigen.voltage import data_stream as DS

R = Runner('C10', 'bounded: all splits of <= 96 samples into <= 4 requests, 3 seeds; chirp closed form on 256 samples', '<= 96 samples, <= 4 requests')
rng = R.rng


def build(seed, asc, nnoise=1, cplx=True, sr=1e6, t0=3.25):
    s = DS.DataStream(sample_rate=sr, fch1=1e6, ascending=asc, t_start=t0, seed=seed)
    for q in range(nnoise):
        s.add_noise(0.5 * q, 1.0 + q)
    s.add_constant_signal(f_start=1.2e6, drift_rate=5e5, level=0.7, phase=0.3)
    s.add_signal(lambda ts: 0.1 * np.sin(2 * np.pi * 1e3 * ts))
    if cplx == 'gated':
        # a complex-dtype source that is exactly zero (also its imaginary part) until it switches on
        s.add_signal(lambda ts: 0.05 * np.exp(2j * np.pi * 2e3 * ts) * (ts >= t0 + 20 / sr))
    elif cplx:
        s.add_signal(lambda ts: 0.05 * np.exp(2j * np.pi * 2e3 * ts))
    return s


def parts(total, k):
    cuts = sorted(rng.sample(range(1, total), k - 1)) if k > 1 else []
    return [b - a for a, b in zip([0] + cuts, cuts + [total])]


for seed in range(R.n(3, 12)):
    for asc in (True, False):
        for it in range(R.n(6, 60)):
            total = rng.randint(4, 96); k = rng.randint(1, 4)
            ps = parts(total, min(k, total))
            for nn in (1, 2):
                a, b = build(seed, asc, nn), build(seed, asc, nn)
                kept = [a.get_samples(p) for p in ps]          # the caller keeps the returned chunks and joins them afterwards
                va = np.concatenate([np.asarray(x) for x in kept])
                vb = np.array(b.get_samples(total))
                c = dict(seed=seed, asc=asc, parts=ps, noise_sources=nn)
                name = 'chunking/one-noise-source' if nn == 1 else 'chunking/two-noise-sources'
                if len(ps) == 1 and nn == 2:
                    continue
                R.check(name, c, np.allclose(va, vb, rtol=1e-9, atol=1e-6), float(np.max(np.abs(va - vb))))
                R.check('clock/advance', c, abs(a.t_start - b.t_start) <= 1e-9 * abs(b.t_start), [a.t_start, b.t_start], nontrivial=False)
    # equal consecutive request sizes on a real-valued stream, chunks kept by the caller and joined afterwards
    for ps in ([4, 4, 3], [3, 8, 8], [2, 2, 2, 2, 3]):
        a, b = build(seed, True, 1, False), build(seed, True, 1, False)
        kept = [a.get_samples(p) for p in ps]
        va, vb = np.concatenate([np.asarray(x) for x in kept]), np.array(b.get_samples(sum(ps)))
        R.check('chunking/equal-sized-requests-chunks-kept-by-the-caller', dict(seed=seed, parts=ps), np.allclose(va, vb, rtol=1e-9, atol=1e-6), float(np.max(np.abs(va - vb))))
    # a gated complex source: requests that lie entirely before it switches on must behave like any other partition
    for ps in ([48], [30, 18], [16, 16, 16], [5, 10, 1, 32]):
        a, b = build(seed, True, 1, 'gated'), build(seed, True, 1, 'gated')
        r = R.guard('chunking/gated-complex-source/no-exception', dict(seed=seed, parts=ps), lambda: np.concatenate([np.array(a.get_samples(p), dtype=complex) for p in ps]))
        if r is not None:
            vb = np.array(b.get_samples(48), dtype=complex)
            R.check('chunking/gated-complex-source', dict(seed=seed, parts=ps), np.allclose(r, vb, rtol=1e-9, atol=1e-6), float(np.max(np.abs(r - vb))))
    s = build(seed, True, 0, False)
    n = 256
    v = s.get_samples(n)
    t = 3.25 + np.arange(n) / 1e6
    for asc in (True, False):
        s = DS.DataStream(sample_rate=1e6, fch1=1e6, ascending=asc, t_start=3.25, seed=seed)
        s.add_constant_signal(f_start=1.2e6, drift_rate=5e5, level=0.7, phase=0.3)
        v = s.get_samples(n)
        ph = 2 * np.pi * ((1.2e6 - 1e6) * t + 0.5 * 5e5 * t ** 2)
        ref = 0.7 * np.cos((ph if asc else -ph) + 0.3)
        R.check('chirp/closed-form', dict(seed=seed, asc=asc), np.allclose(v, ref, atol=1e-6), float(np.max(np.abs(v - ref))))
    for npol in (1, 2):
        an = stg.voltage.Antenna(sample_rate=1e6, fch1=1e6, num_pols=npol, t_start=1.0, seed=seed)
        for st in an.streams:
            st.add_noise(0, 1)
        out = an.get_samples(50)
        ok = out.shape == (1, npol, 50) and np.array_equal(out[0][0], an.x.v) and (npol == 1 or np.array_equal(out[0][1], an.y.v)) \
            and all(abs(st.t_start - an.t_start) < 1e-12 for st in an.streams)
        R.check('antenna/stack+clock', dict(seed=seed, npol=npol), ok, None)
        an.set_time(7.5)
        R.check('antenna/set_time', dict(seed=seed, npol=npol), an.t_start == 7.5 and all(st.t_start == 7.5 and st.start_obs for st in an.streams), None)
# request length at awkward (sample_rate, size) pairs
for sr in (3e9, 48e3, 10.0, 1e6, 2.344e9):
    for n in list(range(1, R.n(80, 400))):
        s = DS.DataStream(sample_rate=sr, fch1=0, t_start=0.0, seed=1)
        s.add_noise(0, 1)
        v = s.get_samples(n)
        R.check('request/exactly-n-samples', dict(sample_rate=sr, n=n), len(v) == n and len(s.ts) == n, len(v))
R.finish()
