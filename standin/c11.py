"""C11 bounded stand-in: sample moments of the real noise routines within 6-sigma bands; bookkeeping on real frames."""
from base import *
import numpy as np
import setigen as stg

R = Runner('C11', 'bounded statistical: 2^17-sample frames, df*dt in {1,1.4,2.5,7,51}, seeds from VERIF_SEED; 6-sigma bands from the fourth moments', '2^17 samples per case')
rng = R.rng
N = 2 ** 17
for prod in (1.0, 1.4, 1.6, 2.5, 2.875, 7.0, 51.0):
    for rep in range(R.n(1, 3)):
        seed = R.seed * 100 + rep * 7 + int(prod * 10)
        fr = stg.Frame(fchans=512, tchans=N // 512, df=prod, dt=1.0, fch1=1e9, seed=seed, t_start=0)
        k = 4 * round(prod * 1.0)
        xm = rng.choice([10.0, 3.0, 250.0])
        c = dict(df_dt=prod, k=k, x_mean=xm, seed=seed)
        R.check('chi2/dof', c, fr.chi2_df == k, fr.chi2_df, k)
        before = fr.data.copy()
        noise = fr.add_noise(x_mean=xm)
        R.check('chi2/returned=added', c, np.array_equal(fr.data - before, noise), None)
        var = 2 * xm ** 2 / k
        m_se = np.sqrt(var / N)
        # Var of sample variance ~ (mu4 - var^2)/N ; for scaled chi2: mu4 = var^2 * (3 + 12/k)
        v_se = np.sqrt((var ** 2 * (2 + 12.0 / k)) / N)
        R.check('chi2/mean-and-variance', c, abs(noise.mean() - xm) < 6 * m_se and abs(noise.var() - var) < 6 * v_se, [float(noise.mean()), float(noise.var())], [xm, var])
        R.check('chi2/estimates-set-to-parameters', c, fr.noise_mean == xm and abs(fr.noise_std - np.sqrt(var)) < 1e-12 * np.sqrt(var), [fr.noise_mean, fr.noise_std])
        R.check('snr/inverse', c, abs(fr.get_snr(fr.get_intensity(snr=25.0)) - 25.0) < 1e-9 and abs(fr.get_intensity(snr=25.0) - 25 * fr.noise_std / np.sqrt(fr.tchans)) < 1e-9, None)
        g = stg.Frame(fchans=512, tchans=N // 512, df=prod, dt=1.0, fch1=1e9, seed=seed + 1, t_start=0)
        mu, sd = rng.choice([5.0, -1.0]), rng.choice([2.0, 0.5])
        n2 = g.add_noise(x_mean=mu, x_std=sd, noise_type='gaussian')
        R.check('gaussian/mean-and-deviation', dict(c, mu=mu, sd=sd), abs(n2.mean() - mu) < 6 * sd / np.sqrt(N) and abs(n2.var() - sd ** 2) < 6 * sd ** 2 * np.sqrt(2.0 / N),
                [float(n2.mean()), float(n2.std())])
        h = stg.Frame(fchans=512, tchans=N // 512, df=prod, dt=1.0, fch1=1e9, seed=seed + 2, t_start=0)
        fl = mu - 0.3 * sd
        n3 = h.add_noise(x_mean=mu, x_std=sd, x_min=fl, noise_type='normal')
        R.check('truncated/never-below-floor', dict(c, floor=fl), float(n3.min()) >= fl, float(n3.min()))
        # second noise on a non-empty frame: sigma-clipped re-estimate (not the parameters)
        h.add_noise(x_mean=mu, x_std=sd, noise_type='gaussian')
        R.check('estimates/re-estimated-after-second-noise', c, abs(h.noise_mean - 2 * mu) < 1.0 * sd + abs(fl) * 0 + 1.0 and h.noise_std > sd, [h.noise_mean, h.noise_std])
        # observation tables
        Mt, St, Nt = np.array([1.0, 2.0, 3.0, 4.0]) * 10, np.array([0.1, 0.2, 0.3, 0.4]), np.array([5.0, 6.0, 7.0, 8.0])
        q = stg.Frame(fchans=64, tchans=16, df=prod, dt=1.0, fch1=1e9, seed=seed + 3, t_start=0)
        q.add_noise_from_obs(Mt, St, Nt, share_index=True, noise_type='gaussian')
        idx = int(np.where(np.isclose(Mt, q.noise_mean))[0][0]) if np.any(np.isclose(Mt, q.noise_mean)) else -1
        R.check('tables/common-index', c, idx >= 0 and np.isclose(q.noise_std, St[idx]), [q.noise_mean, q.noise_std])
        q2 = stg.Frame(fchans=64, tchans=16, df=prod, dt=1.0, fch1=1e9, seed=seed + 4, t_start=0)
        try:
            q2.add_noise_from_obs(Mt, St[:3], Nt, share_index=True, noise_type='gaussian')
            R.check('tables/unequal-lengths-raise', c, False, 'no exception')
        except IndexError:
            R.check('tables/unequal-lengths-raise', c, True, None)
# a frame preloaded with data is not empty: its estimates describe that data, and the first noise added re-estimates
for it in range(R.n(2, 8)):
    pre = np.random.default_rng(R.seed * 50 + it).normal(100.0, 3.0, (32, 256))
    for how in ('data=', 'from_data'):
        g = stg.Frame(fchans=256, tchans=32, df=2.79, dt=18.25, fch1=6e9, data=pre, seed=it) if how == 'data=' else stg.Frame.from_data(2.79, 18.25, 6e9, True, pre, seed=it)
        ok0 = abs(g.noise_mean - 100.0) < 0.5 and abs(g.noise_std - 3.0) < 0.5
        g.add_noise(10.0)
        R.check('estimates/preloaded-frame-re-estimates-after-noise', dict(route=how, it=it), ok0 and abs(g.noise_mean - 110.0) < 1.0 and g.noise_std > 3.0, [float(g.noise_mean), float(g.noise_std)], '~(110, >3)')
# voltage streams: quadrature
for it in range(R.n(5, 30)):
    s = stg.voltage.DataStream(sample_rate=1e6, seed=it)
    a, b = rng.uniform(0.1, 3), rng.uniform(0.1, 3)
    s.add_noise(0, a); s.add_noise(1, b)
    arr = stg.voltage.MultiAntennaArray(num_antennas=2, sample_rate=1e6, delays=[0, 1], seed=it)
    cbg = rng.uniform(0.1, 2)
    arr.bg_x.add_noise(0, cbg)
    arr.antennas[0].x.add_noise(0, a)
    R.check('streams/quadrature', dict(a=a, b=b, bg=cbg), abs(s.noise_std - np.hypot(a, b)) < 1e-12 and abs(arr.antennas[0].x.get_total_noise_std() - np.hypot(a, cbg)) < 1e-12
            and abs(arr.antennas[1].x.bg_noise_std - cbg) < 1e-12, None)
    cbg2 = rng.uniform(0.1, 2)
    arr.bg_x.add_noise(0, cbg2)
    want = np.sqrt(cbg ** 2 + cbg2 ** 2)
    R.check('streams/background-accumulates-in-quadrature', dict(a=a, bg=cbg, bg2=cbg2), abs(arr.antennas[1].x.bg_noise_std - want) < 1e-12
            and abs(arr.antennas[0].x.get_total_noise_std() - np.sqrt(a ** 2 + want ** 2)) < 1e-12, [float(arr.antennas[1].x.bg_noise_std)], [want])
    meas = float(np.std(np.asarray(arr.get_samples(200000))[1][0]))
    R.check('streams/measured-deviation-matches-the-bookkeeping', dict(a=a, bg=cbg, bg2=cbg2), abs(meas - want) < 6 * want / np.sqrt(2 * 200000), meas, want)
R.finish()
