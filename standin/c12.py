"""C12 bounded stand-in: two native runs from equal seeds, recordings after other recordings, copies and pickles of real frames."""
from base import *
import numpy as np, os, glob, pickle, copy
import setigen as stg
from astropy import units as u

R = Runner('C12', 'bounded: two executions per case with equal seeds (frames, voltage streams, recordings), copies of synthetic/.fil/.h5 frames; seeds from VERIF_SEED',
           'quick 4 / thorough 20 seeds per case')
rng = R.rng


def frame_ops(seed, asc):
    fr = stg.Frame(fchans=96, tchans=12, df=2.79, dt=18.25, fch1=6.0952e9, ascending=asc, seed=seed, t_start=1.5e9)
    fr.add_noise(x_mean=10)
    fr.add_noise(x_mean=1, x_std=0.4, noise_type='gaussian')
    fr.add_noise_from_obs(share_index=False)
    fr.add_constant_signal(f_start=fr.get_frequency(30), drift_rate=0.3, level=fr.get_intensity(snr=30), width=20, f_profile_type='gaussian', doppler_smearing=True)
    fr.add_signal(stg.simple_rfi_path(f_start=fr.get_frequency(60), drift_rate=0, spread=30, spread_type='uniform', rfi_type='stationary', seed=seed + 1),
                  stg.periodic_gaussian_t_profile(pulse_width=20, period=60, phase=10, pulse_offset_width=5, pnum=4, amplitude=5, pulse_direction='rand', seed=seed + 2),
                  stg.gaussian_f_profile(width=10), stg.constant_bp_profile(level=1))
    return fr


def streams_ops(seed, array):
    if array:
        a = stg.voltage.MultiAntennaArray(num_antennas=3, sample_rate=3e6, fch1=6e9, ascending=True, num_pols=2, delays=[0, 3, 7], seed=seed)
        for s in a.bg_streams:
            s.add_noise(0, 1)
        for an in a.antennas:
            for s in an.streams:
                s.add_noise(0, 0.5)
                s.add_constant_signal(f_start=6.0005e9, drift_rate=2, level=0.1)
    else:
        a = stg.voltage.Antenna(sample_rate=3e6, fch1=6e9, ascending=True, num_pols=2, seed=seed)
        for s in a.streams:
            s.add_noise(0, 1)
            s.add_constant_signal(f_start=6.0005e9, drift_rate=2, level=0.1)
    return a


def backend_for(a):
    dig = stg.voltage.RealQuantizer(target_fwhm=32, num_bits=8)
    fb = stg.voltage.PolyphaseFilterbank(num_taps=4, num_branches=16)
    rq = stg.voltage.ComplexQuantizer(target_fwhm=32, num_bits=8)
    return stg.voltage.RawVoltageBackend(a, digitizer=dig, filterbank=fb, requantizer=rq, start_chan=0, num_chans=4, block_size=getattr(a, 'num_antennas', 1) * 4 * 2 * 2 * 32, blocks_per_file=2, num_subblocks=2)


def raw_bytes(stem):
    return [open(p, 'rb').read() for p in sorted(glob.glob(stem + '.*.raw'))]


for it in range(R.n(4, 20)):
    seed = R.seed * 1000 + it
    asc = bool(it % 2)
    st0 = np.random.get_state()[1].copy()
    a, b = frame_ops(seed, asc), frame_ops(seed, asc)
    c = dict(seed=seed, ascending=asc)
    R.check('frame/same-seed-same-calls-same-data', c, np.array_equal(a.data, b.data) and a.noise_mean == b.noise_mean and a.t_start == b.t_start, None)
    np.random.seed(it + 5)
    b2 = frame_ops(seed, asc)
    R.check('frame/global-numpy-state-neither-read-nor-written', c, np.array_equal(a.data, b2.data) and np.random.get_state()[1][0] == np.random.RandomState(it + 5).get_state()[1][0], None)
    d = frame_ops(seed + 1, asc)
    R.check('frame/different-seed-different-noise', c, not np.array_equal(a.data, d.data), None)
    for array in (False, True):
        x, y = streams_ops(seed, array), streams_ops(seed, array)
        vx, vy = x.get_samples(2000), y.get_samples(2000)
        c2 = dict(c, array=array)
        R.check('streams/same-seed-same-voltages', c2, np.array_equal(np.asarray(vx), np.asarray(vy)), None)
        z = streams_ops(seed + 1, array)
        R.check('streams/different-seed-different-voltages', c2, not np.array_equal(np.asarray(vx), np.asarray(z.get_samples(2000))), None)
    # recordings: what is written depends on backend, antenna state, arguments - not on earlier recordings
    array = bool(it % 2)
    p1, p2, p3 = (os.path.join(R.tmp, f'r{it}_{k}') for k in (1, 2, 3))
    be1 = backend_for(streams_ops(seed, array))
    be1.record(output_file_stem=p1, num_blocks=3, length_mode='num_blocks', header_dict={'TELESCOP': 'GBT'}, load_template=False, verbose=False)
    # other recordings in between, with other cards and lengths
    other = backend_for(streams_ops(seed + 7, False))
    other.record(output_file_stem=os.path.join(R.tmp, f'o{it}'), num_blocks=5, length_mode='num_blocks', header_dict={'OBSERVER': 'x', 'TELESCOP': 'ATA'}, verbose=False)
    other.record(output_file_stem=os.path.join(R.tmp, f'o{it}b'), num_blocks=1, length_mode='num_blocks', verbose=False)
    be2 = backend_for(streams_ops(seed, array))
    be2.record(output_file_stem=p2, num_blocks=3, length_mode='num_blocks', header_dict={'TELESCOP': 'GBT'}, load_template=False, verbose=False)
    r1, r2 = raw_bytes(p1), raw_bytes(p2)
    R.check('record/equal-backends-write-equal-files-whatever-was-recorded-before', dict(c, array=array), len(r1) == 2 and r1 == r2, [len(x) for x in r1], [len(x) for x in r2])
    # the same backend records again with the default header: block numbering restarts, no card left over from before
    be2.record(output_file_stem=p3, num_blocks=2, length_mode='num_blocks', verbose=False)
    h = stg.voltage.raw_utils.read_header(p3 + '.0000.raw')
    R.check('record/second-recording-default-header-starts-afresh', dict(c, array=array), int(h['PKTIDX']) == 0 and int(h['PKTSTART']) == 0, {k: h[k] for k in ('PKTIDX', 'PKTSTART', 'PKTSTOP')})

# every construction route threads the seed: two frames from the same seed draw the same noise
for route in ('from_backend_params', 'from_data'):
    def mk(sd):
        if route == 'from_backend_params':
            return stg.Frame.from_backend_params(fchans=32, obs_length=20, sample_rate=3e9, num_branches=1024, fftlength=1048576, int_factor=51, fch1=6e9, ascending=True, seed=sd)
        return stg.Frame.from_data(2.79, 18.25, 6e9, True, np.zeros((8, 32)), seed=sd)
    a_, b_, c_ = mk(R.seed + 3), mk(R.seed + 3), mk(R.seed + 4)
    na, nb_, nc_ = a_.add_noise(10), b_.add_noise(10), c_.add_noise(10)
    R.check(f'frame/{route}/same-seed-same-noise-other-seed-other-noise', dict(route=route), np.array_equal(na, nb_) and not np.array_equal(na, nc_), None)

# the caller's header dictionary, reused for a second recording (with and without the template): not modified, block numbering restarts
for tmpl in (False, True):
    for array in (False, True):
        hd = {'TELESCOP': 'GBT', 'MYCARD': 5}
        be = backend_for(streams_ops(R.seed + 11, array))
        pa, pb = os.path.join(R.tmp, f'd{int(tmpl)}{int(array)}a'), os.path.join(R.tmp, f'd{int(tmpl)}{int(array)}b')
        be.record(output_file_stem=pa, num_blocks=2, length_mode='num_blocks', header_dict=hd, load_template=tmpl, verbose=False)
        ok1 = hd == {'TELESCOP': 'GBT', 'MYCARD': 5}
        be.record(output_file_stem=pb, num_blocks=2, length_mode='num_blocks', header_dict=hd, load_template=tmpl, verbose=False)
        h = stg.voltage.raw_utils.read_header(pb + '.0000.raw')
        R.check('record/caller-dictionary-reused', dict(load_template=tmpl, array=array), ok1 and hd == {'TELESCOP': 'GBT', 'MYCARD': 5} and int(h['PKTIDX']) == 0,
                [sorted(hd), h.get('PKTIDX')])

# injection onto existing RAW with a channelised-noise estimate seeded beforehand: recording keeps the estimate, two runs write the same bytes
pin = os.path.join(R.tmp, 'inj_in')
backend_for(streams_ops(R.seed + 21, False)).record(output_file_stem=pin, num_blocks=3, length_mode='num_blocks', verbose=False)
outs, kept = [], True
for run in range(2):
    a = stg.voltage.Antenna(sample_rate=3e6, fch1=6e9, ascending=True, num_pols=2, seed=R.seed + 31)
    for s in a.streams:
        s.add_constant_signal(f_start=6.0005e9, drift_rate=0, level=0.2)
    fb = stg.voltage.PolyphaseFilterbank(num_taps=4, num_branches=16)
    fb.estimate_channelized_stds(seed=R.seed + 41)
    est = np.array(fb.channelized_stds, dtype=float).copy()
    inj = stg.voltage.RawVoltageBackend.from_data(pin, a, filterbank=fb, start_chan=0, num_subblocks=2)
    po = os.path.join(R.tmp, f'inj_out{run}')
    inj.record(output_file_stem=po, num_blocks=3, length_mode='num_blocks', verbose=False)
    kept = kept and all(np.array_equal(np.asarray(inj.filterbank[0][p].channelized_stds, dtype=float), est) for p in range(2))
    outs.append(raw_bytes(po))
R.check('injection/seeded-estimate-kept-and-runs-identical', dict(seed=R.seed), kept and len(outs[0]) >= 1 and outs[0] == outs[1], [len(x) for x in outs[0]])

# two *processes* (different string-hash seeds, as two runs of a script have): the recorded files are byte-identical
import subprocess, hashlib, sys as _sys
script = '''
import sys, hashlib, glob, warnings
warnings.filterwarnings("ignore")
sys.path.insert(0, sys.argv[1])
import setigen as stg
a = stg.voltage.Antenna(sample_rate=3e6, fch1=6e9, ascending=True, num_pols=2, seed=int(sys.argv[3]))
for s in a.streams:
    s.add_noise(0, 1); s.add_constant_signal(f_start=6.0005e9, drift_rate=2, level=0.1)
be = stg.voltage.RawVoltageBackend(a, digitizer=stg.voltage.RealQuantizer(target_fwhm=32, num_bits=8), filterbank=stg.voltage.PolyphaseFilterbank(num_taps=4, num_branches=16),
                                   requantizer=stg.voltage.ComplexQuantizer(target_fwhm=32, num_bits=8), start_chan=0, num_chans=4, block_size=4 * 2 * 2 * 32, blocks_per_file=2, num_subblocks=2)
be.record(output_file_stem=sys.argv[2], num_blocks=3, length_mode="num_blocks", header_dict={"TELESCOP": "GBT"}, verbose=False)
h = hashlib.sha256()
for p in sorted(glob.glob(sys.argv[2] + ".*.raw")):
    h.update(open(p, "rb").read())
print(h.hexdigest())
'''
digests = []
for hs in ('1', '2', '3'):
    stem = os.path.join(R.tmp, 'proc' + hs)
    pr = subprocess.run([_sys.executable, '-c', script, REPO, stem, str(R.seed + 9)], capture_output=True, text=True, env=dict(os.environ, PYTHONHASHSEED=hs), timeout=600)
    digests.append(pr.stdout.strip().splitlines()[-1] if pr.returncode == 0 and pr.stdout.strip() else 'ERROR ' + pr.stderr[-200:])
R.check('record/identical-files-from-separate-processes', dict(hash_seeds=[1, 2, 3]), len(set(digests)) == 1 and not digests[0].startswith('ERROR'), digests)

# copies
base = stg.Frame(fchans=64, tchans=8, df=2.79 * u.Hz, dt=18.25 * u.s, fch1=6095.2 * u.MHz, seed=R.seed + 3)
base.add_noise(5)
base.add_metadata({'tag': [1, 2]})
pf, ph = os.path.join(R.tmp, 'c.fil'), os.path.join(R.tmp, 'c.h5')
base.save_fil(pf)
base.save_h5(ph)
for origin, make in (('synthetic', lambda: base), ('fil', lambda: stg.Frame(pf)), ('h5', lambda: stg.Frame(ph))):
    c = dict(origin=origin)

    def run():
        f = make()
        f.rng = np.random.default_rng(5)
        g = f.copy()
        same = (np.array_equal(g.data, f.data) and np.array_equal(g.fs, f.fs) and np.array_equal(g.ts, f.ts) and g.metadata == f.metadata and g.df == f.df and g.dt == f.dt
                and g.fch1 == f.fch1 and g.ascending == f.ascending and g.t_start == f.t_start and g.noise_mean == f.noise_mean and g.noise_std == f.noise_std)
        R.check(f'copy/{origin}/equal-field-by-field', c, bool(same), None)
        shared = g.data is f.data or np.shares_memory(g.data, f.data) or g.metadata is f.metadata or g.rng is f.rng or np.shares_memory(g.fs, f.fs) or np.shares_memory(g.ts, f.ts)
        if f.waterfall is not None:
            shared = shared or g.waterfall is f.waterfall or g.waterfall is None or (g.waterfall.data is not None and f.waterfall.data is not None and np.shares_memory(g.waterfall.data, f.waterfall.data)) \
                or g.waterfall.header is f.waterfall.header
        R.check(f'copy/{origin}/no-shared-mutable-object', c, not shared, None)
        R.check(f'copy/{origin}/generators-at-the-same-state', c, g.rng.random() == f.rng.random(), None)
        keep = f.data.copy()
        g.add_noise(3)
        g.data[0, 0] = -1
        g.metadata.setdefault('tag', []).append(9) if isinstance(g.metadata.get('tag'), list) else g.metadata.update(new=1)
        g.get_waterfall()
        R.check(f'copy/{origin}/mutating-the-copy-leaves-the-original', c, np.array_equal(f.data, keep) and f.metadata.get('tag') in (None, [1, 2]) and 'new' not in f.metadata, None)
        f.data[:] = 0
        R.check(f'copy/{origin}/mutating-the-original-leaves-the-copy', c, g.data[0, 0] == -1 and g.data[1].any(), None)
        p = pickle.loads(pickle.dumps(make()))
        R.check(f'pickle/{origin}/round-trip', c, np.array_equal(p.data, make().data) and p.waterfall is None, None)
    R.guard(f'copy/{origin}/no-exception', c, run)
R.finish()
