"""C06 bounded stand-in: the confinement / additivity / state clauses are evaluated by the C01 harness (same runs)."""
import os
src = open(os.path.join(os.path.dirname(os.path.abspath(__file__)), 'c01.py')).read().replace("Runner('C01'", "Runner('C06'")
exec(compile(src, 'c01.py', 'exec'))
