"""C03 bounded stand-in: real round trips through .fil / .h5 for every construction route, blimpy as the independent reader."""
from base import *
import numpy as np, os, logging
logging.disable(logging.CRITICAL)
import setigen as stg
from setigen import waterfall_utils as wu
from blimpy import Waterfall

R = Runner('C03', 'bounded: frames <= 16 x 48, realistic and awkward resolutions, both orientations, 11 construction routes x 2 formats, seeds from VERIF_SEED',
           'quick 60 / thorough 600 round trips')
rng = R.rng
ROUTES = ['synthetic', 'loaded-fil', 'loaded-h5', 'copy', 'copy-of-loaded', 'slice', 'slice-of-loaded', 'dedrift', 'dedrift-of-loaded', 'after-get_waterfall', 'slice-after-get_waterfall',
          'saved-before', 'retimed-after-get_waterfall', 'copy-of-retimed', 'slice-of-slice-of-loaded', 'loaded-time-selection', 'loaded-frequency-selection', 'slice-of-time-selection']
k = 0
for it in range(R.n(60, 600)):
    nch = rng.choice([16, 32, 48])
    T = rng.choice([4, 8, 16])
    df = rng.choice([2.7939677238464355, 1.0, 2.79, 0.3, 91.552734375])
    dt = rng.choice([18.253611008, 1.0, 0.5])
    fch1 = rng.choice([6095.214842353016e6, 1420.0e6, 8421.38671875e6])
    asc = rng.random() < 0.5
    route = ROUTES[it % len(ROUTES)] if it < 2 * len(ROUTES) else rng.choice(ROUTES)
    fmt = rng.choice(['fil', 'h5'])
    c = dict(nch=nch, T=T, df=df, dt=dt, fch1=fch1, ascending=asc, route=route, fmt=fmt)
    base = stg.Frame(fchans=nch, tchans=T, df=df, dt=dt, fch1=fch1, ascending=asc, seed=R.seed * 10000 + it, t_start=1.6e9 + 17 * it, source_name=f'SRC{it}')
    base.add_noise(5, 1, noise_type='gaussian')
    base.add_constant_signal(base.get_frequency(nch // 3), 0.0, 50, 2 * df)

    def build():
        p0 = os.path.join(R.tmp, f'b{it}.' + ('h5' if route == 'loaded-h5' else 'fil'))
        if route == 'synthetic':
            return base
        if route in ('loaded-fil', 'loaded-h5'):
            (base.save_h5 if route == 'loaded-h5' else base.save_fil)(p0)
            return stg.Frame(p0)
        if route == 'copy':
            return base.copy()
        if route == 'copy-of-loaded':
            base.save_fil(p0)
            return stg.Frame(p0).copy()
        if route == 'slice':
            return base.get_slice(nch // 4, nch // 4 + nch // 2)
        if route == 'slice-of-loaded':
            base.save_fil(p0)
            return stg.Frame(p0).get_slice(nch // 4, nch // 4 + nch // 2)
        if route == 'slice-of-slice-of-loaded':
            base.save_fil(p0)
            return stg.Frame(p0).get_slice(2, nch - 2).get_slice(1, nch // 2)
        if route == 'dedrift':
            return stg.dedrift(base, drift_rate=df / dt / 4)
        if route == 'dedrift-of-loaded':
            base.save_fil(p0)
            return stg.dedrift(stg.Frame(p0), drift_rate=-df / dt / 4)
        if route == 'after-get_waterfall':
            base.get_waterfall()
            return base
        if route == 'slice-after-get_waterfall':
            base.get_waterfall()
            return base.get_slice(2, 2 + nch // 2)
        if route in ('loaded-time-selection', 'slice-of-time-selection'):
            base.save_fil(p0)
            a = rng.randint(1, max(1, T // 2 - 1))
            fsel = stg.Frame(waterfall=Waterfall(p0, t_start=a, t_stop=T))
            return fsel if route == 'loaded-time-selection' else fsel.get_slice(1, nch // 2)
        if route == 'loaded-frequency-selection':
            base.save_fil(p0)
            lo, hi = sorted([base.fs[nch // 4], base.fs[nch // 4 + nch // 2]])
            return stg.Frame(p0, f_start=lo * 1e-6, f_stop=hi * 1e-6)
        if route in ('retimed-after-get_waterfall', 'copy-of-retimed'):
            base.get_waterfall()
            base.t_start = base.t_start + 978.0
            return base if route == 'retimed-after-get_waterfall' else base.copy()
        if route == 'saved-before':
            base.save_fil(p0)
            base.data[:] = base.data[:, ::-1].copy()
            return base
    f = R.guard('build/no-exception', c, build)
    if f is None:
        continue
    p = os.path.join(R.tmp, f'o{it}.{fmt}')
    g = R.guard('save-load/no-exception', c, lambda: ((f.save_fil if fmt == 'fil' else f.save_h5)(p), stg.Frame(p))[1])
    if g is None:
        continue
    tol = abs(df) * 1e-3 + 16 * np.spacing(fch1)
    R.check('round-trip/shape', c, g.shape == f.shape, g.shape, f.shape)
    if g.shape != f.shape:
        continue
    R.check('round-trip/intensities-to-float32', c, np.allclose(g.data, f.data.astype(np.float32), rtol=1e-6, atol=0), None)
    R.check('round-trip/frequency-axis', c, np.allclose(g.fs, f.fs, rtol=0, atol=tol) and abs(g.fch1 - f.fch1) <= tol, [float(g.fs[0]), float(g.fs[-1])], [float(f.fs[0]), float(f.fs[-1])])
    R.check('round-trip/resolutions-start-orientation-name', c, abs(g.df - f.df) <= 1e-9 * df and abs(g.dt - f.dt) <= 1e-9 * dt and abs(g.t_start - f.t_start) <= 1e-3 and g.ascending == f.ascending
            and g.source_name == f.source_name, [g.df, g.dt, g.t_start, g.ascending, g.source_name], [f.df, f.dt, f.t_start, f.ascending, f.source_name])
    # independent reader: every pixel at the same sky frequency
    w = Waterfall(p)
    fr, d = w.grab_data()
    srt = np.argsort(fr)
    R.check('blimpy/every-pixel-at-the-same-sky-frequency', c, len(fr) == f.fchans and np.allclose(np.sort(fr) * 1e6, f.fs, rtol=0, atol=tol) and np.allclose(d[:, srt], f.data.astype(np.float32), rtol=1e-6), None)
    # helpers
    a_fs, a_ts = wu.get_fs(p), wu.get_ts(p)
    R.check('helpers/get_fs-get_ts-lengths', c, len(a_fs) == f.fchans and len(a_ts) == f.tchans, [len(a_fs), len(a_ts)], [f.fchans, f.tchans])
    R.check('helpers/axes-equal-the-loaded-frame', c, len(a_fs) == g.fchans and np.allclose(np.sort(a_fs) * 1e6, g.fs, rtol=0, atol=tol) and np.allclose(a_ts, g.ts - g.ts[0], rtol=1e-9, atol=1e-9), None)
    R.check('helpers/min-max-frequency', c, abs(wu.min_freq(p) * 1e6 - f.fs[0]) <= tol and abs(wu.max_freq(p) * 1e6 - f.fs[-1]) <= tol, [wu.min_freq(p), wu.max_freq(p)])
    R.check('helpers/get_data-shape', c, wu.get_data(p).shape == f.shape, None)
    # in-session equivalent
    wf = f.get_waterfall()
    h = stg.Frame(waterfall=wf)
    R.check('in-session/frame-from-get_waterfall-equals-the-frame', c, h.shape == f.shape and np.allclose(h.data, f.data) and np.allclose(h.fs, f.fs, rtol=0, atol=tol) and h.ascending == f.ascending
            and wf.container.selection_shape == (f.tchans, 1, f.fchans), None)
    for q in (p,):
        os.unlink(q)
# degenerate geometries (a single integration / a single channel), filterbank container only: blimpy's own HDF5 reader needs >= 3 x 3
for gi, (T, nch, how) in enumerate([(1, 32, 'direct'), (8, 1, 'direct'), (8, 32, 'one-channel-slice'), (8, 32, 'spectrum'), (3, 3, 'direct')]):
    for asc in (True, False):
        c = dict(T=T, nch=nch, how=how, ascending=asc, fmt='fil')
        base = stg.Frame(fchans=nch, tchans=T, df=2.79, dt=1.5, fch1=1420.0e6, ascending=asc, seed=77 + gi, t_start=1.6e9, source_name='DEG')
        base.add_noise(5, 1, noise_type='gaussian')
        f = base if how == 'direct' else (base.get_slice(5, 6) if how == 'one-channel-slice' else stg.integrate(base, axis='t', as_frame=True))
        p = os.path.join(R.tmp, f'deg{gi}_{int(asc)}.fil')
        g = R.guard('degenerate/save-load/no-exception', c, lambda: (f.save_fil(p), stg.Frame(p))[1])
        if g is None:
            continue
        R.check('degenerate/round-trip', c, g.shape == f.shape and g.data.shape == f.data.shape and np.allclose(g.data, f.data.astype(np.float32), rtol=1e-6)
                and np.allclose(g.fs, f.fs, rtol=0, atol=1e-2) and g.ascending == f.ascending, [list(g.shape), list(g.data.shape)], list(f.shape))
        R.check('degenerate/helpers', c, wu.get_data(p).shape == f.shape and len(wu.get_fs(p)) == f.fchans and len(wu.get_ts(p)) == f.tchans, list(wu.get_data(p).shape), list(f.shape))
R.finish()
