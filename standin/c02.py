"""C02 bounded stand-in: bytes written by the real record() vs a straight-line reference pipeline; partition independence."""
from base import *
import numpy as np, cmath
import setigen as stg
from setigen.voltage import raw_utils

R = Runner('C02', 'bounded: <= 3 antennas x 2 pols, taps <= 4, 8-16 branches, <= 4 blocks of <= 2 KiB, every sub-block count 1..M incl. non-divisors, blocks-per-file 1..3', 'blocks <= 2 KiB')
rng = R.rng


def make(cfg, nsub, bpf, seed, prefix_stats=False):
    nant, npol, nbits, taps, nb, nc, sc, M, dig = cfg
    if nant == 1:
        src = stg.voltage.Antenna(sample_rate=1e6, fch1=0, ascending=True, num_pols=npol, seed=seed)
        streams = src.streams
    else:
        src = stg.voltage.MultiAntennaArray(num_antennas=nant, sample_rate=1e6, fch1=0, num_pols=npol, delays=list(range(nant)), seed=seed)
        streams = [s for a in src.antennas for s in a.streams] + src.bg_streams
    for s in streams:
        s.add_noise(0, 1)
        s.add_constant_signal(f_start=1e5, drift_rate=0, level=0.3)
    bps = 2 * npol * nbits // 8
    kd = dict(stats_calc_num_samples=8) if prefix_stats else {}
    kr = dict(stats_calc_num_samples=taps) if prefix_stats else {}
    be = stg.voltage.RawVoltageBackend(src, digitizer=stg.voltage.RealQuantizer(target_fwhm=32, num_bits=8, stats_calc_period=-1, **kd),
                                       filterbank=stg.voltage.PolyphaseFilterbank(num_taps=taps, num_branches=nb),
                                       requantizer=stg.voltage.ComplexQuantizer(target_fwhm=32 if nbits == 8 else 6, num_bits=nbits, stats_calc_period=-1, **kr),
                                       start_chan=sc, num_chans=nc, block_size=M * taps * nant * nc * bps, blocks_per_file=bpf, num_subblocks=nsub)
    return be, src


def decode(stem, nant, npol, nbits, nc):
    """Independent decode with the standard layout: channel-major, time, polarisation, re/im; 4-bit re high / im low nibble."""
    out = []
    i = 0
    while os.path.exists(f'{stem}.{i:04d}.raw'):
        raw = open(f'{stem}.{i:04d}.raw', 'rb').read()
        pos = 0
        while pos < len(raw):
            n = 0
            hdr = {}
            while not raw[pos + 80 * n: pos + 80 * n + 80].startswith(b'END'):
                card = raw[pos + 80 * n: pos + 80 * n + 80].decode()
                hdr[card[:8].strip()] = card[9:].strip().strip("'").strip()
                n += 1
            hs = 80 * (n + 1)
            if int(hdr.get('DIRECTIO', 0)) != 0:
                hs = (hs + 511) // 512 * 512
            bs = int(hdr['BLOCSIZE'])
            d = np.frombuffer(raw[pos + hs: pos + hs + bs], dtype=np.int8).reshape(nant * nc, -1).astype(int)
            T = d.shape[1] // (2 * npol * nbits // 8)
            blk = np.zeros((nant * nc, T, npol), dtype=complex)
            for t in range(T):
                for p in range(npol):
                    if nbits == 8:
                        blk[:, t, p] = d[:, (t * npol + p) * 2] + 1j * d[:, (t * npol + p) * 2 + 1]
                    else:
                        b = d[:, t * npol + p] & 0xFF
                        re, im = b >> 4, b & 0xF
                        re = np.where(re >= 8, re - 16, re); im = np.where(im >= 8, im - 16, im)
                        blk[:, t, p] = re + 1j * im
            out.append(blk)
            pos += hs + bs
        os.unlink(f'{stem}.{i:04d}.raw')
        i += 1
    return np.concatenate(out, axis=1)


def reference(cfg, nblocks, seed):
    """Straight-line pipeline: all samples in one request, one-shot PFB from the definition, quantisers with the same frozen statistics."""
    nant, npol, nbits, taps, nb, nc, sc, M, dig = cfg
    be, src = make(cfg, 1, 1, seed)
    T = M * taps
    total = nblocks * T * nb + taps * nb
    v = src.get_samples(total)
    out = np.zeros((nant * nc, nblocks * T, npol), dtype=complex)
    for a in range(nant):
        for p in range(npol):
            x = np.array(v[a][p], dtype=float)
            if dig:
                d = be.digitizer[a][p]
                # statistics from the first request of the real run: the first sub-block's samples (common prefix)
                x = None
            out[a * nc:(a + 1) * nc, :, p] = 0
    return None


case = 0
for it in range(R.n(10, 120)):
    case += 1
    nant, npol, nbits = rng.choice([1, 1, 2, 3]), rng.choice([1, 2]), rng.choice([8, 4])
    taps, nb = rng.choice([2, 3, 4]), rng.choice([8, 16])
    nc = rng.randint(1, nb // 2); sc = rng.randint(0, nb // 2 - nc)
    M = rng.randint(1, 7)
    dig = rng.random() < 0.7
    cfg = (nant, npol, nbits, taps, nb, nc, sc, M, dig)
    N = rng.randint(1, 4)
    c = dict(nant=nant, npol=npol, nbits=nbits, taps=taps, nb=nb, nc=nc, sc=sc, M=M, digitize=dig, N=N)
    results = {}
    # partition independence: every sub-block count 1..M (incl. non-divisors) and several blocks-per-file, same seed.
    # quantiser statistics frozen after the first call (stats_calc_period=-1) and taken from a common prefix: make the first
    # request identical by fixing the statistics explicitly after construction
    for nsub in sorted(set([1, M, rng.randint(1, M), rng.randint(1, M + 2)])):
        for bpf in sorted(set([1, rng.randint(1, 3)])):
            be, src = make(cfg, nsub, bpf, case)
            # statistics from a common prefix: preset the caches from a fixed reference so that every partition uses the same ones
            for a in range(nant):
                for p in range(npol):
                    be.digitizer[a][p].stats_cache = [0.0, 1.05]
                    be.digitizer[a][p].stats_calc_indices = 1
                    be.requantizer[a][p].quantizer_r.stats_cache = [0.0, 7.0]; be.requantizer[a][p].quantizer_r.stats_calc_indices = 1
                    be.requantizer[a][p].quantizer_i.stats_cache = [0.0, 7.0]; be.requantizer[a][p].quantizer_i.stats_calc_indices = 1
            # record() resets the caches: re-apply the frozen statistics through a thin subclass hook
            for q in [be.digitizer[a][p] for a in range(nant) for p in range(npol)]:
                q._reset_cache = (lambda q=q: (setattr(q, 'stats_cache', [0.0, 1.05]), setattr(q, 'stats_calc_indices', 1)))
            for rq in [be.requantizer[a][p] for a in range(nant) for p in range(npol)]:
                rq._reset_cache = (lambda rq=rq: [(setattr(x, 'stats_cache', [0.0, 7.0]), setattr(x, 'stats_calc_indices', 1)) for x in (rq.quantizer_r, rq.quantizer_i)])
            stem = os.path.join(R.tmp, f'p{case}_{nsub}_{bpf}')
            ok = R.guard('record', dict(c, nsub=nsub, bpf=bpf), lambda: (be.record(stem, num_blocks=N, length_mode='num_blocks', digitize=dig, header_dict={}, load_template=False, verbose=False), True)[1])
            if not ok:
                continue
            results[(nsub, bpf)] = decode(stem, nant, npol, nbits, nc)
    keys = list(results)
    if len(keys) >= 2:
        base = results[keys[0]]
        same = all(results[k].shape == base.shape and np.array_equal(results[k], base) for k in keys[1:])
        R.check('partition-independence/sub-blocks-and-blocks-per-file', dict(c, partitions=[list(k) for k in keys]), same, None)
    # the same with the library's own "estimate once" schedule (stats_calc_period=-1) and statistics taken from a prefix that every
    # partition shares (the first `taps` spectra / first 8 voltages): nothing is preset or patched here
    honest = {}
    for nsub in sorted(set([1, M, rng.randint(1, M)])):
        for bpf in sorted(set([1, 3])):
            be, src = make(cfg, nsub, bpf, case, prefix_stats=True)
            stem = os.path.join(R.tmp, f'h{case}_{nsub}_{bpf}')
            if R.guard('record', dict(c, nsub=nsub, bpf=bpf, prefix_stats=True), lambda: (be.record(stem, num_blocks=N, length_mode='num_blocks', digitize=dig, header_dict={}, load_template=False, verbose=False), True)[1]):
                honest[(nsub, bpf)] = decode(stem, nant, npol, nbits, nc)
    hk = list(honest)
    if len(hk) >= 2:
        same = all(honest[k].shape == honest[hk[0]].shape and np.array_equal(honest[k], honest[hk[0]]) for k in hk[1:])
        R.check('partition-independence/estimate-once-statistics-from-a-common-prefix', dict(c, partitions=[list(k) for k in hk]), same, None)
    if keys:
        got = results[keys[0]]
        lo, hi = -2 ** (nbits - 1), 2 ** (nbits - 1) - 1
        R.check('range/signed-b-bit', c, got.real.min() >= lo and got.real.max() <= hi and got.imag.min() >= lo and got.imag.max() <= hi and got.shape == (nant * nc, N * M * taps, npol), list(got.shape))
        # reference: one-shot pipeline with the same frozen statistics
        be, src = make(cfg, 1, 1, case)
        T = M * taps
        total = N * T * nb + taps * nb
        v = src.get_samples(total)
        worst, ndiff, ntot = 0, 0, 0
        sat_ok, nsat = True, 0

        def q_ref(x, tstd, dstd, bits):
            """independent quantiser: round-half-even of the rescaled value (zero means), and the unclipped rounded value"""
            r = np.round(np.asarray(x, dtype=float) * tstd / dstd)
            return np.clip(r, -2 ** (bits - 1), 2 ** (bits - 1) - 1), r
        for a in range(nant):
            for p in range(npol):
                x = np.array(v[a][p], dtype=float)
                if dig:
                    x, _ = q_ref(x, be.digitizer[a][p].target_std, 1.05, 8)
                h = np.array(be.filterbank[a][p].window)
                X = np.zeros((N * T, nb // 2), dtype=complex)
                for n_ in range(N * T):
                    fir = [sum(h[j * nb + b] * x[(n_ + j) * nb + b] for j in range(taps)) for b in range(nb)]
                    F = np.fft.fft(fir) / nb ** 0.5
                    X[n_] = F[:nb // 2]
                Xs = X[:, sc:sc + nc]
                rr, ur = q_ref(Xs.real, be.requantizer[a][p].quantizer_r.target_std, 7.0, nbits)
                ri, ui = q_ref(Xs.imag, be.requantizer[a][p].quantizer_i.target_std, 7.0, nbits)
                ref = (rr + 1j * ri).T
                g_ = got[a * nc:(a + 1) * nc, :, p]
                diff = np.abs(g_ - ref)
                # components saturating well beyond either end of the code range must sit exactly on that end (no rounding ambiguity there)
                lo_, hi_ = -2 ** (nbits - 1), 2 ** (nbits - 1) - 1
                for gv, uv in ((g_.real, ur.T), (g_.imag, ui.T)):
                    m_lo, m_hi = uv <= lo_ - 1, uv >= hi_ + 1
                    nsat += int(m_lo.sum() + m_hi.sum())
                    sat_ok = sat_ok and bool(np.all(gv[m_lo] == lo_)) and bool(np.all(gv[m_hi] == hi_))
                worst = max(worst, float(diff.max())); ndiff += int((diff > 0).sum()); ntot += diff.size
        # rounding at exact .5 boundaries may differ by one unit between FFT implementations: allow isolated +-1 (counted), nothing larger
        R.check('pipeline/equals-straight-line-reference', c, worst <= 1.0 and ndiff <= max(2, ntot // 500), [worst, ndiff, ntot])
        R.check('pipeline/saturated-components-sit-on-the-ends-of-the-code-range', dict(c, saturated=nsat), sat_ok, nsat, nontrivial=nsat > 0)
R.finish()
