"""C17 bounded stand-in: derived frames on the real code vs per-pixel reference loops."""
from base import *
import numpy as np
import setigen as stg

R = Runner('C17', 'bounded: seeded-random frames (<= 48 x 200), slice/dedrift/integrate vs per-pixel reference', 'frames <= 48x200')
rng = R.rng
nrng = np.random.default_rng(R.seed + 5)


def rnd(x):
    return int(np.round(x))


for it in range(R.n(30, 600)):
    n, T = rng.randint(2, 200), rng.randint(1, 48)
    df, dt = rng.choice([2.79, 1.0, 7.3]), rng.choice([18.25, 1.0, 0.37])
    asc = rng.random() < 0.5
    fch1 = rng.choice([6e9, 1.4e9])
    data = nrng.normal(10, 1, (T, n))
    fr = stg.Frame(fchans=n, tchans=T, df=df, dt=dt, fch1=fch1, ascending=asc, data=data, t_start=1234.5, source_name='SRC')
    c = dict(n=n, T=T, df=df, dt=dt, asc=asc, fch1=fch1)

    def inh(tag, g, cc):
        R.check(tag + '/inherits', cc, g.ascending == fr.ascending and g.t_start == fr.t_start and g.source_name == fr.source_name, [g.t_start, g.source_name])
        R.check(tag + '/copy-not-view', cc, not np.shares_memory(g.data, fr.data), None)
    l = rng.randint(0, n - 1); r = rng.randint(l + 1, n)
    s = R.guard('slice', dict(c, l=l, r=r), lambda: stg.get_slice(fr, l, r))
    if s is not None:
        R.check('slice/data+axis', dict(c, l=l, r=r), np.array_equal(s.data, fr.data[:, l:r]) and np.allclose(s.fs, fr.fs[l:r], rtol=0, atol=1e-6 * df)
                and s.df == fr.df and s.dt == fr.dt, None)
        inh('slice', s, dict(c, l=l, r=r))
    d = rng.choice([0.0, 1, -1]) * rng.uniform(0, 1.2) * (n - 1) * df / (T * dt)
    mo = rnd(abs(d) * T * dt / df)
    cc = dict(c, drift=d)
    try:
        g = stg.dedrift(fr, d)
        err = None
    except ValueError as e:
        g, err = None, e
    except Exception as e:
        R.check('dedrift/exception', cc, False, repr(e)); continue
    R.check('dedrift/rejects-iff-no-channels', cc, (g is None) == (mo >= n), mo)
    if g is not None:
        W = n - mo
        ref = np.zeros((T, W))
        for i in range(T):
            off = rnd(abs(d) * i * dt / df)
            for j in range(W):
                ref[i, j] = fr.data[i, j + off] if d >= 0 else fr.data[i, j + mo - off]
        fs_ref = fr.fs[:W] if d >= 0 else fr.fs[mo:]
        R.check('dedrift/data', cc, g.data.shape == (T, W) and np.array_equal(g.data, ref), None)
        R.check('dedrift/row0-frequencies', cc, np.allclose(g.fs, fs_ref, rtol=0, atol=1e-6 * df), None)
        inh('dedrift', g, cc)
    for axis in ('t', 'f'):
        for mode in ('mean', 'sum'):
            v = stg.integrate(fr, axis=axis, mode=mode)
            ref = [sum(fr.data[i, j] for j in range(n)) / (1 if mode == 'sum' else n) for i in range(T)] if axis == 'f' else \
                  [sum(fr.data[i, j] for i in range(T)) / (1 if mode == 'sum' else T) for j in range(n)]
            R.check('integrate/value', dict(c, axis=axis, mode=mode), np.allclose(v, ref, rtol=1e-9), None)
    from astropy.stats import sigma_clip as _sc
    for axis in ('t', 'f'):
        raw = stg.integrate(fr, axis=axis)
        cl = _sc(raw.reshape((-1, 1)) if axis == 'f' else raw.reshape((1, -1)))
        ref = (raw - np.mean(cl)) / np.std(cl)
        a = stg.integrate(fr, axis=axis, normalize=True)
        b = stg.integrate(fr, axis=axis, normalize=True, as_frame=True).data.flatten()
        if np.std(cl) > 0:
            R.check('integrate/normalized-same-in-every-output-form', dict(c, axis=axis), np.allclose(a, ref, rtol=1e-9) and np.allclose(b, ref, rtol=1e-9), None)
    sp = stg.spectrum(fr); ts_ = stg.timeseries(fr)
    R.check('spectrum/axis', c, sp.data.shape == (1, n) and np.allclose(sp.fs, fr.fs, rtol=0, atol=1e-6 * df), None)
    R.check('timeseries/axis', c, ts_.data.shape == (T, 1) and np.allclose(ts_.ts, fr.ts), None)
    inh('spectrum', sp, c); inh('timeseries', ts_, c)
# the spectrum / timeseries wrappers are integrate(..., as_frame=True) with the same mode and normalisation
fr = stg.Frame(fchans=20, tchans=6, df=2.0, dt=1.0, fch1=1e9, ascending=True, seed=3, t_start=5.0)
fr.add_noise(10)
for mode in ('mean', 'sum'):
    a, b = stg.timeseries(fr, mode=mode), stg.integrate(fr, axis='f', mode=mode, as_frame=True)
    c2, d2 = stg.spectrum(fr, mode=mode), stg.integrate(fr, axis='t', mode=mode, as_frame=True)
    ref_t = fr.data.sum(axis=1) if mode == 'sum' else fr.data.mean(axis=1)
    ref_f = fr.data.sum(axis=0) if mode == 'sum' else fr.data.mean(axis=0)
    R.check('wrappers/timeseries-and-spectrum-pass-the-mode-through', dict(mode=mode), np.allclose(a.data.ravel(), ref_t) and np.allclose(b.data.ravel(), ref_t)
            and np.allclose(c2.data.ravel(), ref_f) and np.allclose(d2.data.ravel(), ref_f), [float(a.data.ravel()[0]), float(ref_t[0])])
R.finish()
