"""C05 bounded stand-in: real frames, float axes."""
from base import *
import numpy as np
import setigen as stg
from astropy import units as u

R = Runner('C05', 'bounded: seeded-random frame geometries (fchans <= 4096, tchans <= 64), every channel round-tripped', 'fchans <= 4096')
rng = R.rng
for it in range(R.n(40, 1500)):
    n = rng.choice([1, 2, 3, 7, 64, 257, 1024, rng.randint(1, 4096)])
    T = rng.choice([1, 2, 16, rng.randint(1, 64)])
    df = rng.choice([2.7939677238464355, 1.0, 0.5, 1e3, rng.uniform(1e-2, 1e6)])
    dt = rng.choice([18.253611008, 1.0, rng.uniform(1e-3, 100)])
    fch1 = rng.choice([6e9, 1e9, 1420.40575e6, rng.uniform(1e8, 1e11)])
    asc = rng.random() < 0.5
    c = dict(fchans=n, tchans=T, df=df, dt=dt, fch1=fch1, ascending=asc)
    route = it % 3
    def mk(c=c, route=route):
        if route == 0:
            return stg.Frame(fchans=c['fchans'], tchans=c['tchans'], df=c['df'] * u.Hz, dt=c['dt'] * u.s, fch1=c['fch1'] * u.Hz, ascending=c['ascending'], t_start=0)
        if route == 1:
            return stg.Frame(shape=(c['tchans'], c['fchans']), df=c['df'], dt=c['dt'], fch1=c['fch1'], ascending=c['ascending'], t_start=0)
        return stg.Frame.from_data(c['df'], c['dt'], c['fch1'], c['ascending'], np.zeros((c['tchans'], c['fchans'])))
    f = R.guard('construct', c, mk)
    if f is None:
        continue
    tol = 1e-9 * df + 4 * np.spacing(abs(fch1) + n * df)
    R.check('axes/increasing-uniform', c, f.fs.shape == (n,) and (n == 1 or (np.all(np.diff(f.fs) > 0) and np.allclose(np.diff(f.fs), df, rtol=0, atol=1e-9 * df + 4 * np.spacing(abs(f.fs[-1]))))), None)
    R.check('axes/endpoints', c, abs(f.fs[0] - f.fmin) <= tol and abs(f.fs[-1] - f.fmax) <= tol and abs((f.fmax if not asc else f.fmin) - fch1) <= tol, [f.fmin, f.fmax])
    R.check('axes/ts', c, f.ts.shape == (T,) and np.allclose(f.ts, np.arange(T) * dt, rtol=1e-12, atol=0), None)
    idx = np.arange(n)
    back = f.get_index(f.get_frequency(idx))
    R.check('roundtrip/every-channel', c, bool(np.array_equal(back, idx)), None if np.array_equal(back, idx) else int(np.argmax(back != idx)))
    x = f.fmin + rng.uniform(-0.49, n - 0.51) * df
    k = int(f.get_index(x))
    R.check('get_index/nearest', dict(c, x=x), abs(x - (f.fmin + k * df)) <= df / 2 * (1 + 1e-9) + 4 * np.spacing(abs(x)), k)
    R.check('derived', c, abs(f.fmid - (f.fmin + f.fmax) / 2) <= tol and abs(f.t_stop - (f.t_start + T * dt)) <= 1e-9 and len(f.ts_ext) == T + 1
            and abs(f.ts_ext[-1] - T * dt) <= 1e-9 * T * dt and abs(f.unit_drift_rate - df / dt) <= 1e-12 * df / dt, None)
    t_keep = f.t_start
    f.t_start = t_keep + 4000.0
    R.check('derived/t_stop-follows-a-re-timed-start', c, abs(f.t_stop - (t_keep + 4000.0 + T * dt)) <= 1e-6, f.t_stop, t_keep + 4000.0 + T * dt)
    f.t_start = t_keep
    # opposite orientation, same band
    g = stg.Frame(fchans=n, tchans=T, df=df, dt=dt, fch1=(f.fmin if asc else f.fmax) if False else (f.fmax if asc else f.fmin), ascending=not asc, t_start=0)
    R.check('orientation/same-axes', c, np.allclose(f.fs, g.fs, rtol=0, atol=1e-9 * df + 8 * np.spacing(abs(fch1) + n * df)) and np.array_equal(f.ts, g.ts), float(np.max(np.abs(f.fs - g.fs))))
# axis lengths for many (tchans, dt) / (fchans, df) pairs (float length of the axes)
for T in range(1, R.n(70, 300)):
    for dt in (0.1, 0.3, 0.7, 1.0737, 18.253611008, 1.4316557653333333):
        f = stg.Frame(fchans=T, tchans=T, df=dt, dt=dt, fch1=1e9, t_start=0)
        R.check('axes/lengths', dict(tchans=T, fchans=T, dt=dt, df=dt), f.ts.shape == (T,) and f.fs.shape == (T,) and len(f.ts_ext) == T + 1, [f.ts.shape, f.fs.shape])
R.finish()
