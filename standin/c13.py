"""C13 bounded stand-in: add_constant_signal vs the general injection, pixel by pixel."""
from base import *
import numpy as np
import setigen as stg

R = Runner('C13', 'bounded: seeded-random (f_start, drift of either sign / zero, width incl. sub-channel, 5 profile types, smearing) on frames <= 16 x 128', 'frames <= 16x128')
rng = R.rng
PROF = {'box': stg.box_f_profile, 'sinc2': stg.sinc2_f_profile, 'gaussian': stg.gaussian_f_profile, 'lorentzian': stg.lorentzian_f_profile,
        'voigt': lambda w: stg.voigt_f_profile(w, w)}
for it in range(R.n(120, 4000)):
    T, n = rng.randint(1, 16), rng.randint(8, 128)
    df, dt = rng.choice([1.0, 2.79]), rng.choice([1.0, 18.25, 0.5])
    asc = rng.random() < 0.5
    ptype = rng.choice(list(PROF))
    smear = rng.random() < 0.5
    fr = stg.Frame(fchans=n, tchans=T, df=df, dt=dt, fch1=4096.0, ascending=asc, t_start=0)
    g = stg.Frame(fchans=n, tchans=T, df=df, dt=dt, fch1=4096.0, ascending=asc, t_start=0)
    f0 = fr.fmin + rng.uniform(-2, n + 1) * df
    drift = rng.choice([0.0, 1, -1]) * rng.uniform(0, 3) * df / dt
    width = rng.choice([0.2, 0.45, 0.9, 1.0, 2.5, 6.0]) * df
    level = rng.uniform(0.5, 3)
    c = dict(T=T, n=n, df=df, dt=dt, asc=asc, type=ptype, smear=smear, f0_ch=(f0 - fr.fmin) / df, drift_ch=drift * dt / df, width_ch=width / df)
    a = R.guard('add_constant_signal', c, lambda: fr.add_constant_signal(f0, drift, level, width, f_profile_type=ptype, doppler_smearing=smear))
    if a is None:
        continue
    ns = max(1, int(np.ceil(abs(drift) / fr.unit_drift_rate)))
    b = g.add_signal(stg.constant_path(f0, drift), stg.constant_t_profile(level), PROF[ptype](width), stg.constant_bp_profile(1),
                     doppler_smearing=smear, smearing_subsamples=ns)
    if ptype in ('box', 'sinc2'):
        ok = np.allclose(a, b, rtol=1e-9, atol=1e-12)
        R.check('compact/equal-wherever-general-signal-nonzero-and-zero-elsewhere', c, ok, float(np.max(np.abs(a - b))))
    else:
        # within the FWHM around the (smeared) centres: rows i, centres between path(t_i) and path(t_i + dt)
        ok = True
        for i in range(T):
            c0 = f0 + drift * i * dt
            c1 = c0 + (drift * dt if smear else 0)
            lo, hi = min(c0, c1) - width / 2, max(c0, c1) + width / 2
            sel = (fr.fs >= lo) & (fr.fs <= hi)
            ok = ok and np.allclose(a[i, sel], b[i, sel], rtol=1e-9, atol=1e-12)
        nz = a != 0
        ok = ok and np.allclose(a[nz], b[nz], rtol=1e-9, atol=1e-12)
        R.check('tailed/equal-within-fwhm-and-wherever-nonzero', c, ok, None)
    if drift == 0 and smear:
        h = stg.Frame(fchans=n, tchans=T, df=df, dt=dt, fch1=4096.0, ascending=asc, t_start=0)
        u = h.add_constant_signal(f0, 0.0, level, width, f_profile_type=ptype, doppler_smearing=False)
        R.check('non-drifting-smeared=unsmeared', c, np.allclose(a, u, rtol=1e-9, atol=1e-12), None)
R.finish()
