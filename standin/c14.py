"""C14 bounded stand-in: injection onto RAW written by the real record(): decode round trip, framing, stationary gain."""
from base import *
import numpy as np, glob
import setigen as stg
from setigen.voltage import raw_utils

R = Runner('C14', 'bounded: input recordings of <= 4 blocks (8/4 bit, 1-2 pols, 1-2 antennas, DIRECTIO 0/1, partial last file), sub-block counts 1..4', 'blocks <= 4 KiB')
rng = R.rng
NB, TAPS = 16, 2


def source(nant, npol, seed, tone=None, noise=True, level=0.02):
    if nant == 1:
        src = stg.voltage.Antenna(sample_rate=1e6, fch1=0, ascending=True, num_pols=npol, seed=seed)
        streams = src.streams
    else:
        src = stg.voltage.MultiAntennaArray(num_antennas=nant, sample_rate=1e6, fch1=0, num_pols=npol, delays=[0] * nant, seed=seed)
        streams = [s for a in src.antennas for s in a.streams]
    for s in streams:
        if noise:
            s.add_noise(0, 1)
        if tone is not None:
            s.add_constant_signal(f_start=tone, drift_rate=0, level=level)
    return src


def blocks_of(stem, nant, nc, npol, nbits):
    out, i = [], 0
    while os.path.exists(f'{stem}.{i:04d}.raw'):
        raw = open(f'{stem}.{i:04d}.raw', 'rb').read()
        pos = 0
        while pos < len(raw):
            n, hdr = 0, {}
            while not raw[pos + 80 * n: pos + 80 * n + 80].startswith(b'END'):
                card = raw[pos + 80 * n: pos + 80 * n + 80].decode(); hdr[card[:8].strip()] = card[9:].strip().strip("'").strip(); n += 1
            hs = 80 * (n + 1)
            if int(hdr.get('DIRECTIO', 0)) != 0:
                hs = (hs + 511) // 512 * 512
            bs = int(hdr['BLOCSIZE'])
            d = np.frombuffer(raw[pos + hs: pos + hs + bs], dtype=np.int8).reshape(nant * nc, -1).astype(int)
            T = d.shape[1] // (2 * npol * nbits // 8)
            blk = np.zeros((nant * nc, T * npol), dtype=complex)
            for t in range(T):
                for p in range(npol):
                    if nbits == 8:
                        blk[:, t * npol + p] = d[:, (t * npol + p) * 2] + 1j * d[:, (t * npol + p) * 2 + 1]
                    else:
                        b = d[:, t * npol + p] & 0xFF
                        re, im = b >> 4, b & 0xF
                        blk[:, t * npol + p] = np.where(re >= 8, re - 16, re) + 1j * np.where(im >= 8, im - 16, im)
            out.append((hdr, blk)); pos += hs + bs
        i += 1
    return out


case = 0
for it in range(R.n(8, 100)):
    case += 1
    nant, npol, nbits = rng.choice([1, 1, 2]), rng.choice([1, 2]), rng.choice([8, 4])
    nc, M = rng.randint(1, 4), rng.randint(2, 6)
    bpf, N = rng.randint(1, 3), rng.randint(1, 4)
    directio = rng.choice([0, 1])
    bps = 2 * npol * nbits // 8
    bs = M * TAPS * nant * nc * bps
    c = dict(nant=nant, npol=npol, nbits=nbits, nc=nc, M=M, bpf=bpf, N=N, directio=directio)
    src = source(nant, npol, case)
    be = stg.voltage.RawVoltageBackend(src, digitizer=stg.voltage.RealQuantizer(num_bits=8), filterbank=stg.voltage.PolyphaseFilterbank(num_taps=TAPS, num_branches=NB),
                                       requantizer=stg.voltage.ComplexQuantizer(target_fwhm=32 if nbits == 8 else 6, num_bits=nbits), start_chan=1, num_chans=nc,
                                       block_size=bs, blocks_per_file=bpf, num_subblocks=2)
    stem_in = os.path.join(R.tmp, f'in{case}')
    tmpl = rng.random() < 0.5
    be.record(stem_in, num_blocks=N, length_mode='num_blocks', header_dict={'DIRECTIO': directio}, load_template=tmpl, verbose=False)
    if it % 3 == 0:
        # the same recording with filler cards so that the unpadded header is already a multiple of 512 bytes (32 cards incl. END)
        ncards = len(stg.voltage.raw_utils.read_header(stem_in + '.0000.raw'))
        fill = {f'FILL{q:02d}': q for q in range((-(ncards + 1)) % 32)}
        for fn_old in glob.glob(stem_in + '.*.raw'):
            os.unlink(fn_old)
        src = source(nant, npol, case)
        be = stg.voltage.RawVoltageBackend(src, digitizer=stg.voltage.RealQuantizer(num_bits=8), filterbank=stg.voltage.PolyphaseFilterbank(num_taps=TAPS, num_branches=NB),
                                           requantizer=stg.voltage.ComplexQuantizer(target_fwhm=32 if nbits == 8 else 6, num_bits=nbits), start_chan=1, num_chans=nc,
                                           block_size=bs, blocks_per_file=bpf, num_subblocks=2)
        be.record(stem_in, num_blocks=N, length_mode='num_blocks', header_dict=dict(fill, DIRECTIO=directio), load_template=tmpl, verbose=False)
        c = dict(c, header_bytes=80 * (ncards + 1 + len(fill)))
    inp = blocks_of(stem_in, nant, nc, npol, nbits)
    # --- decode of every input block by the library
    src2 = source(nant, npol, case + 1000, tone=2.3e5, noise=False)
    nsub = rng.randint(1, 4)
    dig = rng.random() < 0.5
    inj = R.guard('from_data', c, lambda: stg.voltage.RawVoltageBackend.from_data(stem_in, src2, filterbank=stg.voltage.PolyphaseFilterbank(num_taps=TAPS, num_branches=NB),
                                                                               start_chan=1, num_subblocks=nsub))
    if inj is None:
        continue
    R.check('from_data/same-framing', c, inj.block_size == bs and inj.num_bits == nbits and inj.num_chans == nc and inj.blocks_per_file == min(bpf, N) and inj.input_num_blocks == N
            and inj.header_size == (lambda n: (n + 511) // 512 * 512 if int(inp[0][0].get('DIRECTIO', 0)) else n)(80 * (len(inp[0][0]) + 1)),
            [inj.block_size, inj.num_bits, inj.num_chans, inj.blocks_per_file, inj.input_num_blocks, inj.header_size])
    objs = [o for tab in (inj.digitizer, inj.filterbank, inj.requantizer) for row in tab for o in row]
    R.check('from_data/one-independent-pipeline-object-per-antenna-and-polarisation', c, len({id(o) for o in objs}) == len(objs) == 3 * nant * npol, len({id(o) for o in objs}), 3 * nant * npol)
    R.check('from_data/requantiser-components-use-the-input-bit-depth', c, all(q.num_bits == nbits and q.quantizer_r.num_bits == nbits and q.quantizer_i.num_bits == nbits
                                                                               for row in inj.requantizer for q in row), None)
    inj.input_file_handler = open(stem_in + '.0000.raw', 'rb')
    first = inj._read_next_block()
    inj.input_file_handler.close()
    R.check('decode/first-block-equals-stored-samples', c, first.shape == inp[0][1].shape and np.array_equal(first, inp[0][1]), None)
    # --- injection: stationary gain over sub-blocks and blocks
    for fbk in [inj.filterbank[a][p] for a in range(nant) for p in range(npol)]:
        fbk.channelized_stds = np.array([0.7, 0.7])
    stem_out = os.path.join(R.tmp, f'out{case}')
    ok = R.guard('record-injection', dict(c, nsub=nsub, digitize=dig), lambda: (inj.record(stem_out, num_blocks=N + 2, length_mode='num_blocks', digitize=dig, verbose=False), True)[1])
    if not ok:
        continue
    R.check('gain/channelized_stds-unchanged', dict(c, nsub=nsub, digitize=dig), all(np.array_equal(inj.filterbank[a][p].channelized_stds, [0.7, 0.7]) for a in range(nant) for p in range(npol)),
            [list(map(float, inj.filterbank[0][0].channelized_stds))])
    outb = blocks_of(stem_out, nant, nc, npol, nbits)
    h_out = outb[0][0] if outb else {}
    R.check('framing/reported-length-is-the-clamped-one', dict(c, nsub=nsub, requested=N + 2), inj.num_blocks == N and abs(inj.obs_length - N * inj.time_per_block) <= 1e-12 * inj.obs_length
            and inj.total_obs_num_samples == N * inj.samples_per_block * inj.num_branches and bool(h_out) and abs(float(h_out['SCANLEN']) - N * inj.time_per_block) <= 1e-9 * N * inj.time_per_block
            and int(h_out['PKTSTOP']) - int(h_out['PKTSTART']) == N * inj.samples_per_block, [inj.num_blocks, inj.obs_length, h_out.get('SCANLEN'), h_out.get('PKTSTOP')])
    R.check('framing/at-most-input-blocks-same-sizes', dict(c, nsub=nsub), len(outb) == N and all(int(h['BLOCSIZE']) == bs and int(h['NBITS']) == nbits for h, _ in outb), len(outb))
    for fn in os.listdir(R.tmp):
        os.unlink(os.path.join(R.tmp, fn))
# the channelised unit-noise estimate belongs to the filterbank that made it: same geometry, another window, estimated later in the process
est = {}
for wf in ('hamming', 'boxcar', 'hamming'):
    f_ = stg.voltage.PolyphaseFilterbank(num_taps=4, num_branches=16, window_fn=wf)
    e1 = np.array(f_.estimate_channelized_stds(), dtype=float)
    e2 = np.array(stg.voltage.PolyphaseFilterbank(num_taps=4, num_branches=16, window_fn=wf).estimate_channelized_stds(seed=R.seed + 5), dtype=float)
    est.setdefault(wf, []).append((e1, e2))
ham, box = est['hamming'], est['boxcar']
R.check('estimate/unseeded-estimate-follows-the-filterbank-window', dict(windows=['hamming', 'boxcar', 'hamming']),
        all(np.allclose(e1, e2, rtol=0.05) for e1, e2 in ham + box) and not np.allclose(box[0][0], ham[0][0], rtol=0.05), [list(map(float, box[0][0])), list(map(float, ham[0][0]))])

# stationary gain on an adequately sized recording (>= 100 samples per sub-block, so that the per-sub-block statistics of the final
# requantisation are stable): a constant tone adds the same power in every sub-block and block, digitiser on or off, for sub-block counts
# that do and do not divide the block.  (On the few-sample blocks above the added power per sub-block is dominated by estimation noise and
# is not compared.)
for gi, (dig, nsub) in enumerate([(True, 1), (True, 3), (True, 4), (False, 3), (False, 5), (True, 7)][:R.n(4, 6)]):
    nant, npol, nbits, nc, M = 1, 2, 8, 4, 96
    bps = 2 * npol
    bs = M * TAPS * nc * bps
    c = dict(nant=nant, npol=npol, nbits=nbits, nc=nc, M=M, N=3, nsub=nsub, digitize=dig)
    be = stg.voltage.RawVoltageBackend(source(nant, npol, 500 + gi), digitizer=stg.voltage.RealQuantizer(num_bits=8), filterbank=stg.voltage.PolyphaseFilterbank(num_taps=TAPS, num_branches=NB),
                                       requantizer=stg.voltage.ComplexQuantizer(target_fwhm=32, num_bits=8), start_chan=1, num_chans=nc, block_size=bs, blocks_per_file=2, num_subblocks=2)
    stem_in = os.path.join(R.tmp, f'gin{gi}')
    be.record(stem_in, num_blocks=3, length_mode='num_blocks', header_dict={'DIRECTIO': gi % 2}, verbose=False)
    inp = blocks_of(stem_in, nant, nc, npol, nbits)
    inj = stg.voltage.RawVoltageBackend.from_data(stem_in, source(nant, npol, 900 + gi, tone=2.3e5, noise=False, level=0.6),
                                                  filterbank=stg.voltage.PolyphaseFilterbank(num_taps=TAPS, num_branches=NB), start_chan=1, num_subblocks=nsub)
    for a_ in range(nant):
        for p_ in range(npol):
            inj.filterbank[a_][p_].channelized_stds = np.array([0.7, 0.7])
    stem_out = os.path.join(R.tmp, f'gout{gi}')
    ok = R.guard('gain/record-injection', c, lambda: (inj.record(stem_out, num_blocks=3, length_mode='num_blocks', digitize=dig, verbose=False), True)[1])
    if ok:
        outb = blocks_of(stem_out, nant, nc, npol, nbits)
        T = M * TAPS
        subT = TAPS * int(np.ceil(M / nsub))
        pw = []
        for (_, a_), (_, b_) in zip(outb, inp):
            diff = np.abs(a_ - b_) ** 2
            pw += [float(diff[:, s0 * npol:(s0 + subT) * npol].mean()) for s0 in range(0, T, subT) if diff[:, s0 * npol:(s0 + subT) * npol].size >= 100]
        pw = np.array(pw)
        R.check('gain/same-added-power-in-every-subblock', c, len(outb) == 3 and len(pw) >= 3 and pw.min() > 0.5 and pw.max() / pw.min() < 2.0, [round(x, 2) for x in pw[:10]], 'max/min < 2, min > 0.5')
    for fn in os.listdir(R.tmp):
        os.unlink(os.path.join(R.tmp, fn))

# requantiser target statistics: set per input block from ALL of the decoded samples of that antenna/polarisation - a block longer than any
# estimation window (12288 time samples), quiet at its head and loud with an offset at its tail, so that statistics of a prefix differ
for li, (l_npol, l_nc) in enumerate([(1, 2), (2, 1)][:R.n(2, 2)]):
    T_long = 12288
    l_bs = T_long * l_nc * 2 * l_npol
    src = source(1, l_npol, 900 + li)
    be = stg.voltage.RawVoltageBackend(src, digitizer=stg.voltage.RealQuantizer(num_bits=8), filterbank=stg.voltage.PolyphaseFilterbank(num_taps=TAPS, num_branches=NB),
                                       requantizer=stg.voltage.ComplexQuantizer(target_fwhm=32, num_bits=8), start_chan=1, num_chans=l_nc, block_size=l_bs, blocks_per_file=1, num_subblocks=4)
    stem_l = os.path.join(R.tmp, f'long{li}')
    be.record(stem_l, num_blocks=1, length_mode='num_blocks', header_dict={'DIRECTIO': 0}, load_template=False, verbose=False)
    fn_l = stem_l + '.0000.raw'
    raw = bytearray(open(fn_l, 'rb').read())
    nrg = np.random.default_rng(R.seed + li)
    pay = np.empty((l_nc, T_long * l_npol * 2))
    head = (T_long * 5 // 6) * l_npol * 2
    pay[:, :head] = nrg.normal(0, 4, size=(l_nc, head))
    pay[:, head:] = nrg.normal(9, 30, size=(l_nc, pay.shape[1] - head))
    pay = np.clip(np.round(pay), -128, 127).astype(np.int8)
    raw[len(raw) - l_bs:] = pay.tobytes()
    open(fn_l, 'wb').write(bytes(raw))
    c = dict(npol=l_npol, nc=l_nc, time_samples=T_long, nbits=8)
    inj = R.guard('from_data-long-block', c, lambda: stg.voltage.RawVoltageBackend.from_data(stem_l, source(1, l_npol, 950 + li, noise=False), filterbank=stg.voltage.PolyphaseFilterbank(num_taps=TAPS, num_branches=NB),
                                                                                           start_chan=1, num_subblocks=4))
    if inj is not None:
        inj.input_file_handler = open(fn_l, 'rb')
        blk = R.guard('read-long-block', c, lambda: inj._read_next_block())
        inj.input_file_handler.close()
        if blk is not None:
            d = pay.astype(float)
            ok, got = True, []
            for p in range(l_npol):
                re, im = d[:, 2 * p::2 * l_npol], d[:, 2 * p + 1::2 * l_npol]
                q = inj.requantizer[0][p]
                got.append((float(q.quantizer_r.target_mean), float(q.quantizer_r.target_std), float(q.quantizer_i.target_mean), float(q.quantizer_i.target_std)))
                want = (re.mean(), re.std(), im.mean(), im.std())
                ok = ok and all(abs(g - w) <= 1e-9 * max(1.0, abs(w)) for g, w in zip(got[-1], want))
            R.check('decode/requantiser-targets-are-the-statistics-of-the-whole-input-block', c, ok, got)
    for fn in os.listdir(R.tmp):
        os.unlink(os.path.join(R.tmp, fn))
R.finish()
