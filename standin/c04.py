"""C04 bounded stand-in: files written by the real record() parsed by an independent reader, blimpy's GuppiRaw and the library's readers."""
from base import *
import numpy as np, glob as _glob, itertools
import setigen as stg
from setigen.voltage import raw_utils

R = Runner('C04', 'bounded: recordings of <= 7 blocks over <= 4 files, header sizes covering every residue of (cards mod 32), DIRECTIO 0/1/absent', '<= 7 blocks of <= 2 KiB')
rng = R.rng


def independent_reader(fn):
    """30-line GUPPI reader written from the format description (not from the library)."""
    blocks = []
    data = open(fn, 'rb').read()
    pos = 0
    while pos < len(data):
        hdr, n = {}, 0
        while True:
            card = data[pos + 80 * n: pos + 80 * (n + 1)].decode('ascii')
            n += 1
            if card.startswith('END') and card.strip() == 'END':
                break
            assert card[8] == '=', card
            hdr[card[:8].strip()] = card[9:].strip().strip("'").strip()
        hsize = 80 * n
        if int(hdr.get('DIRECTIO', 0)) != 0:
            hsize = (hsize + 511) // 512 * 512
            assert not any(data[pos + 80 * n: pos + hsize]), 'padding not zero'
        bs = int(hdr['BLOCSIZE'])
        blocks.append((hdr, n - 1, pos + hsize, bs))
        pos += hsize + bs
    assert pos == len(data), (pos, len(data))
    return blocks


def backend(npol, nbits, nant, bpf, seed, aligned=False):
    nb, taps, nc = 8, 2, rng.randint(1, 4)
    if aligned:
        nc = 4
    if nant == 1:
        src = stg.voltage.Antenna(sample_rate=1e6, fch1=1e9, ascending=rng.random() < 0.5, num_pols=npol, seed=seed)
        streams = src.streams
    else:
        src = stg.voltage.MultiAntennaArray(num_antennas=nant, sample_rate=1e6, fch1=1e9, num_pols=npol, delays=[0] * nant, seed=seed)
        streams = [s for a in src.antennas for s in a.streams]
    for s in streams:
        s.add_noise(0, 1)
    bps = 2 * npol * nbits // 8
    spb = taps * rng.randint(1, 3)
    if aligned:
        spb = 512          # block size a multiple of 512 bytes, as in DIRECTIO recordings
    be = stg.voltage.RawVoltageBackend(src, digitizer=stg.voltage.RealQuantizer(num_bits=8), filterbank=stg.voltage.PolyphaseFilterbank(num_taps=taps, num_branches=nb),
                                       requantizer=stg.voltage.ComplexQuantizer(num_bits=nbits), start_chan=0, num_chans=nc, block_size=spb * nant * nc * bps,
                                       blocks_per_file=bpf, num_subblocks=rng.randint(1, 3))
    return be


case = 0
for extra_cards in list(range(0, 32)) + [rng.randint(0, 40) for _ in range(R.n(4, 60))]:
    for directio in ([0, 1, None] if extra_cards < 32 and R.tier == 'thorough' else [rng.choice([0, 1, None])]):
        case += 1
        npol, nbits, nant = rng.choice([1, 2]), rng.choice([4, 8]), rng.choice([1, 1, 2])
        bpf, N = rng.randint(1, 3), rng.randint(1, 7)
        template = rng.random() < 0.7
        c = dict(extra_cards=extra_cards, directio=directio, npol=npol, nbits=nbits, nant=nant, bpf=bpf, N=N, template=template)
        aligned = directio != 0 and case % 2 == 0
        be = backend(npol, nbits, nant, bpf, case, aligned)
        # user keys, some of them sharing a prefix with the END card or with cards the readers look for
        ukeys = [f"{rng.choice(['X', 'X', 'END', 'EN', 'BLOC', 'DIR', 'PKT'])}{k:03d}" for k in range(extra_cards)]
        hd = {k: rng.choice(['abc', 5, 2.5, "'quoted'", 'END']) for k in ukeys}
        hd.update({'NBITS': 99, 'OBSFREQ': 1.0, 'TELESCOP': 'GBT', 'PKTIDX': 1000})
        if directio is not None:
            hd['DIRECTIO'] = directio
        hd_before = dict(hd)
        stem = os.path.join(R.tmp, f'c{case}')
        ok = R.guard('record', c, lambda: (be.record(stem, num_blocks=N, length_mode='num_blocks', header_dict=hd, load_template=template, verbose=False), True)[1])
        if not ok:
            continue
        R.check('record/caller-dictionary-unchanged', c, hd == hd_before, None)
        files = sorted(_glob.glob(stem + '.????.raw'))
        nf = -(-N // bpf)
        R.check('files/consecutively-numbered', c, [os.path.basename(f) for f in files] == [f'c{case}.{i:04d}.raw' for i in range(nf)], [os.path.basename(f) for f in files])
        try:
            parsed = [independent_reader(f) for f in files]
        except Exception as e:
            R.check('files/well-formed-for-an-independent-reader', c, False, repr(e)); continue
        counts = [len(p) for p in parsed]
        want_counts = [bpf] * (nf - 1) + [N - bpf * (nf - 1)]
        R.check('files/blocks-per-file-split', c, counts == want_counts, counts, want_counts)
        allb = [b for p in parsed for b in p]
        # samples per block as the file itself implies it (not the backend's own attribute): BLOCSIZE / (OBSNCHAN * 2*npol*nbits/8)
        spb = int(allb[0][0]['BLOCSIZE']) * 8 // (int(allb[0][0]['OBSNCHAN']) * 2 * npol * nbits)
        R.check('blocks/backend-samples_per_block-agrees-with-the-header', c, be.samples_per_block == spb, be.samples_per_block, spb)
        R.check('blocks/PKTIDX-advances-by-samples-per-block', c, [int(b[0]['PKTIDX']) for b in allb] == [1000 + g * spb for g in range(N)], [int(b[0]['PKTIDX']) for b in allb][:4])
        h0 = allb[0][0]
        own = int(h0['NBITS']) == nbits and int(h0['BLOCSIZE']) == be.block_size and int(h0['OBSNCHAN']) == be.num_chans * nant and int(h0['NPOL']) == npol \
            and abs(float(h0['TBIN']) - be.tbin) <= 1e-12 * be.tbin and abs(float(h0['OBSFREQ']) - 1.0) > 1e-6 and (nant == 1 or int(h0['NANTS']) == nant)
        R.check('header/pipeline-fields-not-overridable-user-cards-kept', c, own and h0['TELESCOP'] == 'GBT' and all(k in h0 for k in ukeys), None)
        # the library's readers agree
        lib_counts = [raw_utils.get_blocks_in_file(f) for f in files]
        R.check('readers/get_blocks_in_file', c, lib_counts == counts, lib_counts, counts)
        R.check('readers/read_header-card-count', c, len(raw_utils.read_header(files[0])) == allb[0][1], None)
        real_glob = _glob.glob
        tot_ok = True
        for perm in itertools.islice(itertools.permutations(files), 6):
            raw_utils.glob.glob = lambda pat, perm=perm: list(perm)
            try:
                tot_ok = tot_ok and raw_utils.get_total_blocks(stem) == N
            finally:
                raw_utils.glob.glob = real_glob
        R.check('readers/get_total_blocks-any-listing-order', c, tot_ok, None)
        if len(files) >= 2:
            # the recording may have been copied or touched: an earlier file can be the newest one
            import time as _time
            os.utime(files[0], (_time.time() + 500, _time.time() + 500))
            R.check('readers/get_total_blocks-whatever-the-modification-times', c, raw_utils.get_total_blocks(stem) == N, raw_utils.get_total_blocks(stem), N)
        if int(allb[0][0].get('DIRECTIO', 0)) != 0 and be.block_size % 512 != 0:
            for f in files:
                os.unlink(f)
            continue        # blimpy aligns data to absolute 512-byte offsets: comparable only for block sizes that are multiples of 512
        if any(k.startswith('END') for k in ukeys):
            for f in files:
                os.unlink(f)
            continue        # blimpy's own reader stops at the first card whose text starts with 'END' (its limitation): not comparable
        try:
            from blimpy.guppi import GuppiRaw
            g = GuppiRaw(files[0])
            nblk, pos, size = 0, 0, os.path.getsize(files[0])
            while pos < size and nblk < 50:
                g.file_obj.seek(pos)
                h, data_idx = g.read_header()
                pos = data_idx + int(h['BLOCSIZE'])
                nblk += 1
            ok_end = pos == size
            R.check('readers/blimpy-GuppiRaw-agrees', c, nblk == counts[0] and ok_end, nblk, counts[0])
        except (Exception, SystemExit) as e:
            R.check('readers/blimpy-GuppiRaw-agrees', c, False, repr(e)[:200])
        for f in files:
            os.unlink(f)
R.finish()
