"""C16 bounded stand-in: cadence injection vs single-frame injection on hand-shifted copies; exceptions; slew; consolidate."""
from base import *
import numpy as np
import setigen as stg

R = Runner('C16', 'bounded: cadences of 1..5 frames (<= 8 x 48), gaps, sub-sample integration / smearing, callback raising at every k', '<= 5 frames of <= 8x48')
rng = R.rng
for it in range(R.n(30, 500)):
    m = rng.randint(1, 5)
    n, df, dt = rng.randint(8, 48), 1.0, rng.choice([1.0, 2.0])
    frames, t = [], rng.uniform(0, 50)
    for q in range(m):
        T = rng.randint(1, 8)
        frames.append(stg.Frame(fchans=n, tchans=T, df=df, dt=dt, fch1=4096.0, ascending=True, t_start=t))
        t += T * dt + rng.choice([0.0, 3.0, 7.5])
    cad = stg.Cadence(frames)
    copies = [stg.Frame(fchans=n, tchans=f.tchans, df=df, dt=dt, fch1=4096.0, ascending=True, t_start=f.t_start) for f in frames]
    f0 = frames[0].fmin + rng.uniform(2, n / 2) * df
    drift = rng.uniform(-0.3, 0.5) * df / dt
    integ, smear = rng.random() < 0.5, rng.random() < 0.4
    path = lambda tt: f0 + drift * tt
    tprof = lambda tt: 1.0 + 0.2 * np.sin(0.3 * tt)
    fp = stg.gaussian_f_profile(3 * df)
    kw = dict(integrate_path=integ, integrate_t_profile=integ, doppler_smearing=smear, t_subsamples=3, smearing_subsamples=2)
    c = dict(frames=m, n=n, dt=dt, starts=[f.t_start for f in frames], integ=integ, smear=smear, drift=drift)
    # every other frame carries a non-default time axis (sample mid-points): it must come back exactly as it was
    extra = [(0.5 * dt if k_ % 2 else 0.0) for k_ in range(m)]
    for f_, e_ in zip(frames, extra):
        f_.ts = f_.ts + e_
    ts_before = [f.ts.copy() for f in frames]
    ok = R.guard('cadence.add_signal', c, lambda: (cad.add_signal(path, tprof, fp, **kw), True)[1])
    if not ok:
        continue
    worst, ts_ok = 0.0, True
    for f, g, tb, e_ in zip(frames, copies, ts_before, extra):
        off = f.t_start - frames[0].t_start + e_
        # independent reference: an untouched copy with its own time axis starting at 0, injected with the time-translated callables
        # (no shifted axis involved on the reference side)
        g.add_signal(lambda tt, off=off: path(tt + off), lambda tt, off=off: tprof(tt + off), fp, **kw)
        worst = max(worst, float(np.max(np.abs(f.data - g.data))))
        ts_ok = ts_ok and np.allclose(f.ts, tb, rtol=0, atol=1e-9)
    R.check('injection/equals-single-frame-injection-at-shifted-times', c, worst < 1e-9, worst)
    R.check('ts/restored-after-injection', c, ts_ok, None)
    # exception part-way
    for kbad in range(m):
        cnt = {'n': 0}
        def bad_path(tt, kbad=kbad):
            cnt['n'] += 1
            if cnt['n'] == kbad + 1:
                raise RuntimeError('callback failure')
            return f0 + drift * tt
        try:
            cad.add_signal(bad_path, 1.0, fp)
            raised = False
        except RuntimeError:
            raised = True
        R.check('ts/restored-after-exception', dict(c, raise_in_frame=kbad), raised and all(np.allclose(f.ts, tb, rtol=0, atol=1e-9) for f, tb in zip(frames, ts_before)), None)
    slew = rng.choice([0.0, 5.0, 12.25])
    cad2 = stg.Cadence(frames, t_slew=slew, t_overwrite=True)
    R.check('overwrite_times/slew-spacing', dict(c, slew=slew), len(cad2.slew_times) == m - 1 and np.allclose(cad2.slew_times, slew, rtol=0, atol=1e-6), list(map(float, cad2.slew_times)))
    cons = cad2.consolidate()
    R.check('consolidate/data-in-order-absolute-times', dict(c, slew=slew), np.array_equal(cons.data, np.concatenate([f.data for f in frames], axis=0))
            and np.allclose(cons.ts, np.concatenate([f.ts + f.t_start for f in frames])) and cons.t_start == frames[0].t_start and cons.fchans == n, None)
# an abort that is not an Exception (KeyboardInterrupt) in frame k: the time axes still come back
for kbad in (0, 1, 2):
    frs = [stg.Frame(fchans=32, tchans=4, df=2.0, dt=10.0, fch1=4096.0, ascending=True, t_start=1000.0 + 100.0 * q) for q in range(3)]
    cad = stg.Cadence(frs)
    before = [f.ts.copy() for f in frs]
    calls = {'n': 0}

    def tp(tt):
        calls['n'] += 1
        if calls['n'] == kbad + 1:
            raise KeyboardInterrupt()
        return np.ones_like(tt)
    try:
        cad.add_signal(stg.constant_path(4100.0, 0.01), tp, stg.gaussian_f_profile(4.0))
        raised = False
    except KeyboardInterrupt:
        raised = True
    R.check('ts/restored-after-a-non-Exception-abort', dict(raise_in_frame=kbad), raised and all(np.allclose(f.ts, b, rtol=0, atol=1e-9) for f, b in zip(frs, before)), [float(f.ts[0]) for f in frs])
# selecting frames from a cadence built with t_overwrite=True does not re-time the (shared) frames
frs = [stg.Frame(fchans=32, tchans=4, df=2.0, dt=10.0, fch1=4096.0, ascending=True, t_start=0.0) for q in range(4)]
cad = stg.Cadence(frs, t_slew=60.0, t_overwrite=True)
t_before = [f.t_start for f in frs]
for sel in (slice(0, None, 2), slice(1, 3), [3, 1], (0, 2)):
    sub = cad[sel]
    R.check('selection/shared-frames-keep-their-start-times', dict(selection=str(sel)), [f.t_start for f in frs] == t_before and len(sub) == len(frs[sel] if isinstance(sel, slice) else sel),
            [f.t_start for f in frs], t_before)
R.finish()
