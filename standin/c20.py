"""C20 bounded stand-in: block/length/sample accounting on the real code."""
from base import *
from fractions import Fraction as F
import numpy as np
import setigen as stg
from setigen.voltage import backend as B, level_utils
from setigen import frame as FR

R = Runner('C20', 'bounded: seeded-random small backends (<= 3 antennas, <= 64 branches, blocks <= 4 KiB)', 'sizes <= 4 KiB/block, <= 6 blocks')
rng = R.rng


def mk_backend(npol, nbits, nant, nb, taps, nc, sc, spb_mult, sr, asc=True, bpf=2, nsub=3, seed=1):
    if nant == 1:
        src = stg.voltage.Antenna(sample_rate=sr, fch1=1e9, ascending=asc, num_pols=npol, seed=seed)
        streams = src.streams
    else:
        src = stg.voltage.MultiAntennaArray(num_antennas=nant, sample_rate=sr, fch1=1e9, ascending=asc, num_pols=npol,
                                            delays=[(3 * q + seed) % 5 for q in range(nant)], seed=seed)      # non-zero delays: the clock advances by the samples delivered
        streams = [s for a in src.antennas for s in a.streams]
    for s in streams:
        s.add_noise(0, 1)
    dig = stg.voltage.RealQuantizer(target_fwhm=32, num_bits=8)
    fb = stg.voltage.PolyphaseFilterbank(num_taps=taps, num_branches=nb)
    rq = stg.voltage.ComplexQuantizer(target_fwhm=32, num_bits=nbits)
    bps = 2 * npol * nbits // 8
    bs = spb_mult * taps * nant * nc * bps
    return stg.voltage.RawVoltageBackend(src, digitizer=dig, filterbank=fb, requantizer=rq, start_chan=sc, num_chans=nc,
                                         block_size=bs, blocks_per_file=bpf, num_subblocks=nsub), src


def rand_cfg():
    npol = rng.choice([1, 2]); nbits = rng.choice([4, 8]); nant = rng.choice([1, 1, 2, 3])
    nb = rng.choice([8, 16, 32, 64]); taps = rng.choice([2, 3, 4, 8]); nc = rng.randint(1, nb // 2)
    sc = rng.randint(0, nb // 2 - nc); mult = rng.randint(1, 4)
    sr = rng.choice([3e9, 2.344e9, 1e6, 1234567.0, 6.0e9 / 7, rng.uniform(1e3, 1e10)])
    return dict(npol=npol, nbits=nbits, nant=nant, nb=nb, taps=taps, nc=nc, sc=sc, spb_mult=mult, sr=sr, asc=rng.choice([True, False]))


# --- constructor accounting and get_num_blocks -------------------------------------------------------
for _ in range(R.n(40, 600)):
    c = rand_cfg()
    be = R.guard('init', c, lambda: mk_backend(**c)[0])
    if be is None:
        continue
    bps = 2 * c['npol'] * c['nbits'] // 8
    spb = c['spb_mult'] * c['taps']
    R.check('init/samples_per_block', c, be.samples_per_block == spb and be.bytes_per_sample == bps, be.samples_per_block, spb)
    R.check('init/time_per_block', c, abs(be.time_per_block - spb * c['nb'] / c['sr']) <= 1e-12 * be.time_per_block, be.time_per_block)
    tpb = F(spb * c['nb']) / F(c['sr'])
    for _k in range(3):
        kind = rng.random()
        L = float(tpb) * rng.randint(0, 50) if kind < 0.5 else rng.uniform(0, 60 * float(tpb))
        n = be.get_num_blocks(L)
        ok = isinstance(n, int) and n >= 0 and n * tpb <= F(L) * (1 + F(1, 10**9)) and F(L) < (n + 1) * tpb * (1 + F(1, 10**9))
        R.check('get_num_blocks/whole-blocks', dict(c, L=L), ok, n)
    fl, k = rng.choice([4, 8, 64]), rng.randint(1, 5)
    u = level_utils.get_unit_drift_rate(be, fl, k)
    p = FR.params_from_backend(obs_length=1.0, sample_rate=c['sr'], num_branches=c['nb'], fftlength=fl, int_factor=k)
    R.check('get_unit_drift_rate/magnitude', dict(c, fl=fl, k=k), abs(abs(u) - p['df'] / p['dt']) <= 1e-9 * p['df'] / p['dt'], u, p['df'] / p['dt'])
    tot = B.get_total_obs_num_samples(num_blocks=7, length_mode='num_blocks', num_antennas=c['nant'], sample_rate=c['sr'],
                                      block_size=be.block_size, num_bits=c['nbits'], num_pols=c['npol'], num_branches=c['nb'], num_chans=c['nc'])
    R.check('get_total_obs_num_samples/num_blocks', c, tot == 7 * spb * c['nb'], tot, 7 * spb * c['nb'])
    bsz = B.get_block_size(num_antennas=c['nant'], tchans_per_block=3, num_bits=c['nbits'], num_pols=c['npol'], num_branches=c['nb'],
                           num_chans=c['nc'], fftlength=fl, int_factor=k)
    R.check('get_block_size', dict(c, fl=fl, k=k), bsz == 3 * fl * k * c['nant'] * c['nc'] * bps, bsz)

# --- a whole recording: totals, clock, files ------------------------------------------------------------
for i in range(R.n(8, 60)):
    c = rand_cfg()
    c['nb'] = rng.choice([8, 16]); c['nc'] = rng.randint(1, c['nb'] // 2); c['sc'] = rng.randint(0, c['nb'] // 2 - c['nc'])
    n = rng.choice([1, 2, 3, 5, 6, 7])
    c['sr'] = rng.choice([c['sr'], 3e9, 1e9])
    c['asc'] = rng.random() < 0.5
    made = R.guard('record', c, lambda: mk_backend(**c))
    if made is None:
        continue
    be, src = made
    stem = os.path.join(R.tmp, f'r{i}')
    t0 = src.t_start
    ok = R.guard('record', c, lambda: (be.record(output_file_stem=stem, num_blocks=n, length_mode='num_blocks', header_dict={'PKTIDX': 0}, verbose=False), True)[1])
    if not ok:
        continue
    spb = be.samples_per_block
    want = n * spb * c['nb']
    R.check('record/total_obs_num_samples', dict(c, n=n), be.total_obs_num_samples == want, be.total_obs_num_samples, want)
    R.check('record/obs_length', dict(c, n=n), abs(be.obs_length - n * be.time_per_block) <= 1e-12 * be.obs_length, be.obs_length)
    drawn = (want + c['taps'] * c['nb'])
    adv = (src.t_start - t0) * c['sr']
    R.check('record/clock-advance', dict(c, n=n), abs(adv - drawn) <= 1e-6 * drawn, adv, drawn)
    h0 = stg.voltage.raw_utils.read_header(stem + '.0000.raw')
    R.check('record/SCANLEN-and-PKTSTOP-exact', dict(c, n=n), int(h0['PKTSTOP']) - int(h0['PKTSTART']) == n * spb and abs(float(h0['SCANLEN']) - n * be.time_per_block) <= 1e-12 * n * be.time_per_block
            and float(h0['SCANLEN']) > 0, [h0['PKTSTART'], h0['PKTSTOP'], h0['SCANLEN']], n * spb)
    if c['nant'] > 1:
        R.check('record/member-streams-on-the-array-clock', dict(c, n=n), all(abs(st.t_start - src.t_start) <= 1e-9 for a_ in src.antennas for st in a_.streams), None)
    for fn in os.listdir(R.tmp):
        os.unlink(os.path.join(R.tmp, fn))

# total_obs_num_samples float site, without writing files: the same expression on the backend's own fields
R.finish()
