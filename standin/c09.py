"""C09 bounded stand-in: quantisers on the real code (floats), incl. the zero-variance probe."""
from base import *
import numpy as np
from setigen.voltage import quantization as Q
from setigen.voltage import data_stream as DS

R = Runner('C09', 'bounded: seeded-random arrays (<= 5000 samples), bits 2..8, refresh periods -2..5, constant arrays', 'arrays <= 5000 samples')
rng = R.rng
nrng = np.random.default_rng(R.seed + 9)


def ref_q(x, m, ds, tm, ts, b):
    f = 0 if ds == 0 else ts / ds
    return np.clip(np.around(f * (x - m) + tm), -2 ** (b - 1), 2 ** (b - 1) - 1).astype(int)


for it in range(R.n(40, 800)):
    b = rng.randint(2, 8); n = rng.choice([1, 2, 17, 1000, 5000])
    x = nrng.normal(rng.uniform(-5, 5), rng.uniform(0.1, 50), n)
    tm, ts = rng.choice([0, 0, 1.5, -3]), rng.uniform(0.5, 40)
    c = dict(b=b, n=n, tm=tm, ts=ts)
    q = R.guard('quantize_real', c, lambda: Q.quantize_real(x, target_mean=tm, target_std=ts, num_bits=b))
    if q is None:
        continue
    m, s = DS.estimate_stats(x, 10000)
    R.check('quantize_real/formula+range', c, np.array_equal(q, ref_q(x, m, s, tm, ts, b)) and q.min() >= -2 ** (b - 1) and q.max() <= 2 ** (b - 1) - 1
            and np.issubdtype(q.dtype, np.integer), None)
    o = np.argsort(x, kind='stable')
    R.check('quantize_real/non-decreasing', c, bool(np.all(np.diff(q[o]) >= 0)), None)
    N = rng.choice([1, 5, 100, 10000])
    m2, s2 = DS.estimate_stats(x, N)
    k = min(N, n)
    R.check('estimate_stats/leading-samples', dict(c, N=N), np.isclose(m2, np.mean(x[:k])) and np.isclose(s2, np.std(x[:k])), [float(m2), float(s2)])

# refresh schedule
for it in range(R.n(30, 300)):
    p = rng.randint(-2, 5)
    qz = Q.RealQuantizer(target_fwhm=30, num_bits=8, stats_calc_period=p, stats_calc_num_samples=50)
    calls = rng.randint(1, 12)
    exp_cache = None
    ok = True
    hist = []
    for k in range(calls):
        x = nrng.normal(rng.uniform(-5, 5), rng.uniform(1, 10), 64)
        refresh = (k % p == 0) if p > 0 else (k == 0)
        if refresh:
            exp_cache = DS.estimate_stats(x, 50)
        out = qz.quantize(x)
        ok = ok and tuple(qz.stats_cache) == tuple(exp_cache) and np.array_equal(out, ref_q(x, exp_cache[0], exp_cache[1], 0, qz.target_std, 8))
        hist.append(refresh)
    R.check('schedule/refresh-on-0,p,2p', dict(period=p, calls=calls), ok, hist)
    qz._reset_cache()
    R.check('schedule/reset', dict(period=p), qz.stats_calc_indices == 0 and qz.stats_cache == [None, None], None)

# complex
for it in range(R.n(10, 100)):
    v = nrng.normal(0, 3, 200) + 1j * nrng.normal(1, 7, 200)
    cq = Q.ComplexQuantizer(target_fwhm=20, num_bits=rng.choice([4, 8]))
    out = cq.quantize(v)
    mr, sr = DS.estimate_stats(v.real, 10000); mi, si = DS.estimate_stats(v.imag, 10000)
    R.check('complex/independent-parts', dict(bits=cq.num_bits), np.array_equal(out.real, ref_q(v.real, mr, sr, 0, cq.quantizer_r.target_std, cq.num_bits))
            and np.array_equal(out.imag, ref_q(v.imag, mi, si, 0, cq.quantizer_i.target_std, cq.num_bits)), None)

# zero variance in actual floats (real-mode proof covers the reals only)
for cval in [0.0, 1.0, 0.1, 0.3, 7.7, -2.6, 1e10 / 3, 1e-7, 123456.789]:
    for n in [1, 2, 3, 10, 1000, 4096, 10000]:
        for tm in [0, 5]:
            x = np.full(n, cval)
            q = Q.quantize_real(x, target_mean=tm, target_std=13.6, num_bits=8)
            R.check('zero-variance/maps-to-target-mean', dict(const=cval, n=n, target_mean=tm), bool(np.all(q == tm)) and not np.any(np.isnan(q)),
                    [int(q.min()), int(q.max())], tm)
# a data mean that is huge compared with the deviation: the output still follows the exact affine map (exact rational reference)
from fractions import Fraction as _Fr
for (mean, std, tstd) in ((2.0 ** 50, 4.1, 29.3), (-2.0 ** 52, 64.3, 11.7), (1e9, 1.3e-6, 3.9)):
    xs = mean + std * np.linspace(-3, 3, 257)
    q = Q.quantize_real(xs, target_mean=0.25, target_std=tstd, num_bits=8, data_mean=mean, data_std=std)
    bad = 0
    for xv, qv in zip(xs, q):
        ex = _Fr(tstd) / _Fr(std) * (_Fr(float(xv)) - _Fr(mean)) + _Fr(0.25)
        if abs((ex % 1) - _Fr(1, 2)) < _Fr(1, 10 ** 6):
            continue                         # too close to a rounding tie to call
        want = min(max(round(ex), -128), 127)
        bad += int(qv) != want
    R.check('quantize_real/huge-mean-to-deviation-ratio-follows-the-exact-affine-map', dict(mean=mean, std=std, target_std=tstd), bad == 0, bad, 0)

# numeric extremes: huge finite samples saturate at the ends of the code range (and keep the order), with explicit statistics
for b in (2, 4, 8):
    for big in (1e19, 1e25, 1e300):
        x = np.array([-big, -3.0, -0.2, 0.0, 0.4, 2.0, big])
        q = Q.quantize_real(x, target_mean=0, target_std=2 ** (b - 2), num_bits=b, data_mean=0.0, data_std=1.0)
        R.check('quantize_real/extremes-saturate-and-stay-ordered', dict(bits=b, big=big), q[0] == -2 ** (b - 1) and q[-1] == 2 ** (b - 1) - 1 and bool(np.all(np.diff(q) >= 0)), [int(v) for v in q])
R.finish()
