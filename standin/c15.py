"""C15 bounded stand-in: array antennas vs a same-seed reference background drawn in one request."""
from base import *
import numpy as np
import setigen as stg

R = Runner('C15', 'bounded: <= 4 antennas, delays <= 12, <= 5 requests of <= 40 samples, seeded', '<= 4 antennas, <= 5 requests')
rng = R.rng


def mk(nant, npol, delays, seed):
    a = stg.voltage.MultiAntennaArray(num_antennas=nant, sample_rate=1e6, fch1=1e6, num_pols=npol, delays=delays, t_start=2.0, seed=seed)
    for b in a.bg_streams:
        b.add_noise(0.3, 2.0)
        b.add_constant_signal(f_start=1.1e6, drift_rate=0, level=0.5)
    for an in a.antennas:
        for st in an.streams:
            st.add_noise(0, 1.0)
    return a


for it in range(R.n(25, 400)):
    nant, npol = rng.randint(1, 4), rng.choice([1, 2])
    form = rng.choice(['list', 'none', 'zeros'])
    delays = None if form == 'none' else ([0] * nant if form == 'zeros' else [rng.randint(0, 12) for _ in range(nant)])
    seed = rng.randint(0, 10 ** 6)
    c = dict(nant=nant, npol=npol, delays=delays, seed=seed)
    A = R.guard('construct', c, lambda: mk(nant, npol, delays, seed))
    if A is None:
        continue
    B = mk(nant, npol, delays, seed)
    dl = delays or [0] * nant
    mx = max(dl)
    R.check('init/delays', c, A.max_delay == mx and [int(an.delay) for an in A.antennas] == dl, [A.max_delay])
    reqs = [rng.randint(mx + 1, mx + 40) for _ in range(rng.randint(1, 5))]
    tot = sum(reqs)
    bg = [np.array(b.get_samples(tot + mx)) for b in B.bg_streams]
    own = [[np.array(st.get_samples(tot)) for st in an.streams] for an in B.antennas]
    outs = []
    ok_exc = True
    for r in reqs:
        o = R.guard('get_samples', dict(c, reqs=reqs), lambda: A.get_samples(r))
        if o is None:
            ok_exc = False
            break
        outs.append(o)
    if not ok_exc:
        continue
    got = np.concatenate(outs, axis=2)
    good = got.shape == (nant, npol, tot)
    worst = 0.0
    for i in range(nant):
        for p in range(npol):
            want = own[i][p] + bg[p][mx - dl[i]: mx - dl[i] + tot]
            worst = max(worst, float(np.max(np.abs(got[i][p] - want))))
    R.check('alignment/own+delayed-background', dict(c, reqs=reqs), good and worst < 1e-6, worst)
    A.set_time(5.0)
    R.check('reset/clears-cache', c, A.start_obs and all(an.bg_cache == [None, None] for an in A.antennas) and all(b.t_start == 5.0 for b in A.bg_streams), None)
    # the new observation is read in several requests (the caches are used again from the second one on)
    rs = [mx + 3, mx + 1, mx + 4]
    r = sum(rs)
    o1 = np.concatenate([A.get_samples(q) for q in rs], axis=2)
    B.set_time(5.0)
    bg2 = [np.array(b.get_samples(r + mx)) for b in B.bg_streams]
    own2 = [[np.array(st.get_samples(r)) for st in an.streams] for an in B.antennas]
    w2 = max(float(np.max(np.abs(o1[i][p] - (own2[i][p] + bg2[p][mx - dl[i]: mx - dl[i] + r])))) for i in range(nant) for p in range(npol))
    R.check('reset/same-alignment-after-reset', dict(c, reqs_after_reset=rs), w2 < 1e-6, w2)
    R.check('reset/every-antenna-owns-its-cache-list', c, len({id(an.bg_cache) for an in A.antennas}) == nant, None)
R.finish()
