"""C08 bounded stand-in: real channelize vs a direct evaluation of the FIR+DFT definition; chunk compositions."""
from base import *
import numpy as np, cmath
from setigen.voltage import polyphase_filterbank as PF

R = Runner('C08', 'bounded: taps 1..5, branches {4,6,8,16}, 4 windows, all compositions of a <= 5-window stream into chunks', 'taps<=5, branches<=16, <=5 windows')
rng = R.rng
nrng = np.random.default_rng(R.seed + 8)


def direct(x, h, taps, B):
    W = len(x) // (taps * B)
    out = np.zeros(((W - 1) * taps, B // 2), dtype=complex)
    for n in range((W - 1) * taps):
        fir = [sum(h[j * B + b] * x[(n + j) * B + b] for j in range(taps)) for b in range(B)]
        for k in range(B // 2):
            out[n, k] = sum(fir[b] * cmath.exp(-2j * cmath.pi * b * k / B) for b in range(B)) / B ** 0.5
    return out


def compositions(n):
    if n == 0:
        yield []
        return
    for first in range(1, n + 1):
        for rest in compositions(n - first):
            yield [first] + rest


for it in range(R.n(12, 150)):
    taps, B = rng.randint(1, 5), rng.choice([4, 6, 8, 16])
    win = rng.choice(['hamming', 'hann', 'blackman', 'boxcar'])
    W = rng.randint(2, 5)
    cplx = rng.random() < 0.4
    extra = rng.randint(0, taps * B - 1)
    x = nrng.normal(0, 1, W * taps * B + extra) + (1j * nrng.normal(0, 1, W * taps * B + extra) if cplx else 0)
    c = dict(taps=taps, B=B, window=win, W=W, complex=cplx, extra=extra)
    fb = PF.PolyphaseFilterbank(num_taps=taps, num_branches=B, window_fn=win)
    one = R.guard('channelize', c, lambda: fb.channelize(x, cache=False))
    if one is None:
        continue
    ref = direct(x, np.array(fb.window), taps, B)
    R.check('definition/one-shot', c, one.shape == ref.shape and np.allclose(one, ref, atol=1e-9), None)
    if cplx:
        s = fb.channelize(x.real, cache=False) + 1j * fb.channelize(x.imag, cache=False)
        R.check('complex=real+i*imag', c, np.allclose(one, s, atol=1e-9), None)
    xs = x[:W * taps * B]
    full = fb.channelize(xs, cache=False)
    for comp in (list(compositions(W)) if W <= 4 else [cc for cc in compositions(W)][::3]):
        fb._reset_cache()
        outs, pos = [], 0
        for m in comp:
            outs.append(fb.channelize(xs[pos:pos + m * taps * B], cache=True)); pos += m * taps * B
        cat = np.concatenate(outs, axis=0)
        R.check('chunking/equals-one-shot', dict(c, chunks=comp), cat.shape == full.shape and np.allclose(cat, full, atol=1e-9), list(cat.shape))
    a, b2 = rng.uniform(-2, 2), rng.uniform(-2, 2)
    y = nrng.normal(0, 1, len(x))
    R.check('linearity', c, np.allclose(fb.channelize(a * x + b2 * y, cache=False), a * one + b2 * fb.channelize(y, cache=False), atol=1e-9), None)
    pv = PF.get_pfb_voltages(x.real, taps, B, win)
    R.check('get_pfb_voltages/rfft-bins', c, pv.shape == ((W - 1) * taps, B // 2 + 1) and np.allclose(pv[:, :B // 2], fb.channelize(x.real, cache=False), atol=1e-9), None)
# same geometry, different windows, one process (no state shared between filterbank objects)
import scipy.signal
for taps, B in ((3, 8), (4, 16)):
    for win in ('hamming', 'hann', 'blackman', 'boxcar', 'hamming'):
        fb = PF.PolyphaseFilterbank(num_taps=taps, num_branches=B, window_fn=win)
        ref = scipy.signal.firwin(taps * B, cutoff=1.0 / B, window=win, scale=True) * taps * B
        R.check('window/own-window_fn', dict(taps=taps, B=B, window=win), np.allclose(np.array(fb.window), ref, atol=1e-12), None)
# a long one-shot input with the cache off (more than 1024 and more than 2048 windows): spectrum count and the spectra around the 1024-window marks
for W in (1028, 2051):
    taps, B = 2, 4
    fb = PF.PolyphaseFilterbank(num_taps=taps, num_branches=B)
    x = np.random.default_rng(R.seed + W).normal(size=W * taps * B)
    out = R.guard('long-input/no-exception', dict(windows=W), lambda: fb.channelize(x, cache=False))
    if out is None:
        continue
    h = np.array(fb.window)
    ok = out.shape == ((W - 1) * taps, B // 2)
    worst = 0.0
    for n_ in [0, 5, 1023 * taps - 1, 1023 * taps, 1023 * taps + 1, 1024 * taps + 3, (W - 1) * taps - 1]:
        if n_ < out.shape[0]:
            fir = np.array([sum(h[j * B + b] * x[(n_ + j) * B + b] for j in range(taps)) for b in range(B)])
            refrow = (np.fft.fft(fir) / B ** 0.5)[:B // 2]
            worst = max(worst, float(np.max(np.abs(out[n_] - refrow))))
    R.check('definition/long-one-shot-input-cache-off', dict(windows=W), ok and worst < 1e-9, [list(out.shape), worst], [(W - 1) * taps, B // 2])
R.finish()
