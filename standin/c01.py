"""C01/C06/C13 bounded stand-in: Frame.add_signal against an independent per-pixel evaluator (pure Python loops)."""
from base import *
import numpy as np
import setigen as stg

R = Runner('C01', 'bounded: seeded-random small frames (<= 12 x 40), every input form and flag combination vs a per-pixel evaluator', 'frames <= 12x40, sub-samples <= 4')
rng = R.rng
nrng = np.random.default_rng(R.seed + 1)


def evaluator(fr, path, tp, fp, bp, b0, b1, int_path, int_t, int_f, smear, nt, nf, ns):
    T, n, dt, df = fr.tchans, fr.fchans, fr.dt, fr.df
    ts = [i * dt for i in range(T + 1)]
    def tpv(i):
        if callable(tp):
            if int_t:
                return sum(tp(ts[i] + k * dt / nt) for k in range(nt)) / nt
            return tp(ts[i])
        return tp[i] if hasattr(tp, '__len__') else tp
    def pv(i):
        if callable(path):
            if int_path:
                return sum(path(ts[i] + k * dt / nt) for k in range(nt)) / nt
            return path(ts[i])
        return path[i] if hasattr(path, '__len__') else path
    def bpv(j, k, fq):
        if bp is None:
            return 1.0
        if callable(bp):
            return bp(fq)
        if hasattr(bp, '__len__'):
            return bp[(j - b0) * (nf if int_f else 1) + k]
        return bp
    out = np.zeros((T, n))
    for i in range(T):
        for j in range(b0, b1):
            acc = 0.0
            K = nf if int_f else 1
            for k in range(K):
                fq = fr.fs[j] + (k * df / nf if int_f else 0.0)
                if smear:
                    dp = (pv(i + 1) - pv(i)) / ns
                    v = sum(tpv(i) * fp(fq, pv(i) + m * dp) / ns * bpv(j, k, fq) for m in range(ns))
                else:
                    v = tpv(i) * fp(fq, pv(i)) * bpv(j, k, fq)
                acc += v
            out[i, j] = acc / K
    return out


for it in range(R.n(60, 1500)):
    T, n = rng.randint(1, 12), rng.randint(2, 40)
    df, dt = rng.choice([1.0, 2.79, 0.5]), rng.choice([1.0, 18.25, 0.3])
    asc = rng.random() < 0.5
    fr = stg.Frame(fchans=n, tchans=T, df=df, dt=dt, fch1=4096.0, ascending=asc, t_start=0)
    fr.data[:] = nrng.normal(5, 1, (T, n))
    int_path, int_t, int_f, smear = [rng.random() < 0.4 for _ in range(4)]
    nt, nf, ns = rng.randint(1, 4), rng.randint(1, 4), rng.randint(1, 4)
    use_b = rng.random() < 0.5
    if use_b:
        lo = fr.fmin + rng.uniform(-3, n - 1) * df; hi = lo + rng.uniform(0.6, n) * df
        # channel index of a frequency, computed here (not through the frame): nearest channel of the ascending in-memory axis
        fmin_ref = (fr.fch1 if fr.ascending else fr.fch1 - (n - 1) * df)
        b0 = max(int(np.round((lo - fmin_ref) / df)), 0); b1 = min(int(np.round((hi - fmin_ref) / df)), n)
        if b1 <= b0:
            continue
        br = (lo, hi)
    else:
        b0, b1, br = 0, n, None
    f0 = fr.fmin + rng.uniform(1, n - 2) * df
    if rng.random() < 0.2:
        # signal centre outside the band (by less than the profile reach): the product is still non-zero in the edge channels
        f0 = rng.choice([fr.fmin - rng.uniform(0.3, 2.5) * df, fr.fmax + rng.uniform(0.3, 2.5) * df])
    drift = rng.uniform(-2, 2) * df / dt
    pform, tform, bform = rng.choice('cas'), rng.choice('cas'), rng.choice('ncas')
    pfun = lambda t: f0 + drift * t + 0.1 * df * np.sin(t)
    sgn = rng.choice([1.0, 1.0, -1.0])          # signals may be negative (dips, cancellations)
    tfun = lambda t: sgn * (0.4 + 0.9 * np.cos(0.7 * t))
    path = pfun if pform == 'c' else ([pfun(i * dt) for i in range(T + (1 if smear else 0))] if pform == 'a' else f0)
    tp = tfun if tform == 'c' else (np.array([tfun(i * dt) for i in range(T)]) if tform == 'a' else 1.7 * sgn)
    w = rng.uniform(0.5, 4) * df
    fp = lambda f, fc: np.exp(-((f - fc) / w) ** 2)
    bfun = lambda f: 1.0 + 0.01 * (f - fr.fmin) / df
    nsub = (nf if int_f else 1)
    bp = None if bform == 'n' else (bfun if bform == 'c' else (nrng.uniform(0.5, 1.5, (b1 - b0) * nsub) if bform == 'a' else 0.8))
    c = dict(T=T, n=n, df=df, dt=dt, asc=asc, flags=[int_path, int_t, int_f, smear], nt=nt, nf=nf, ns=ns, bounds=[b0, b1] if use_b else None, forms=pform + tform + bform)
    before = fr.data.copy()
    state = (fr.fs.copy(), fr.ts.copy(), fr.shape, fr.noise_mean, fr.noise_std, dict(fr.metadata), fr.rng.bit_generator.state)
    sig = R.guard('add_signal', c, lambda: fr.add_signal(path, tp, fp, bp_profile=bp, bounding_f_range=br, integrate_path=int_path, integrate_t_profile=int_t,
                                                       integrate_f_profile=int_f, doppler_smearing=smear, t_subsamples=nt, f_subsamples=nf, smearing_subsamples=ns))
    if sig is None:
        continue
    ref = evaluator(fr, path, tp, fp, bp, b0, b1, int_path, int_t, int_f, smear, nt, nf, ns)
    R.check('pixel/product-or-documented-average', c, sig.shape == (T, n) and np.allclose(sig, ref, rtol=1e-7, atol=1e-10), float(np.max(np.abs(sig - ref))))
    outside = np.ones(n, bool); outside[b0:b1] = False
    R.check('confined/outside-bit-for-bit-untouched', c, fr.data[:, outside].tobytes() == before[:, outside].tobytes() and not np.any(sig[:, outside]), None)
    R.check('additive/data-changed-by-returned-signal', c, np.allclose(fr.data - before, sig, rtol=0, atol=1e-9), None)
    after = (fr.fs, fr.ts, fr.shape, fr.noise_mean, fr.noise_std, dict(fr.metadata), fr.rng.bit_generator.state)
    R.check('state/axes-noise-metadata-rng-unchanged', c, np.array_equal(state[0], after[0]) and np.array_equal(state[1], after[1]) and state[2:] == after[2:], None)
R.finish()
