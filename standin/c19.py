"""C19 bounded stand-in: the real splitters on written filterbank files and on arrays."""
from base import *
import numpy as np, os, logging
logging.disable(logging.CRITICAL)
import setigen as stg
from setigen import split_utils, sample_from_obs

R = Runner('C19', 'bounded: filterbank files <= 96 channels x <= 6 integrations with realistic and awkward resolutions, both orientations, shifts below/equal/above the piece size; '
           'arrays <= 12 x 14 with every tile size and trim flag', 'quick 40 / thorough 400 files; arrays exhaustive over tile sizes')
rng = R.rng
DFS = [2.7939677238464355, 1.0, 2.79, 0.3, 2.835503418452676, 91.55273437, 1e-3]
F1S = [6095.214842353016e6, 1420.0e6, 8421.38671875e6, 1.0e9 / 3]

for it in range(R.n(40, 400)):
    fchans = rng.choice([2, 4, 8, 16])
    nch = fchans * rng.randint(1, 6) + rng.choice([0, 0, 1, 3])
    s = rng.choice([fchans, fchans, max(1, fchans // 2), fchans + 1, 1 if nch <= 24 else fchans])
    T = rng.randint(2, 6)
    tch = rng.choice([None, None, 1, T, T - 1])
    df, fch1, asc = rng.choice(DFS), rng.choice(F1S), rng.random() < 0.5
    c = dict(nchans=nch, fchans=fchans, shift=s, tchans=tch, T=T, df=df, fch1=fch1, ascending=asc)
    fr = stg.Frame(fchans=nch, tchans=T, df=df, dt=1.0, fch1=fch1, ascending=asc, seed=it, t_start=0)
    fr.data[:] = np.arange(T * nch, dtype=float).reshape(T, nch)
    fn = os.path.join(R.tmp, f'x{it}.fil')
    fr.save_fil(fn)
    full = stg.Frame(fn)
    want = (nch - fchans) // s + 1 if nch >= fchans else 0
    pieces = R.guard('split_waterfall_generator/no-exception', c, lambda: list(split_utils.split_waterfall_generator(fn, fchans, tchans=tch, f_shift=s)))
    if pieces is None:
        continue
    R.check('split_waterfall_generator/piece-count', c, len(pieces) == want, len(pieces), want)
    filedata = full.data if asc else full.data[:, ::-1]
    filefs = full.fs if asc else full.fs[::-1]
    okd = okf = okt = True
    for i, w in enumerate(pieces[:want]):
        f = stg.Frame(w)
        pd = f.data if asc else f.data[:, ::-1]
        pf = f.fs if asc else f.fs[::-1]
        tt = T if tch is None else tch
        okt = okt and f.tchans == tt
        okd = okd and f.fchans == fchans and np.array_equal(pd, filedata[:tt, i * s:i * s + fchans])
        okf = okf and f.fchans == fchans and np.allclose(pf, filefs[i * s:i * s + fchans], rtol=0, atol=abs(df) * 1e-3 + 16 * np.spacing(fch1)) and f.ascending == asc and abs(f.df - df) <= 1e-6 * df
    R.check('split_waterfall_generator/ith-piece-is-channels-[i*s,i*s+fchans)', c, okd, None)
    R.check('split_waterfall_generator/piece-frequencies-and-orientation', c, okf, None)
    R.check('split_waterfall_generator/leading-integrations', c, okt, None)
    if it % 4 == 0:
        od = os.path.join(R.tmp, f'o{it}')
        fns = R.guard('split_fil/no-exception', c, lambda: split_utils.split_fil(fn, od, fchans, tchans=tch, f_shift=s))
        if fns is not None:
            ok = len(fns) == want
            for i, p in enumerate(fns[:want]):
                g = stg.Frame(str(p))
                pd = g.data if asc else g.data[:, ::-1]
                ok = ok and g.fchans == fchans and np.array_equal(pd, filedata[:(T if tch is None else tch), i * s:i * s + fchans])
            R.check('split_fil/one-loadable-file-per-piece', c, ok, len(fns), want)
        m = R.guard('get_mean_distribution/no-exception', c, lambda: sample_from_obs.get_mean_distribution(fn, fchans, tchans=tch, f_shift=s))
        p3 = R.guard('get_parameter_distributions/no-exception', c, lambda: sample_from_obs.get_parameter_distributions(fn, fchans, tchans=tch, f_shift=s))
        if m is not None and p3 is not None:
            R.check('distributions/one-entry-per-piece', c, len(m) == want and all(len(x) == want for x in p3), [len(m)] + [len(x) for x in p3], want)
    os.unlink(fn)

# corners run on every seed: a single piece spanning the whole band with fewer integrations than the file; split_fil called again into
# the same directory with another shift / integration count / input (what is on disk afterwards is the latest call's pieces)
for asc in (True, False):
    nch, T = 32, 8
    fr = stg.Frame(fchans=nch, tchans=T, df=2.79, dt=1.0, fch1=6.0e9, ascending=asc, seed=5, t_start=0)
    fr.data[:] = np.arange(T * nch, dtype=float).reshape(T, nch)
    fn = os.path.join(R.tmp, f'corner{int(asc)}.fil')
    fr.save_fil(fn)
    full = stg.Frame(fn)
    filedata = full.data if asc else full.data[:, ::-1]
    for fchans, s, tch in ((32, 32, 3), (32, 4, 1), (20, 32, 2), (16, 16, 5)):
        c = dict(nchans=nch, fchans=fchans, shift=s, tchans=tch, T=T, ascending=asc)
        ps = R.guard('split_waterfall_generator/no-exception', c, lambda: [stg.Frame(w) for w in split_utils.split_waterfall_generator(fn, fchans, tchans=tch, f_shift=s)])
        if ps is not None:
            want = (nch - fchans) // s + 1
            R.check('split_waterfall_generator/corner/count-shape-integrations', c, len(ps) == want and all(p.shape == (tch, fchans) for p in ps), [list(p.shape) for p in ps], [tch, fchans])
    od = os.path.join(R.tmp, f'shared{int(asc)}')
    for (fchans, s, tch) in ((16, 16, None), (16, 8, None), (16, 8, 3)):
        c = dict(nchans=nch, fchans=fchans, shift=s, tchans=tch, ascending=asc, same_output_dir=True)
        fns = R.guard('split_fil/no-exception', c, lambda: split_utils.split_fil(fn, od, fchans, tchans=tch, f_shift=s))
        if fns is None:
            continue
        want = (nch - fchans) // s + 1
        tt = T if tch is None else tch
        ok = len(fns) == want
        for i, pth in enumerate(fns[:want]):
            g = stg.Frame(str(pth))
            pd = g.data if asc else g.data[:, ::-1]
            ok = ok and g.shape == (tt, fchans) and np.array_equal(pd, filedata[:tt, i * s:i * s + fchans])
        R.check('split_fil/files-on-disk-are-this-call-s-pieces', c, ok, len(fns), want)

# the same path split again after the file behind it changed (another geometry): nothing of the earlier header may be remembered
pth = os.path.join(R.tmp, 'reused.fil')
for (nch, T, asc) in ((64, 8, False), (32, 6, True), (48, 4, False)):
    fr = stg.Frame(fchans=nch, tchans=T, df=2.79, dt=1.0, fch1=6.0e9, ascending=asc, seed=1, t_start=0)
    fr.data[:] = np.arange(T * nch, dtype=float).reshape(T, nch)
    fr.save_fil(pth)
    ps = R.guard('split_waterfall_generator/reused-path/no-exception', dict(nchans=nch, T=T, ascending=asc), lambda: [stg.Frame(w) for w in split_utils.split_waterfall_generator(pth, 16)])
    if ps is not None:
        R.check('split_waterfall_generator/reused-path-follows-the-current-file', dict(nchans=nch, T=T, ascending=asc), len(ps) == nch // 16 and all(p_.shape == (T, 16) for p_ in ps),
                [list(p_.shape) for p_ in ps], [T, 16])

# arrays: shifts equal to the tile sizes -> partition in row-major order; trimming keeps exactly the full-size tiles
shapes = [(1, 1), (5, 7), (4, 6), (12, 14), (3, 1), (1, 9)] if R.tier != 'thorough' else [(h, w) for h in range(1, 8) for w in range(1, 9)] + [(12, 14)]
for (H, W) in shapes:
    a = np.arange(H * W).reshape(H, W)
    for th in range(1, H + 2):
        for tw in range(1, W + 2):
            for explicit in (False, True):
                for tt, ft in ((False, False), (True, False), (False, True), (True, True)):
                    c = dict(H=H, W=W, t_sample_num=th, f_sample_num=tw, explicit_shifts=explicit, t_trim=tt, f_trim=ft)
                    kw = dict(f_sample_num=tw, t_sample_num=th, t_trim=tt, f_trim=ft)
                    if explicit:
                        kw.update(f_shift=tw, t_shift=th)
                    out = R.guard('split_array/no-exception', c, lambda: split_utils.split_array(a, **kw))
                    if out is None:
                        continue
                    want = [a[r:r + th, q:q + tw] for r in range(0, H, th) for q in range(0, W, tw)]
                    if tt:
                        want = [x for x in want if x.shape[0] == th]
                    if ft:
                        want = [x for x in want if x.shape[1] == tw]
                    got = list(out)
                    R.check('split_array/row-major-partition-with-trimming', c, len(got) == len(want) and all(np.array_equal(g, w) for g, w in zip(got, want)), len(got), len(want))
                    if not tt and not ft:
                        cnt = np.zeros(H * W, dtype=int)
                        for g in got:
                            np.add.at(cnt, np.asarray(g).ravel(), 1)
                        R.check('split_array/every-element-in-exactly-one-tile', c, bool((cnt == 1).all()), None)
R.finish()
