"""Contract registry (sidecar contracts register themselves here)."""


class Contract:
    def __init__(self, prop, name, fn, functions, mode, note):
        self.prop, self.name, self.fn, self.functions, self.mode, self.note = prop, name, fn, functions, mode, note


REGISTRY = []
PROP_TRUSTED = {}
PROP_LEVEL = {}
PROP_EXPLANATION = {}


def contract(prop, name, functions=(), mode='real', note=''):
    def deco(fn):
        REGISTRY.append(Contract(prop, name, fn, list(functions), mode, note))
        return fn
    return deco
