"""numpy arrays as index functions (closures) with symbolic shapes.

SArr(shape, fn, dtype): `shape` is a tuple of ints / int Syms, `fn(idx_tuple)` returns the
element (Sym / SCplx / concrete number) at an in-range index tuple.  Arrays are mutable
objects (in-place operators and item assignment replace `fn`), views delegate reads and
writes to their base, so aliasing is modelled by Python object identity.
"""
import z3
from .sym import (Sym, SCplx, CTX, is_conc, sym_if, And, Or, Not, smin, smax, to_int,
                  round_half_even, eq, _q, sqrt as s_sqrt)
from fractions import Fraction


class PyRaise(Exception):
    """A Python-level exception of the interpreted program."""

    def __init__(self, exc_type, msg=''):
        super().__init__(f"{exc_type}: {msg}")
        self.exc_type = exc_type
        self.msg = msg


class Unsupported(Exception):
    """The engine cannot model this construct (exit 3, never a violation)."""


def conc_int(x):
    if isinstance(x, bool):
        return int(x)
    if isinstance(x, int):
        return x
    if isinstance(x, Sym):
        c = x.concrete()
        if isinstance(c, int) and not isinstance(c, bool):
            return c
        if isinstance(c, Fraction) and c.denominator == 1:
            return int(c)
    if isinstance(x, Fraction) and x.denominator == 1:
        return int(x)
    return None


def norm_dim(d):
    c = conc_int(d)
    return c if c is not None else d


class SArr:
    is_array = True

    def __init__(self, shape, fn, dtype='real', base=None, vmap=None, affine=None, branch=None):
        self.shape = tuple(norm_dim(d) for d in shape)
        self._fn = fn
        self.dtype = dtype
        self.base = base        # root array when this is a view
        self.vmap = vmap        # idx of view -> idx of base
        self.affine = affine    # (start, step) for 1-D index arrays built from arange
        self.writes = 0         # number of in-place writes (frame-condition bookkeeping)

    # -- reading --------------------------------------------------------------------
    @property
    def ndim(self):
        return len(self.shape)

    def root(self):
        return self.base.root() if self.base is not None else self

    def at(self, idx):
        idx = tuple(idx)
        assert len(idx) == len(self.shape), (idx, self.shape)
        if self.base is not None:
            return self.base.at(self.vmap(idx))
        return self._fn(idx)

    def size(self):
        n = 1
        for d in self.shape:
            n = n * d
        return n

    def __len__(self):
        if not self.shape:
            raise PyRaise('TypeError', 'len() of unsized object')
        n = self.shape[0]
        c = conc_int(n)
        if c is None:
            raise Unsupported("len() of array with symbolic length used concretely")
        return c

    def length(self):
        if not self.shape:
            raise PyRaise('TypeError', 'len() of unsized object')
        return self.shape[0]

    # -- writing --------------------------------------------------------------------
    def set_fn(self, newfn):
        """Replace contents (in place).  For a view the write goes to the base."""
        if self.base is not None:
            raise Unsupported("whole-array in-place update through a view")
        self._fn = newfn
        self.writes += 1

    def copy(self):
        src = self
        snap = src._snapshot()
        return SArr(self.shape, snap, self.dtype, affine=self.affine)

    def _snapshot(self):
        """A closure reading the *current* contents (immune to later writes)."""
        if self.base is not None:
            bsnap = self.base._snapshot()
            vm = self.vmap
            return lambda idx: bsnap(vm(idx))
        return self._fn

    def write_region(self, in_region, newval):
        """A[idx] = newval(idx) where in_region(idx) (Sym bool / bool) else old."""
        if self.base is not None:
            inv = getattr(self, 'inv_map', None)
            if inv is None:
                raise Unsupported("region write through view")
            self.base.write_region(lambda b: in_region(inv(b)), lambda b: newval(inv(b)))
            self.writes += 1
            return
        old = self._fn

        def fn(idx, old=old):
            c = in_region(idx)
            if isinstance(c, bool):
                return newval(idx) if c else old(idx)
            cc = c.concrete()
            if cc is not None:
                return newval(idx) if cc else old(idx)
            return sym_if(c, newval(idx), old(idx))
        self._fn = fn
        self.writes += 1

    def __repr__(self):
        return f"SArr(shape={self.shape}, dtype={self.dtype})"


# -------------------------------------------------------------------------------------
# construction

def const_array(shape, value, dtype=None):
    if dtype is None:
        dtype = 'int' if isinstance(value, int) or (isinstance(value, Sym) and value.k == 'int') else 'real'
    return SArr(shape, lambda idx: value, dtype)


def from_list(lst):
    """np.array(python list of scalars / nested lists / arrays)."""
    if isinstance(lst, SArr):
        return lst.copy()
    if not isinstance(lst, (list, tuple)):
        return SArr((), lambda idx: lst, 'real')
    n = len(lst)
    if n == 0:
        return SArr((0,), lambda idx: 0, 'real')
    first = lst[0]
    if isinstance(first, (list, tuple, SArr)):
        subs = [from_list(x) for x in lst]
        sh = subs[0].shape
        for s in subs[1:]:
            if len(s.shape) != len(sh):
                raise PyRaise('ValueError', 'inhomogeneous shape')
            for a, b in zip(s.shape, sh):
                ca, cb = conc_int(a), conc_int(b)
                if ca is not None and cb is not None:
                    if ca != cb:
                        raise PyRaise('ValueError', 'inhomogeneous shape')
                else:
                    from .interp import current_interp
                    if not current_interp().branch(eq(a, b)):
                        raise PyRaise('ValueError', 'inhomogeneous shape')

        def fn(idx):
            i = idx[0]
            ci = conc_int(i)
            if ci is not None:
                return subs[ci].at(idx[1:])
            r = subs[-1].at(idx[1:])
            for k in range(n - 2, -1, -1):
                r = sym_if(eq(i, k), subs[k].at(idx[1:]), r)
            return r
        dt = subs[0].dtype
        if any(s.dtype == 'complex' for s in subs):
            dt = 'complex'
        return SArr((n,) + tuple(sh), fn, dt)
    vals = list(lst)

    def fn1(idx):
        i = idx[0]
        ci = conc_int(i)
        if ci is not None:
            return vals[ci]
        r = vals[-1]
        for k in range(n - 2, -1, -1):
            r = sym_if(eq(i, k), vals[k], r)
        return r
    dt = 'real'
    if all(isinstance(v, int) or (isinstance(v, Sym) and v.k == 'int') for v in vals):
        dt = 'int'
    if any(isinstance(v, (SCplx, complex)) for v in vals):
        dt = 'complex'
    return SArr((n,), fn1, dt)


def symbolic_array(name, shape, dtype='real'):
    """A fresh unconstrained array: elements are applications of an uninterpreted function."""
    nd = len(shape)
    CTX.counter += 1
    fname = f"{name}!{CTX.counter}"
    if dtype == 'complex':
        fr = z3.Function(fname + '_re', *([z3.IntSort()] * nd), z3.RealSort())
        fi = z3.Function(fname + '_im', *([z3.IntSort()] * nd), z3.RealSort())

        def fnc(idx):
            ts = [Sym.lift(i).as_int() for i in idx]
            return SCplx(Sym(fr(*ts), 'real'), Sym(fi(*ts), 'real'))
        return SArr(shape, fnc, 'complex')
    sort = z3.IntSort() if dtype == 'int' else z3.RealSort()
    if nd == 0:
        c = z3.Const(fname, sort)
        return SArr(shape, lambda idx: Sym(c, dtype), dtype)
    f = z3.Function(fname, *([z3.IntSort()] * nd), sort)

    def fn(idx):
        ts = [Sym.lift(i).as_int() for i in idx]
        return Sym(f(*ts), 'int' if dtype == 'int' else 'real')
    a = SArr(shape, fn, dtype)
    a.uf = f
    return a


# -------------------------------------------------------------------------------------
# broadcasting and element-wise operations

def _interp():
    from .interp import current_interp
    return current_interp()


def broadcast_shapes(sa, sb):
    na, nb = len(sa), len(sb)
    n = max(na, nb)
    out = []
    ma, mb = [], []   # per output dim: does a / b use the index (True) or 0 (broadcast) or absent (None)
    for k in range(n):
        ia, ib = k - (n - na), k - (n - nb)
        da = sa[ia] if ia >= 0 else None
        db = sb[ib] if ib >= 0 else None
        if da is None:
            out.append(db); ma.append(None); mb.append(True); continue
        if db is None:
            out.append(da); ma.append(True); mb.append(None); continue
        ca, cb = conc_int(da), conc_int(db)
        if ca == 1 and cb != 1:
            out.append(db); ma.append(False); mb.append(True)
        elif cb == 1 and ca != 1:
            out.append(da); ma.append(True); mb.append(False)
        else:
            if ca is not None and cb is not None:
                if ca != cb:
                    raise PyRaise('ValueError', f'operands could not be broadcast together {sa} {sb}')
            else:
                same = eq(da, db)
                if not (same is True):
                    if not _interp().branch(same):
                        raise PyRaise('ValueError', f'operands could not be broadcast together {sa} {sb}')
            out.append(da if ca is not None or cb is None else db); ma.append(True); mb.append(True)
    return tuple(out), ma, mb


def _sub_idx(idx, m, nd_out, nd):
    off = nd_out - nd
    return tuple((idx[k] if m[k] else 0) for k in range(off, nd_out))


def as_arr(x):
    return x if isinstance(x, SArr) else None


def result_dtype(a, b, op):
    def dt(x):
        if isinstance(x, SArr):
            return x.dtype
        if isinstance(x, (SCplx, complex)):
            return 'complex'
        if isinstance(x, bool):
            return 'bool'
        if isinstance(x, int):
            return 'int'
        if isinstance(x, Sym):
            return x.k
        return 'real'
    da, db = dt(a), dt(b)
    if op in ('<', '<=', '>', '>=', '==', '!=', 'and', 'or'):
        return 'bool'
    if 'complex' in (da, db):
        return 'complex'
    if op == '/':
        return 'real'
    if 'real' in (da, db):
        return 'real'
    return 'int'


def elementwise2(a, b, f, op='+'):
    """Binary element-wise operation with broadcasting; a or b may be scalars."""
    dt = result_dtype(a, b, op)
    # operands are read NOW (snapshots): a later in-place update of an operand must not change this result
    if isinstance(a, SArr) and isinstance(b, SArr):
        shape, ma, mb = broadcast_shapes(a.shape, b.shape)
        n, na, nb = len(shape), a.ndim, b.ndim
        sa, sb = a._snapshot(), b._snapshot()
        return SArr(shape, lambda idx: f(sa(_sub_idx(idx, ma, n, na)), sb(_sub_idx(idx, mb, n, nb))), dt)
    if isinstance(a, SArr):
        sa = a._snapshot()
        return SArr(a.shape, lambda idx: f(sa(idx), b), dt)
    sb = b._snapshot()
    return SArr(b.shape, lambda idx: f(a, sb(idx)), dt)


def elementwise1(a, f, dtype=None):
    sa = a._snapshot()
    return SArr(a.shape, lambda idx: f(sa(idx)), dtype or a.dtype)


# -------------------------------------------------------------------------------------
# indexing

class SliceSpec:
    """A normalised slice over a dimension of length n: indices start + k*step, k < count."""

    def __init__(self, start, step, count):
        self.start, self.step, self.count = start, step, count


def norm_slice(sl_start, sl_stop, sl_step, n):
    """Python slice normalisation with symbolic bounds (step must be concrete non-zero)."""
    step = 1 if sl_step is None else conc_int(sl_step)
    if step is None or step == 0:
        raise Unsupported("slice with symbolic or zero step")

    def clamp(v, lo, hi):
        return smax(lo, smin(v, hi))

    def norm(v, default, lo, hi):
        if v is None:
            return default
        cv, cn = conc_int(v), conc_int(n)
        if cv is not None and cn is not None:
            vv = cv + cn if cv < 0 else cv
            return max(lo if isinstance(lo, int) else lo, min(vv, hi)) if isinstance(lo, int) and isinstance(hi, int) else clamp(vv, lo, hi)
        if cv is not None and cv >= 0:
            return clamp(cv, lo, hi)
        vv = sym_if(Sym.lift(v) < 0, v + n, v)
        return clamp(vv, lo, hi)

    if step > 0:
        start = norm(sl_start, 0, 0, n)
        stop = norm(sl_stop, n, 0, n)
        # count = max(0, ceil((stop-start)/step))
        diff = stop - start
        if step == 1:
            count = smax(diff, 0)
        else:
            count = smax((diff + step - 1) // step, 0)
    else:
        start = norm(sl_start, n - 1, -1, n - 1)
        stop = norm(sl_stop, -1, -1, n - 1)
        diff = start - stop
        s = -step
        if s == 1:
            count = smax(diff, 0)
        else:
            count = smax((diff + s - 1) // s, 0)
    return SliceSpec(norm_dim(start), step, norm_dim(count))


class NewAxis:
    pass


NEWAXIS = NewAxis()


def _norm_int_index(i, n):
    """Scalar index with Python negative wrap; IndexError out of range is a branch."""
    ci, cn = conc_int(i), conc_int(n)
    if ci is not None and cn is not None:
        if ci < -cn or ci >= cn:
            raise PyRaise('IndexError', f'index {ci} out of bounds for axis with size {cn}')
        return ci + cn if ci < 0 else ci
    ii = Sym.lift(i) if not isinstance(i, Sym) else i
    inr = And(ii >= -Sym.lift(n) if not isinstance(n, Sym) else ii >= -n, ii < n)
    if not _interp().branch(inr):
        raise PyRaise('IndexError', 'index out of bounds')
    if ci is not None:
        return ci if ci >= 0 else ci + n
    neg = ii < 0
    cneg = neg.concrete() if isinstance(neg, Sym) else neg
    if cneg is None:
        # decide sign by branching (keeps terms simple)
        cneg = _interp().branch(neg)
    return ii + n if cneg else ii


def parse_index(arr, key):
    """Return (out_shape, mapping: out_idx -> base_idx, kind) for basic/affine-fancy indexing.
    kind 'basic' (view) or 'fancy' (copy)."""
    if not isinstance(key, tuple):
        key = (key,)
    # expand Ellipsis
    if any(k is Ellipsis for k in key):
        n_spec = sum(1 for k in key if k is not Ellipsis and k is not None and not isinstance(k, NewAxis))
        pos = [i for i, k in enumerate(key) if k is Ellipsis][0]
        key = key[:pos] + (slice(None),) * (arr.ndim - n_spec) + key[pos + 1:]
    n_consumed = sum(1 for k in key if k is not None and not isinstance(k, NewAxis))
    if n_consumed > arr.ndim:
        raise PyRaise('IndexError', 'too many indices for array')
    key = key + (slice(None),) * (arr.ndim - n_consumed)
    fancy = [k for k in key if isinstance(k, (SArr, list))]
    items = []   # per key element: ('new',), ('int', i), ('slice', spec), ('fancy', arr)
    dim = 0
    for k in key:
        if k is None or isinstance(k, NewAxis):
            items.append(('new',))
            continue
        n = arr.shape[dim]
        if isinstance(k, slice):
            items.append(('slice', norm_slice(k.start, k.stop, k.step, n)))
        elif isinstance(k, (SArr, list)):
            ka = k if isinstance(k, SArr) else from_list(k)
            if ka.dtype == 'bool':
                raise Unsupported("boolean mask inside tuple index")
            if ka.ndim == 1 and conc_int(ka.shape[0]) is not None and conc_int(ka.shape[0]) <= 8 and ka.affine is None:
                for q in range(conc_int(ka.shape[0])):
                    e = ka.at((q,))
                    ok = And(Sym.lift(e) >= -Sym.lift(n), Sym.lift(e) < n) if not (is_conc(e) and is_conc(n)) else (-n <= e < n)
                    if not _interp().branch(ok):
                        raise PyRaise('IndexError', 'index out of bounds (fancy)')
            items.append(('fancy', ka, n))
        else:
            items.append(('int', _norm_int_index(k, n)))
        dim += 1
    if not fancy:
        out_shape = []
        for it in items:
            if it[0] == 'new':
                out_shape.append(1)
            elif it[0] == 'slice':
                out_shape.append(it[1].count)

        def mapping(oidx):
            res = []
            p = 0
            for it in items:
                if it[0] == 'new':
                    p += 1
                elif it[0] == 'slice':
                    sp = it[1]
                    res.append(sp.start + oidx[p] * sp.step if not (conc_int(sp.step) == 1) else sp.start + oidx[p])
                    p += 1
                else:
                    res.append(it[1])
            return tuple(res)
        return tuple(out_shape), mapping, 'basic', items
    # fancy: broadcast all index arrays together; only support all-fancy-or-int adjacent (numpy puts
    # broadcast dims first when fancy indices are separated by slices -- not needed here)
    fshape = ()
    fa = [it[1] for it in items if it[0] == 'fancy']
    for f in fa:
        fshape, _, _ = broadcast_shapes(fshape, f.shape)
    kinds = [it[0] for it in items]
    first = kinds.index('fancy')
    last = len(kinds) - 1 - kinds[::-1].index('fancy')
    if any(k in ('slice', 'new') for k in kinds[first:last + 1]):
        raise Unsupported("fancy indices separated by slices")
    nf = len(fshape)
    out_shape = []
    for it in items[:first]:
        if it[0] == 'new':
            out_shape.append(1)
        elif it[0] == 'slice':
            out_shape.append(it[1].count)
    pre = len(out_shape)
    out_shape.extend(fshape)
    for it in items[last + 1:]:
        if it[0] == 'new':
            out_shape.append(1)
        elif it[0] == 'slice':
            out_shape.append(it[1].count)

    def fmapping(oidx):
        res = []
        p = 0
        done_f = False
        fidx = oidx[pre:pre + nf]
        for it in items:
            if it[0] == 'new':
                p += 1
            elif it[0] == 'slice':
                sp = it[1]
                res.append(sp.start + oidx[p] * sp.step)
                p += 1
            elif it[0] == 'int':
                res.append(it[1])
            else:
                f = it[1]
                v = f.at(_sub_idx(fidx, _bmask(f.shape, fshape), nf, f.ndim))
                n_dim = it[2]
                if not (is_conc(v) and v >= 0):
                    v = sym_if(Sym.lift(v) < 0, v + n_dim, v)     # negative fancy indices wrap
                res.append(v)
                if not done_f:
                    p += nf
                    done_f = True
        return tuple(res)
    return tuple(out_shape), fmapping, 'fancy', items


def _bmask(sh, full):
    """Mask list over `full` dims telling whether array of shape sh uses the index or 0."""
    n, k = len(full), len(sh)
    m = [None] * (n - k)
    for d, fd in zip(sh, full[n - k:]):
        cd, cf = conc_int(d), conc_int(fd)
        m.append(False if (cd == 1 and cf != 1) else True)
    return m


def getitem(arr, key):
    if isinstance(key, SArr) and key.dtype == 'bool':
        raise Unsupported("boolean mask read")
    out_shape, mapping, kind, _ = parse_index(arr, key)
    if kind == 'basic':
        if len(out_shape) == 0:
            return arr.at(mapping(()))
        root = arr.root()
        if arr.base is not None:
            inner = arr.vmap
            vm = lambda idx: inner(mapping(idx))
        else:
            vm = mapping
        aff = None
        if arr.affine is not None and len(out_shape) == 1:
            # slice of an affine index array stays affine
            s0 = mapping((0,))[0]
            s1 = mapping((1,))[0]
            aff = (arr.affine[0] + arr.affine[1] * s0, arr.affine[1] * (s1 - s0))
        r = SArr(out_shape, None, arr.dtype, base=root, vmap=vm, affine=aff)
        if arr.base is None and not any(it[0] == 'fancy' for it in _):
            r.inv_region = _make_invert(_)       # writes through this view reach the root array
        return r
    snap = arr._snapshot()
    if len(out_shape) == 0:
        return snap(mapping(()))
    return SArr(out_shape, lambda idx: snap(mapping(idx)), arr.dtype)


def _affine_of(a):
    return a.affine


def _make_invert(items):
    """Inverse of a parsed index: base index -> (condition that it is addressed, out index)."""
    def invert(bidx):
        """Return (cond, oidx) such that cond <=> exists o in range: mapping(o)==bidx."""
        conds = []
        oidx = []
        p_dim = 0
        fancy_done = False
        fancy_items = [it for it in items if it[0] == 'fancy']
        for it in items:
            if it[0] == 'new':
                oidx.append(0)
                continue
            b = bidx[p_dim]
            if it[0] == 'int':
                conds.append(eq(b, it[1]))
            elif it[0] == 'slice':
                sp = it[1]
                st = conc_int(sp.step)
                if st == 1:
                    o = b - sp.start
                    conds.append(And(Sym.lift(o) >= 0, Sym.lift(o) < sp.count) if not (is_conc(o) and is_conc(sp.count)) else (0 <= o < sp.count))
                else:
                    d = b - sp.start
                    o = d // st
                    conds.append(And(eq(d % st, 0), Sym.lift(o) >= 0, Sym.lift(o) < sp.count))
                oidx.append(o)
            else:
                f = it[1]
                aff = f.affine
                if aff is None and f.base is not None and f.base.affine is not None:
                    # view of affine: evaluate linear form by probing two points
                    aff = _probe_affine(f)
                if aff is None:
                    raise Unsupported("scatter through a non-affine index array")
                # f has shape with exactly one non-1 dim (e.g. (n,1) or (1,m) or (n,))
                big = [k for k, d in enumerate(f.shape) if conc_int(d) != 1]
                if len(big) > 1:
                    raise Unsupported("scatter through multi-dim index array")
                start, step = aff
                cnt = f.shape[big[0]] if big else 1
                cs = conc_int(step)
                d = b - start
                if cs == 1:
                    o = d
                    conds.append(And(Sym.lift(o) >= 0, Sym.lift(o) < cnt))
                elif cs is not None and cs > 0:
                    o = d // cs
                    conds.append(And(eq(d % cs, 0), Sym.lift(o) >= 0, Sym.lift(o) < cnt))
                else:
                    # symbolic positive step (caller guarantees step >= 1 through path condition)
                    o = d // step
                    conds.append(And(eq(d % step, 0), Sym.lift(o) >= 0, Sym.lift(o) < cnt))
                oidx.append(('f', f, big, o))
            p_dim += 1
        # assemble out index: non-fancy dims in order with the broadcast fancy block in place
        if not fancy_items:
            return And(*conds), tuple(oidx)
        fshape = ()
        for it in fancy_items:
            fshape, _, _ = broadcast_shapes(fshape, it[1].shape)
        nf = len(fshape)
        fblock = [0] * nf
        res = []
        placed = False
        for o in oidx:
            if isinstance(o, tuple) and o and o[0] == 'f':
                _, f, big, ov = o
                if big:
                    pos = nf - f.ndim + big[0]
                    fblock[pos] = ov
                if not placed:
                    res.append('FBLOCK')
                    placed = True
            else:
                res.append(o)
        final = []
        for r in res:
            if r == 'FBLOCK':
                final.extend(fblock)
            else:
                final.append(r)
        return And(*conds), tuple(final)
    return invert


def setitem(arr, key, value):
    """arr[key] = value with numpy semantics (broadcasting of value)."""
    root = arr.root()
    if isinstance(key, SArr) and key.dtype == 'bool':
        mask = key
        if isinstance(value, SArr):
            raise Unsupported("mask assignment of array value")
        sh, mm, _ = broadcast_shapes(mask.shape, arr.shape)
        tgt = arr

        def inreg(idx):
            return mask.at(idx)
        _write(tgt, inreg, lambda idx: value)
        return
    out_shape, mapping, kind, items = parse_index(arr, key)
    # numpy casts the assigned value to the array's dtype: complex -> float drops the imaginary part (ComplexWarning),
    # float -> int truncates
    value = _cast_for_store(arr, value)
    # value accessor over out idx
    if isinstance(value, SArr):
        vshape, mv, _ = broadcast_shapes(value.shape, out_shape)
        # value must broadcast to out_shape exactly
        nd_out = len(out_shape)

        def val_at(oidx):
            return value.at(_sub_idx(oidx, _bmask(value.shape, out_shape), nd_out, value.ndim))
        vsnap_src = value
    else:
        def val_at(oidx):
            return value
    # invert mapping: for base idx b, find out idx o with mapping(o) == b
    nd = arr.ndim

    invert = _make_invert(items)

    if arr.base is not None:
        inv_region = getattr(arr, 'inv_region', None)
        if inv_region is None:
            raise Unsupported("item assignment through a view")
        # a basic-index view of a root array: base index -> view index -> assigned index

        def inreg_b(bidx):
            c1, vidx = inv_region(bidx)
            c2, _ = invert(vidx)
            return And(c1, c2)

        def newval_b(bidx):
            _, vidx = inv_region(bidx)
            _, o = invert(vidx)
            return val_at(o)
        _write(arr.base, inreg_b, newval_b)
        arr.writes += 1
        return

    def inreg(bidx):
        c, _ = invert(bidx)
        return c

    def newval(bidx):
        _, o = invert(bidx)
        return val_at(o)
    _write(arr, inreg, newval)


def _cast_for_store(arr, value):
    tgt = arr.dtype
    if tgt == 'complex' or tgt == 'obj':
        return value
    vdt = value.dtype if isinstance(value, SArr) else ('complex' if isinstance(value, (SCplx, complex)) else None)
    if vdt == 'complex':
        if isinstance(value, SArr):
            snap = value._snapshot()
            value = SArr(value.shape, lambda idx: SCplx.lift(snap(idx)).re, 'real')
        else:
            value = SCplx.lift(value).re
        vdt = 'real'
    if tgt == 'int' and getattr(arr, 'strict_int', False):
        if isinstance(value, SArr) and value.dtype == 'real':
            snap = value._snapshot()
            return SArr(value.shape, lambda idx: to_int(snap(idx)), 'int')
    return value


def _probe_affine(f):
    big = [k for k, d in enumerate(f.shape) if conc_int(d) != 1]
    z = [0] * f.ndim
    v0 = f.at(tuple(z))
    if not big:
        return (v0, 1)
    z1 = list(z)
    z1[big[0]] = 1
    v1 = f.at(tuple(z1))
    return (v0, v1 - v0)


def _write(arr, inreg, newval):
    if isinstance(newval, SArr):
        raise TypeError
    # snapshot any arrays referenced lazily is the caller's job; here old fn captured
    arr.write_region(inreg, newval)
    if arr.dtype in ('int', 'bool'):
        pass


# -------------------------------------------------------------------------------------
# helpers used by lib models

def arange(start, stop, step, dtype='int'):
    """np.arange for integer arguments: elements start + k*step, count = max(0, ceil((stop-start)/step))."""
    cs = conc_int(step)
    diff = stop - start
    if cs == 1:
        count = smax(diff, 0)
    elif cs is not None and cs > 0:
        count = smax((diff + cs - 1) // cs, 0)
    else:
        # symbolic positive step
        count = smax((diff + step - 1) // step, 0)
    return SArr((count,), lambda idx: start + idx[0] * step, dtype, affine=(start, step))


def reshape(a, newshape):
    """Row-major reshape (sizes must agree: caller's obligation / branch)."""
    newshape = tuple(newshape)
    snap = a._snapshot() if a.base is None else None
    src = a
    # resolve -1
    if any(conc_int(d) == -1 for d in newshape):
        known = 1
        for d in newshape:
            if conc_int(d) != -1:
                known = known * d
        total = a.size()
        newshape = tuple((total // known if conc_int(d) == -1 else d) for d in newshape)
    oshape = a.shape

    def fn(idx):
        # flat index
        flat = 0
        for k, d in enumerate(newshape):
            flat = flat * d + idx[k]
        # unravel in old shape
        res = []
        for d in reversed(oshape[1:]):
            res.append(flat % d)
            flat = flat // d
        res.append(flat)
        return src.at(tuple(reversed(res)))
    if a.ndim == 1:
        def fn(idx):  # noqa: F811 (fast path: 1-D source)
            flat = 0
            for k, d in enumerate(newshape):
                flat = flat * d + idx[k]
            return src.at((flat,))
    if len(newshape) == 1 and a.ndim >= 1:
        def fn(idx):  # noqa: F811 (flatten)
            flat = idx[0]
            res = []
            for d in reversed(oshape[1:]):
                res.append(flat % d)
                flat = flat // d
            res.append(flat)
            return src.at(tuple(reversed(res)))
    if a.ndim == 2 and len(newshape) == 3 and _same(oshape[0], newshape[0]) and _same(oshape[1], newshape[1] * newshape[2]):
        c = newshape[2]

        def fn(idx):  # noqa: F811 (split of the last axis: no div/mod needed)
            return src.at((idx[0], idx[1] * c + idx[2]))
    r = SArr(newshape, fn, a.dtype)
    r.view_of = a.root()      # reshape returns a view in numpy (for contiguous input)
    return r


def _same(x, y):
    """Syntactic equality of two dimension terms (after simplification)."""
    if is_conc(x) and is_conc(y):
        return x == y
    e = eq(x, y)
    if isinstance(e, bool):
        return e
    if z3.is_true(z3.simplify(e.t)):
        return True
    if CTX.sign_oracle is not None:
        d = Sym.lift(x) - y
        if isinstance(d, Sym) and CTX.sign_oracle(d.t, True) == 'pos' and CTX.sign_oracle((-d).t, True) == 'pos':
            return True          # the path condition entails x == y
    return False


def transpose(a):
    if a.ndim < 2:
        return a
    sh = tuple(reversed(a.shape))
    root = a.root()
    if a.base is not None:
        inner = a.vmap
        return SArr(sh, None, a.dtype, base=root, vmap=lambda idx: inner(tuple(reversed(idx))))
    r = SArr(sh, None, a.dtype, base=a, vmap=lambda idx: tuple(reversed(idx)))
    r.inv_map = lambda b: tuple(reversed(b))        # transposition is its own inverse: writes through the view are supported
    return r


def concatenate(arrs, axis=0):
    arrs = [a if isinstance(a, SArr) else from_list(a) for a in arrs]
    if len(arrs) == 1:
        return arrs[0].copy()
    nd = arrs[0].ndim
    snaps = [a._snapshot() for a in arrs]
    lens = [a.shape[axis] for a in arrs]
    total = lens[0]
    for l in lens[1:]:
        total = total + l
    shape = list(arrs[0].shape)
    shape[axis] = total
    dt = 'complex' if any(a.dtype == 'complex' for a in arrs) else ('real' if any(a.dtype == 'real' for a in arrs) else arrs[0].dtype)

    def fn(idx):
        i = idx[axis]
        offs = 0
        pieces = []
        for s, l in zip(snaps, lens):
            j = i - offs
            sub = tuple(j if k == axis else idx[k] for k in range(nd))
            pieces.append((offs + l, s, sub))
            offs = offs + l
        # select
        r = pieces[-1][1](pieces[-1][2])
        for bound, s, sub in reversed(pieces[:-1]):
            c = Sym.lift(i) < bound if not (is_conc(i) and is_conc(bound)) else (i < bound)
            if isinstance(c, bool):
                r = s(sub) if c else r
            else:
                cc = c.concrete()
                if cc is not None:
                    r = s(sub) if cc else r
                else:
                    r = sym_if(c, s(sub), r)
        return r
    return SArr(tuple(shape), fn, dt)
