"""Model of GUPPI RAW files on the *read* side, parameterised by the writer's specification (C04):

  file = blocks; block = cards (80 bytes each) + END card + zero padding + BLOCSIZE data bytes
  padding = (512 - 80*(ncards+1) % 512) % 512 if DIRECTIO != 0 else 0

The number of cards, the block size, the DIRECTIO value and the number of blocks are symbolic; header keys are
distinct; the values of the cards the library reads (BLOCSIZE, DIRECTIO, NBITS, ...) are symbolic numbers whose
text renders/parses back to the number (assumed repr round trip of the card rendering).
"""
import z3
from .sym import Sym, CTX, And, Or, Not, Implies, eq, sym_if, smin, smax, is_conc
from .arr import SArr, PyRaise, Unsupported, conc_int


class Layout:
    def __init__(self, name, fields, directio='sym'):
        """fields: dict key -> numeric value (Sym) for the cards the readers look at.  Card order: the known keys
        occupy symbolic, pairwise distinct positions below ncards."""
        self.name = name
        self.absent = set()      # keys the writer specification never writes for this configuration
        self.ncards = Sym(z3.Int(name + '_ncards'), 'int')
        self.fields = dict(fields)
        self.pos = {k: Sym(z3.Int(f'{name}_pos_{k}'), 'int') for k in fields}
        keys = list(fields)
        cs = [self.ncards >= len(keys)]
        for k in keys:
            cs.append(And(self.pos[k] >= 0, self.pos[k] < self.ncards))
        for i in range(len(keys)):
            for j in range(i + 1, len(keys)):
                cs.append(Not(eq(self.pos[keys[i]], self.pos[keys[j]])))
        CTX.side.append(And(*cs).t)
        self.blocsize = fields['BLOCSIZE']
        d = fields.get('DIRECTIO')
        self.directio_on = Not(eq(d, 0)) if d is not None else False
        raw = 80 * (self.ncards + 1)
        pad = (512 - raw % 512) % 512
        self.pad = sym_if(self.directio_on, pad, 0) if not isinstance(self.directio_on, bool) else (pad if self.directio_on else 0)
        self.hsize = raw + self.pad
        self.blocklen = self.hsize + self.blocsize
        self.data_fn = None

    def key_at(self, idx):
        """Which known key (if any) sits at card index idx: returns list of (cond, key)."""
        return [(eq(idx, self.pos[k]), k) for k in self.fields]


class RawFileR:
    type_tag = 'rawfile'

    def __init__(self, layout, nblocks, name='f'):
        self.layout, self.nblocks, self.name = layout, nblocks, name
        self.cursor = 0
        self.size = nblocks * layout.blocklen
        self.closed = False

    def read(self, interp, n=None):
        c = self.cursor
        if n is None:
            ln = self.size - c
        else:
            ln = smin(n, smax(self.size - c, 0))
        self.cursor = c + ln
        return Chunk(self, c, ln)

    def close_ctx(self, interp):
        self.closed = True


class Chunk:
    """Bytes [start, start+length) of a RAW file."""
    type_tag = 'bytes'

    def __init__(self, f, start, length):
        self.f, self.start, self.length = f, start, length

    def _card_index(self, interp):
        """If this chunk is exactly one 80-byte card of a header return (block offset-in-block // 80)."""
        lay = self.f.layout
        off = self.start % lay.blocklen
        ok = And(eq(self.length, 80), eq(off % 80, 0), off < 80 * (lay.ncards + 1))
        return ok, off // 80

    def contains_hook(self, interp, item):
        end = f"{'END':<80}".encode()
        if item == end:
            ok, idx = self._card_index(interp)
            # the END card is the card with index ncards; data/padding bytes never spell an END card (assumed)
            return And(ok, eq(idx, self.f.layout.ncards))
        raise Unsupported("substring test on file bytes")

    def startswith(self, interp, prefix, *a):
        """bytes.startswith on a header card: the END card starts with b'END'; so does any card whose key starts with
        those letters - the cards the library itself writes/reads (tracked keys) do not, a user card may."""
        if prefix == b'END' and not a:
            lay = self.f.layout
            ok, idx = self._card_index(interp)
            if not hasattr(lay, 'end_prefixed'):
                fn = z3.Function(lay.name + '_key_starts_with_END', z3.IntSort(), z3.BoolSort())
                lay.end_prefixed = lambda i: Sym(fn(Sym.lift(i).as_int()), 'bool')
                for k in lay.fields:
                    CTX.side.append(Not(lay.end_prefixed(lay.pos[k])).t)
            return And(ok, Or(eq(idx, lay.ncards), And(idx < lay.ncards, lay.end_prefixed(idx))))
        raise Unsupported("startswith on file bytes")

    def decode(self, interp, *a):
        ok, idx = self._card_index(interp)
        if not interp.branch(And(ok, idx < self.f.layout.ncards)):
            raise Unsupported("decode of bytes that are not a header card")
        return CardStr(self.f.layout, idx)

    def as_int8_array(self):
        """np.frombuffer(chunk, dtype=int8): the data bytes of a block (chunk must be exactly one data section)."""
        lay = self.f.layout
        if lay.data_fn is None:
            raise Unsupported("frombuffer: layout has no data model")
        blk = self.start // lay.blocklen
        n = self.length
        return SArr((n,), lambda idx: lay.data_fn(blk, idx[0]), 'int')


class CardStr:
    type_tag = 'cardstr'

    def __init__(self, layout, idx):
        self.layout, self.idx = layout, idx


class CardKey:
    type_tag = 'str'

    def __init__(self, layout, idx):
        self.layout, self.idx = layout, idx


class HeaderVal:
    """Value text of a card; int()/float() give the number it renders."""
    type_tag = 'str'

    def __init__(self, layout, idx=None, key=None):
        self.layout, self.idx, self.key = layout, idx, key

    def num(self):
        if self.key is not None:
            return self.layout.fields[self.key]
        r = None
        for cond, k in self.layout.key_at(self.idx):
            v = self.layout.fields[k]
            r = v if r is None else sym_if(cond, v, r)
        return r

    def int_hook(self, interp):
        return self.num()


class SymDict:
    """Header dictionary holding the first `count` cards of a layout (keys distinct)."""
    type_tag = 'dict'

    def __init__(self, layout, count):
        self.layout, self.count = layout, count

    @property
    def length(self):
        return self.count

    def contains_hook(self, interp, key):
        if key in self.layout.fields:
            return self.layout.pos[key] < self.count
        raise Unsupported(f"membership of untracked key {key!r} in a symbolic header")

    def getitem(self, interp, key):
        if isinstance(key, str):
            if key in self.layout.absent:
                raise PyRaise('KeyError', repr(key))
            if key not in self.layout.fields:
                raise Unsupported(f"lookup of untracked key {key!r} in a symbolic header")
            if not interp.branch(self.layout.pos[key] < self.count):
                raise PyRaise('KeyError', repr(key))
            return HeaderVal(self.layout, key=key)
        raise Unsupported("symbolic header lookup by non-literal key")

    def setitem(self, interp, key, value):
        if isinstance(key, CardKey) and key.layout is self.layout:
            same = eq(key.idx, self.count)
            if same is True or interp.branch(same):
                self.count = self.count + 1
                return
        raise Unsupported("write to a symbolic header other than appending the next card")

    def get(self, interp, key, default=None):
        if key not in self.layout.fields:
            return default        # the writer-spec layout has no such card
        if interp.branch(self.layout.pos[key] < self.count):
            return HeaderVal(self.layout, key=key)
        return default
