"""Symbolic heap of objects addressed by integer references, and lists of symbolic length.

Used where the number of objects is unbounded (frames of a cadence, antennas of an array):
  RefHeap  - per-field maps  id -> value  (closures; writes are functional updates, so aliasing
             between two references is decided by equality of their ids, not assumed)
  ObjRef   - a reference (symbolic id) to an object of a repository class living in a RefHeap
  SList    - a Python list of symbolic length: (length term, index function), mutable in place
"""
import z3
from .sym import Sym, SCplx, CTX, sym_if, And, Or, Not, eq, is_conc, smin, smax
from .arr import SArr, PyRaise, Unsupported, conc_int


class RefHeap:
    def __init__(self, name, cls=None):
        self.name = name
        self.cls = cls
        self.kinds = {}      # field -> kind ('int','real','bool','ref','arr1','arr2','opaque')
        self.fields = {}     # field -> fn(id) -> value
        self.lengths = {}    # array field -> (fn(id)->len, ...)
        self.writes = []     # log of (field, id)
        self.version = 0

    def declare(self, field, kind, **kw):
        self.kinds[field] = kind
        if kind in ('arr1', 'arr2'):
            self.lengths[field] = kw['shape']     # fn(id) -> tuple of dims

    def _default(self, field):
        kind = self.kinds.get(field)
        if kind is None:
            raise PyRaise('AttributeError', f"object has no attribute '{field}'")
        nm = f"{self.name}.{field}"
        if kind in ('int', 'real', 'bool'):
            sort = {'int': z3.IntSort(), 'real': z3.RealSort(), 'bool': z3.BoolSort()}[kind]
            f = z3.Function(nm, z3.IntSort(), sort)
            return lambda i: Sym(f(Sym.lift(i).as_int()), kind)
        if kind == 'opaque':
            f = z3.Function(nm, z3.IntSort(), z3.IntSort())
            return lambda i: Opaque(nm, Sym(f(Sym.lift(i).as_int()), 'int'))
        if kind == 'arr1':
            f = z3.Function(nm, z3.IntSort(), z3.IntSort(), z3.RealSort())
            return lambda i: (lambda idx: Sym(f(Sym.lift(i).as_int(), Sym.lift(idx[0]).as_int()), 'real'))
        if kind == 'arr2':
            f = z3.Function(nm, z3.IntSort(), z3.IntSort(), z3.IntSort(), z3.RealSort())
            return lambda i: (lambda idx: Sym(f(Sym.lift(i).as_int(), Sym.lift(idx[0]).as_int(), Sym.lift(idx[1]).as_int()), 'real'))
        if kind == 'none':
            return lambda i: None
        raise Unsupported(f"heap field kind {kind}")

    def fn(self, field):
        if field not in self.fields:
            self.fields[field] = self._default(field)
        return self.fields[field]

    def read(self, field, i):
        kind = self.kinds.get(field)
        if kind in ('arr1', 'arr2'):
            return HeapArr(self, field, i)
        return self.fn(field)(i)

    def write(self, field, i, value):
        kind = self.kinds.get(field)
        if kind is None:
            # new ad-hoc field: remember as opaque python value map
            self.kinds[field] = 'py'
            self.fields[field] = lambda x: _Missing
        if kind in ('arr1', 'arr2'):
            if not isinstance(value, SArr):
                raise Unsupported("array field assigned a non-array")
            if isinstance(value, HeapArr) and value.heap is self and value.field == field and eq(value.ref_id, i) is True:
                return
            snap = value._snapshot()
            value = snap
        old = self.fn(field)
        self.version += 1
        self.writes.append((field, i))

        def new(x, old=old, i=i, value=value):
            c = eq(x, i)
            if c is True:
                return value
            if c is False:
                return old(x)
            ov = old(x)
            if callable(value) and callable(ov) and kind in ('arr1', 'arr2'):
                return lambda idx: sym_if(c, value(idx), ov(idx))
            if ov is _Missing:
                raise Unsupported(f"read of ad-hoc field {field} through a possibly different reference")
            return ref_if(c, value, ov)
        self.fields[field] = new

    def snapshot(self):
        """Freeze the current field maps (for old() in postconditions)."""
        h = RefHeap(self.name, self.cls)
        h.kinds = dict(self.kinds)
        h.lengths = dict(self.lengths)
        h.fields = {k: self.fn(k) for k in self.kinds if self.kinds[k] != 'py'}
        return h


_Missing = object()


def ref_if(c, a, b):
    if isinstance(a, ObjRef) and isinstance(b, ObjRef):
        return ObjRef(sym_if(c, a.ref_id, b.ref_id), a.heap, a.cls)
    if isinstance(a, Opaque) and isinstance(b, Opaque):
        return Opaque(a.name, sym_if(c, a.code, b.code))
    if a is None and b is None:
        return None
    if isinstance(a, (Sym, SCplx, int, float, bool)) or is_conc(a):
        return sym_if(c, a, b)
    if a is b:
        return a
    if isinstance(a, SArr) and isinstance(b, SArr) and a.ndim == b.ndim:
        # read-only merge of two arrays (e.g. list elements selected by a symbolic index)
        sa, sb = a._snapshot(), b._snapshot()
        return SArr(tuple(sym_if(c, x, y) for x, y in zip(a.shape, b.shape)), lambda idx: sym_if(c, sa(idx), sb(idx)),
                    a.dtype if a.dtype == b.dtype else 'real')
    if hasattr(a, 'fields') and hasattr(b, 'fields') and type(a) is type(b) and getattr(a, 'cls', None) is getattr(b, 'cls', None) \
            and getattr(a, 'tag', None) == getattr(b, 'tag', None) and set(a.fields) == set(b.fields):
        r = type(a)(a.cls, {k: ref_if(c, a.fields[k], b.fields[k]) for k in a.fields}, tag=a.tag)
        return r
    if isinstance(a, (tuple, list)) and isinstance(b, (tuple, list)) and len(a) == len(b) and type(a) is type(b):
        return type(a)(ref_if(c, x, y) for x, y in zip(a, b))
    if isinstance(a, str) and isinstance(b, str) and a == b:
        return a
    if isinstance(a, dict) and isinstance(b, dict) and set(a) == set(b):
        return {k: ref_if(c, a[k], b[k]) for k in a}
    raise Unsupported(f"conditional over values {a!r} / {b!r}")


class Opaque:
    """Opaque immutable value identified by an integer code (strings, labels)."""
    type_tag = 'str'

    def __init__(self, name, code):
        self.name, self.code = name, code

    def compare_hook(self, interp, op, a, b):
        if op == 'Eq' and isinstance(a, Opaque) and isinstance(b, Opaque):
            return eq(a.code, b.code)
        if op == 'Eq':
            return False
        raise Unsupported("opaque ordering")


class HeapArr(SArr):
    """An array-valued field of a heap object; reads/writes go to the heap's current field map."""

    def __init__(self, heap, field, ref_id):
        self.heap, self.field, self.ref_id = heap, field, ref_id
        shape = heap.lengths[field](ref_id)
        SArr.__init__(self, shape, None, 'real')

    def at(self, idx):
        return self.heap.fn(self.field)(self.ref_id)(tuple(idx))

    def _snapshot(self):
        f = self.heap.fn(self.field)(self.ref_id)
        return lambda idx: f(tuple(idx))

    def set_fn(self, newfn):
        self.heap.write(self.field, self.ref_id, SArr(self.shape, newfn, 'real'))
        self.writes += 1

    def write_region(self, in_region, newval):
        old = self._snapshot()

        def fn(idx):
            c = in_region(idx)
            if isinstance(c, bool):
                return newval(idx) if c else old(idx)
            return sym_if(c, newval(idx), old(idx))
        self.set_fn(fn)

    def root(self):
        return self

    def copy(self):
        return SArr(self.shape, self._snapshot(), 'real')


class ObjRef:
    """Reference to a heap object.  Attribute access is resolved by the interpreter."""

    def __init__(self, ref_id, heap, cls=None):
        self.ref_id = ref_id
        self.heap = heap
        self.cls = cls if cls is not None else heap.cls

    def __repr__(self):
        return f"<ObjRef {self.heap.name}#{self.ref_id}>"

    def compare_hook(self, interp, op, a, b):
        if op in ('Eq', 'Is'):
            if isinstance(a, ObjRef) and isinstance(b, ObjRef):
                return eq(a.ref_id, b.ref_id)
            return False
        raise Unsupported("ordering of objects")


class SList:
    """Python list of symbolic length."""
    type_tag = 'list'

    def __init__(self, length, at):
        self.length = length
        self._at = at
        self.mutations = 0

    def at(self, k):
        return self._at(k)

    def snapshot(self):
        return SList(self.length, self._at)

    def _set(self, length, at):
        self.length, self._at = length, at
        self.mutations += 1

    # -- Python list semantics ------------------------------------------------------------
    def norm_index(self, interp, i, exc='list index out of range'):
        """Index normalisation for item access: negative wraps, out of range raises IndexError."""
        n = self.length
        i = Sym.lift(i) if not isinstance(i, Sym) else i
        inr = And(i >= -Sym.lift(n), i < n)
        if not interp.branch(inr):
            raise PyRaise('IndexError', exc)
        if interp.branch(i < 0):
            return i + n
        return i

    def getitem(self, interp, key):
        if isinstance(key, slice):
            from .arr import norm_slice
            sp = norm_slice(key.start, key.stop, key.step, self.length)
            old = self._at
            return SList(sp.count, lambda k: old(sp.start + k * sp.step))
        return self._at(self.norm_index(interp, key))

    def setitem(self, interp, key, value):
        if isinstance(key, slice):
            raise Unsupported("slice assignment on symbolic list")
        p = self.norm_index(interp, key, 'list assignment index out of range')
        old = self._at
        self._set(self.length, lambda k: ref_if(eq(k, p), value, old(k)) if not (eq(k, p) is True or eq(k, p) is False) else (value if eq(k, p) else old(k)))

    def delitem(self, interp, key):
        if isinstance(key, slice):
            from .arr import norm_slice
            sp = norm_slice(key.start, key.stop, key.step, self.length)
            if conc_int(sp.step) != 1:
                raise Unsupported("extended slice deletion")
            old = self._at
            st, cnt = sp.start, sp.count
            self._set(self.length - cnt, lambda k: _pick(Sym.lift(k) < st, lambda: old(k), lambda: old(k + cnt)))
            return
        p = self.norm_index(interp, key, 'list assignment index out of range')
        old = self._at
        self._set(self.length - 1, lambda k: _pick(Sym.lift(k) < p, lambda: old(k), lambda: old(k + 1)))

    def insert(self, interp, i, value):
        n = self.length
        i = Sym.lift(i) if not isinstance(i, Sym) else i
        # CPython: if i < 0: i += n; if i < 0: i = 0; if i > n: i = n
        if interp.branch(i < 0):
            i = i + n
            if interp.branch(i < 0):
                i = 0
        elif interp.branch(i > n):
            i = n
        p = i
        old = self._at
        self._set(n + 1, lambda k: _pick(Sym.lift(k) < p, lambda: old(k), lambda: _pick(eq(k, p), lambda: value, lambda: old(k - 1))))

    def append(self, interp, value):
        n = self.length
        old = self._at
        self._set(n + 1, lambda k: _pick(Sym.lift(k) < n, lambda: old(k), lambda: value))

    def pop(self, interp, i=-1):
        v = self.getitem(interp, i)
        self.delitem(interp, i)
        return v


def _pick(c, fa, fb):
    if isinstance(c, bool):
        return fa() if c else fb()
    cc = c.concrete()
    if cc is not None:
        return fa() if cc else fb()
    return ref_if(c, fa(), fb())


def fresh_list(name, heap, length=None, cls=None):
    """An arbitrary list of `length` references into `heap` (elements: elem(k) uninterpreted ids)."""
    CTX.counter += 1
    f = z3.Function(f"{name}!{CTX.counter}", z3.IntSort(), z3.IntSort())
    if length is None:
        length = CTX.fresh(name + '_len', 'int')
        CTX.side.append((length >= 0).t)
    return SList(length, lambda k: ObjRef(Sym(f(Sym.lift(k).as_int()), 'int'), heap, cls))


class DictRef:
    """A dict-valued field of a heap object, tracked for a fixed set of keys:
    heap fields '<field>.has.<key>' (bool) and '<field>.val.<key>'."""
    type_tag = 'dict'

    def __init__(self, heap, field, ref_id, keys):
        self.heap, self.field, self.ref_id, self.keys = heap, field, ref_id, keys

    def _chk(self, key):
        if key not in self.keys:
            raise Unsupported(f"untracked key {key!r} of heap dict {self.field}")

    def contains_hook(self, interp, key):
        self._chk(key)
        return self.heap.read(f"{self.field}.has.{key}", self.ref_id)

    def getitem(self, interp, key):
        self._chk(key)
        if not interp.branch(self.contains_hook(interp, key)):
            raise PyRaise('KeyError', repr(key))
        return self.heap.read(f"{self.field}.val.{key}", self.ref_id)

    def setitem(self, interp, key, value):
        self._chk(key)
        self.heap.write(f"{self.field}.has.{key}", self.ref_id, True)
        self.heap.write(f"{self.field}.val.{key}", self.ref_id, value)

    def update(self, interp, other):
        for k, v in other.items():
            self.setitem(interp, k, v)
