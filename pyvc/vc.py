"""Obligation management, path exploration by re-execution, and the z3 back end."""
import time
import z3
import traceback
from .sym import Sym, CTX, And, Not
from .arr import PyRaise, Unsupported
from . import interp as I
from . import lib as L


import os
DEBUG = bool(os.environ.get('VERIF_DEBUG'))


class Outcome:
    def __init__(self, kind, value=None, exc=None, msg=''):
        self.kind = kind            # 'return' | 'raise'
        self.value = value
        self.exc = exc
        self.msg = msg

    @property
    def ok(self):
        return self.kind == 'return'

    def raised(self, name=None):
        if self.kind != 'raise':
            return False
        return True if name is None else I.exc_isinstance(self.exc, name)


class ObligationResult:
    __slots__ = ('name', 'kind', 'status', 'time', 'model', 'path', 'contract', 'mode', 'reason', 'backend')

    def __init__(self, **kw):
        for k in self.__slots__:
            setattr(self, k, kw.get(k))

    def to_json(self):
        return {k: getattr(self, k) for k in self.__slots__}


def _guarded_check(s, ms):
    """solver.check() with a watchdog: some z3 tactics do not poll their timeout; interrupt gives `unknown`."""
    import threading
    wd = threading.Timer(ms / 1000.0 + 2.0, s.ctx.interrupt)
    wd.daemon = True
    wd.start()
    try:
        return s.check()
    except z3.Z3Exception:
        return z3.unknown
    finally:
        wd.cancel()


class VC:
    def __init__(self, contract_name, prop, tier='quick', seed=0):
        self.contract = contract_name
        self.prop = prop
        self.tier = tier
        self.seed = seed
        self.timeout_ms = int(os.environ.get('VERIF_SOLVER_MS', 0)) or (60000 if tier == 'quick' else 180000)
        self.results = []
        self.covers = {}
        self.paths = 0
        self.engine_errors = []
        self.functions = {}
        self.inlined = set()
        self.dropped = set()
        self.mode = 'real'
        self.assumptions_used = set()
        self.unlisted_reads = []
        self.path_limit = 4000
        self.samples = []

    # -- path lifecycle ---------------------------------------------------------------------
    def begin_path(self, prefix):
        CTX.reset()
        _SYM_CACHE.clear()
        self.prefix = list(prefix)
        self.trace = []
        self.alternatives = []
        self.solver = z3.Solver()
        self.solver.set('timeout', 3000)
        self.n_side = 0
        self.pc_terms = []
        self.interp = I.Interp(self)
        self.mode = 'real'
        self.foralls = []
        # index terms contracts conventionally inspect (their probe symbols): quantified library results (np.all / np.any over a
        # symbolic-length array) are instantiated there; instantiating a universally quantified fact anywhere is sound
        _pi = [Sym(z3.Int(nm), 'int') for nm in ('i', 'j', 'k', 't', 'c')]
        self.probe_indices = _pi + [_pi[0] + 1]
        CTX.sign_oracle = self._sign_oracle
        self.path_notes = []

    def _sync_side(self):
        while self.n_side < len(CTX.side):
            self.solver.add(CTX.side[self.n_side])
            self.n_side += 1

    def feasible(self, t):
        self._sync_side()
        self.solver.push()
        self.solver.add(t)
        r = self.solver.check()
        self.solver.pop()
        return r != z3.unsat

    def _sign_oracle(self, t, weak=False):
        """'pos' / 'neg' when the path condition entails the sign of the term t (strict; with weak=True
        'pos' means >= 0 and 'neg' means <= 0), else None."""
        try:
            if not self.feasible(t < 0 if weak else t <= 0):
                return 'pos'
            if not self.feasible(t > 0 if weak else t >= 0):
                return 'neg'
        except z3.Z3Exception:
            pass
        return None

    def _record(self, d, n_alts_fn):
        i = len(self.trace)
        self.trace.append(d)

    def decide(self, cond):
        i = len(self.trace)
        if i < len(self.prefix):
            d = self.prefix[i]
        else:
            t_ok = self.feasible(cond.t)
            f_ok = self.feasible(z3.Not(cond.t))
            if t_ok and f_ok:
                d = True
                self.alternatives.append(self.trace + [False])
            elif t_ok:
                d = True
            elif f_ok:
                d = False
            else:
                raise I.PathEnd()
        self.trace.append(d)
        self.solver.add(cond.t if d else z3.Not(cond.t))
        self.pc_terms.append(cond.t if d else z3.Not(cond.t))
        return bool(d)

    def choose(self, n, label=''):
        i = len(self.trace)
        if i < len(self.prefix):
            d = self.prefix[i]
        else:
            d = 0
            for alt in range(1, n):
                self.alternatives.append(self.trace + [alt])
        self.trace.append(d)
        return d

    def assume(self, cond):
        if isinstance(cond, bool):
            if not cond:
                raise I.PathEnd()
            return
        self.solver.add(cond.t)
        self.pc_terms.append(cond.t)

    def check_feasible_or_end(self):
        self._sync_side()
        if self.solver.check() == z3.unsat:
            raise I.PathEnd()

    # -- obligations ----------------------------------------------------------------------------
    def ensure(self, name, cond, kind='post', note=None):
        """Obligation: under the current path condition, cond holds."""
        t0 = time.time()
        if isinstance(cond, bool):
            if cond:
                self.results.append(ObligationResult(name=name, kind=kind, status='proved', time=0.0, path=self.paths,
                                                     contract=self.contract, mode=self.mode, backend='trivial'))
                return True
            neg = z3.BoolVal(True)
        else:
            neg = z3.Not(cond.t)
        rel = set(term_syms(neg))
        for h in self.pc_terms:
            rel |= term_syms(h)
        axs = L.sum_axioms(rel) if CTX.sums else []
        hyps = list(self.pc_terms) + list(CTX.side) + [ax.t for ax in axs]
        r, backend, model, reason = self._solve(hyps, neg)
        status = 'proved' if r == z3.unsat else ('failed' if r == z3.sat else 'unknown')
        self.results.append(ObligationResult(name=name, kind=kind, status=status, time=round(time.time() - t0, 4),
                                             model=model, path=self.paths, contract=self.contract, mode=self.mode,
                                             reason=reason if status == 'unknown' else note, backend=backend))
        if DEBUG:
            print(f'  [{status}] {round(time.time() - t0, 2)}s {name} ({backend})', flush=True)
        return status == 'proved'

    def _solve(self, hyps, neg):
        """Decide hyps /\\ neg with a small portfolio: z3 on the cone of influence of the goal (dropping
        hypotheses is sound for `unsat`; `sat` is only believed on the full set), z3 on the full set with a
        short budget, cvc5 on the SMT-LIB text, z3 again with the full budget."""
        try:
            if z3.is_false(z3.simplify(neg)):
                return z3.unsat, 'z3-simplify', None, None
        except z3.Z3Exception:
            pass
        sl = slice_hyps(hyps, neg)
        full_is_slice = len(sl) == len(hyps)
        reason = None
        quick_ms = min(2000, self.timeout_ms)

        def z3_try(hs, ms, seed=0):
            s = z3.Solver()
            s.set('timeout', ms)
            if seed:
                s.set('random_seed', seed)
            for h in hs:
                s.add(h)
            s.add(neg)
            # some z3 tactics do not poll the timeout: interrupt from a watchdog thread (result: unknown)
            return s, _guarded_check(s, ms)

        s, r = z3_try(sl, quick_ms)
        if r == z3.unsat:
            return r, 'z3', None, None
        if r == z3.sat and full_is_slice:
            return r, 'z3', self._model_summary(s.model()), None
        if not full_is_slice:
            s, r = z3_try(hyps, quick_ms)
            if r == z3.unsat:
                return r, 'z3', None, None
            if r == z3.sat:
                return r, 'z3', self._model_summary(s.model()), None
        reason = s.reason_unknown()
        # nlsat on the slice (fast on pure nonlinear real problems; gives up at once on anything else)
        try:
            s2 = z3.Tactic('qfnra-nlsat').solver()
            s2.set('timeout', min(1500, self.timeout_ms))
            for h in sl:
                s2.add(h)
            s2.add(neg)
            r2 = _guarded_check(s2, min(1500, self.timeout_ms))
            if r2 == z3.unsat:
                return r2, 'z3:qfnra-nlsat', None, None
            if r2 == z3.sat and full_is_slice:
                return r2, 'z3:qfnra-nlsat', self._model_summary(s2.model()), None
        except z3.Z3Exception:
            pass
        # the same z3 configuration again with a medium budget: an obligation that normally takes well under the short budget can miss it
        # when the machine is loaded (the short stages are wall-clock limits); retried before the slower second opinions
        mid_ms = min(15000, self.timeout_ms)
        if mid_ms > quick_ms:
            s, r = z3_try(sl, mid_ms)
            if r == z3.unsat:
                return r, 'z3', None, None
            if r == z3.sat and full_is_slice:
                return r, 'z3', self._model_summary(s.model()), None
            if not full_is_slice:
                s, r = z3_try(hyps, mid_ms)
                if r == z3.unsat:
                    return r, 'z3', None, None
                if r == z3.sat:
                    return r, 'z3', self._model_summary(s.model()), None
        # cvc5 second opinion (first on the slice for unsat, then on the full set)
        for hs, is_full in ((sl, full_is_slice), (hyps, True)):
            if is_full and hs is sl and not full_is_slice:
                continue
            sx = z3.Solver()
            for h in hs:
                sx.add(h)
            sx.add(neg)
            rc = self._cvc5(sx, self.timeout_ms)
            if rc is not None:
                if rc[0] == 'unsat':
                    return z3.unsat, 'cvc5', None, reason
                if rc[0] == 'sat' and is_full:
                    return z3.sat, 'cvc5', rc[1], reason
            if full_is_slice:
                break
        s, r = z3_try(hyps, self.timeout_ms, seed=11 + self.seed % 97)
        if r == z3.unsat:
            return r, 'z3', None, None
        if r == z3.sat:
            return r, 'z3', self._model_summary(s.model()), None
        for tactic in ('qfnra-nlsat',):
            try:
                s2 = z3.Tactic(tactic).solver()
                s2.set('timeout', self.timeout_ms)
                for h in hyps:
                    s2.add(h)
                s2.add(neg)
                r2 = _guarded_check(s2, self.timeout_ms)
                if r2 == z3.unsat:
                    return r2, 'z3:' + tactic, None, None
                if r2 == z3.sat:
                    return r2, 'z3:' + tactic, self._model_summary(s2.model()), None
            except z3.Z3Exception:
                pass
        return z3.unknown, 'z3', None, s.reason_unknown()

    def _cvc5(self, s, timeout_ms):
        import subprocess, tempfile, os, re
        try:
            smt2 = s.to_smt2()
        except Exception:
            return None
        smt2 = '(set-logic ALL)\n(set-option :produce-models true)\n' + smt2 + '\n(get-model)\n'
        fn = None
        try:
            with tempfile.NamedTemporaryFile('w', suffix='.smt2', delete=False, dir=os.environ.get('TMPDIR', '/var/tmp')) as f:
                f.write(smt2)
                fn = f.name
            p = subprocess.run(['/usr/bin/cvc5', '--tlimit', str(timeout_ms), fn], capture_output=True, text=True,
                               timeout=timeout_ms / 1000 + 10)
            out = p.stdout.strip().splitlines()
            if out and out[0] == 'unsat':
                return ('unsat', None)
            if out and out[0] == 'sat':
                model = {}
                for m in re.finditer(r'\(define-fun (\S+) \(\) (?:Int|Real|Bool) (.+)\)\s*$', p.stdout, re.M):
                    nm = m.group(1).strip('|')
                    if '!' not in nm or nm.startswith('wallclock'):
                        model[nm] = m.group(2)
                    if len(model) > 60:
                        break
                return ('sat', model)
        except Exception:
            return None
        finally:
            if fn and os.path.exists(fn):
                os.unlink(fn)
        return None

    def _model_summary(self, m):
        out = {}
        try:
            for d in m.decls():
                nm = d.name()
                if d.arity() == 0:
                    if '!' in nm and not nm.startswith('wallclock'):
                        continue
                    out[nm] = str(m[d])
                    if len(out) > 60:
                        break
        except Exception:
            pass
        return out

    def assume_forall(self, gen):
        """Universally quantified precondition  forall k. gen(k).  It is instantiated (soundly) at 0 and at
        every fresh index symbol the interpreter later introduces for a loop or comprehension."""
        self.foralls.append(gen)
        self.assume(gen(0))

    def instantiate(self, k):
        for g in self.foralls:
            self.assume(g(k))

    def lemma(self, name, stmt):
        """Ghost lemma: proved as its own obligation, then available as a fact (prompting the solver)."""
        ok = self.ensure(name, stmt, kind='lemma')
        if ok:
            self.assume(stmt)
        return ok

    def sum_linear(self, name, n, f, terms, at):
        """Lemma by linearity of finite sums (trusted meta-theorem): if f(j) == sum_i c_i * g_i(j) at the generic
        index `at` (proved as an obligation; c_i must not depend on j), then Sum_n f == sum_i c_i * Sum_n g_i.
        Returns (Sum f, [Sum g_i])."""
        rhs = 0
        for c, g in terms:
            rhs = rhs + c * g(at)
        ok = self.ensure(name, Sym.lift(f(at)) == rhs if not isinstance(f(at), (int, float)) else f(at) == rhs, kind='lemma')
        Sf = L.sum_term(n, f)
        Sg = [L.sum_term(n, g) for _, g in terms]
        if ok:
            tot = 0
            for (c, _), sg in zip(terms, Sg):
                tot = tot + c * sg
            self.assume(Sym.lift(Sf) == tot)
            self.assumptions_used.add('finite sums are linear (meta-theorem) - used by ' + name)
        return Sf, Sg

    def sum_step(self, k, f):
        """Definition of a finite sum: Sum_{m<k+1} f(m) = Sum_{m<k} f(m) + f(k), Sum_{m<0} = 0 (k >= 0)."""
        Sk = L.sum_term(k, f)
        Sk1 = L.sum_term(k + 1, f)
        self.assume(Sym.lift(Sk1) == Sk + f(k))
        return Sk, Sk1

    def cover(self, name):
        """Reachability/vacuity guard: the current path condition is satisfiable."""
        self._sync_side()
        r = self.solver.check()
        ok = (r == z3.sat)
        prev = self.covers.get(name)
        self.covers[name] = bool(prev) or ok
        return ok

    # -- running the real code ----------------------------------------------------------------------
    def call(self, key, *args, **kwargs):
        try:
            v = self.interp.call_key(key, *args, **kwargs)
            return Outcome('return', v)
        except PyRaise as e:
            if DEBUG:
                print(f'  (program raised {e.exc_type}: {e.msg[:120]})')
            return Outcome('raise', None, e.exc_type, e.msg)

    def run(self, thunk):
        try:
            return Outcome('return', thunk())
        except PyRaise as e:
            return Outcome('raise', None, e.exc_type, e.msg)

    def end_path(self):
        self.functions.update(self.interp.used_functions)
        self.dropped |= self.interp.dropped
        self.unlisted_reads.extend(self.interp.reads_unlisted)


from .sym import term_syms, _SYM_CACHE  # noqa: E402


def slice_hyps(hyps, goal):
    need = set(term_syms(goal))
    hs = [(h, term_syms(h)) for h in hyps]
    chosen = [False] * len(hs)
    changed = True
    while changed:
        changed = False
        for i, (h, sy) in enumerate(hs):
            if not chosen[i] and (not sy or sy & need):
                chosen[i] = True
                if not sy <= need:
                    need |= sy
                    changed = True
    return [h for (h, _), c in zip(hs, chosen) if c]


def explore(contract_fn, vc):
    work = [[]]
    while work:
        prefix = work.pop()
        vc.begin_path(prefix)
        vc.paths += 1
        if vc.paths > vc.path_limit:
            vc.engine_errors.append(f"path limit {vc.path_limit} exceeded in {vc.contract}")
            break
        try:
            contract_fn(vc)
        except I.PathEnd:
            pass
        except Unsupported as e:
            vc.engine_errors.append(f"{vc.contract}: unsupported: {e}")
        except PyRaise as e:
            vc.engine_errors.append(f"{vc.contract}: uncaught program exception in contract: {e}")
        except Exception as e:       # engine bug: never a violation
            vc.engine_errors.append(f"{vc.contract}: engine error: {type(e).__name__}: {e}\n{traceback.format_exc(limit=8)}")
        vc.end_path()
        work.extend(vc.alternatives)
    return vc
