"""Symbolic scalar values for pyvc.

Sym wraps a z3 term of sort Int, Real or Bool and gives it *Python* operator
semantics (true division yields a real, // and % floor, int() truncates, round() is
half-even).  Concrete Python numbers are kept concrete as long as possible.

Arithmetic modes (CTX.fp):
  False : "real" mode - every float is a mathematical real, operations exact.
  True  : "fp-relerr" mode - every operation on reals producing a real gets a fresh
          relative rounding term (1+d), |d| <= 2^-53 (standard model of binary64
          round-to-nearest, no overflow/underflow).  Integer-valued operations on ints
          stay exact.  int->float conversion is exact (|n| < 2^53 is a precondition).
"""
import z3
from fractions import Fraction

U = Fraction(1, 2 ** 53)


class Ctx:
    """Global symbolic-execution context (one per process; reset per run)."""

    def __init__(self):
        self.reset()

    def reset(self):
        self.fp = False
        self.side = []          # side constraints (axioms about fresh symbols), always assumed
        self.counter = 0
        self.sums = []          # registered Sum terms (z3 const, n, body)
        self.sqrt_terms = {}
        self.sign_oracle = None

    def fresh(self, prefix, sort='real'):
        self.counter += 1
        name = f"{prefix}!{self.counter}"
        if sort == 'int':
            return Sym(z3.Int(name), 'int')
        if sort == 'bool':
            return Sym(z3.Bool(name), 'bool')
        return Sym(z3.Real(name), 'real')

    def assume_side(self, t):
        self.side.append(t.t if isinstance(t, Sym) else t)


CTX = Ctx()


def _q(x):
    """Exact rational of a concrete Python number; float literals denote their shortest
    decimal representation (repr), i.e. 1e-6 is 1/1000000 (listed assumption)."""
    if isinstance(x, bool):
        return Fraction(int(x))
    if isinstance(x, int):
        return Fraction(x)
    if isinstance(x, float):
        return Fraction(repr(x))
    if isinstance(x, Fraction):
        return x
    raise TypeError(x)


def is_conc(x):
    return isinstance(x, (int, float, bool, Fraction)) and not isinstance(x, Sym)


class Sym:
    __slots__ = ('t', 'k', 'iv', 'ex', 'eps', 'ratio')

    def __init__(self, t, k, iv=None, ex=None, eps=None):
        self.t = t
        self.k = k
        self.iv = iv        # for k == 'real': z3 Int term when the value is known to be an integer (fp mode)
        self.ex = ex        # fp mode: exact (real-arithmetic) value term; t == ex*(1+delta), |delta| <= eps
        self.eps = eps
        self.ratio = None   # real mode: (a, b) z3 Int terms when the value is the exact quotient a/b of two integers

    # -- construction helpers -------------------------------------------------------
    @staticmethod
    def lift(x):
        if isinstance(x, Sym):
            return x
        if isinstance(x, bool):
            return Sym(z3.BoolVal(x), 'bool')
        if isinstance(x, int):
            return Sym(z3.IntVal(x), 'int')
        if isinstance(x, (float, Fraction)):
            q = _q(x)
            return Sym(z3.RealVal(str(q)), 'real', z3.IntVal(int(q)) if q.denominator == 1 else None)
        raise TypeError(f"cannot lift {x!r}")

    def __repr__(self):
        return f"Sym<{self.k}:{self.t}>"

    def __hash__(self):
        return hash((self.t.get_id(), self.k))

    def __bool__(self):
        s = z3.simplify(self.t)
        if z3.is_true(s):
            return True
        if z3.is_false(s):
            return False
        raise SymbolicBranch(self)

    def as_real(self):
        if self.k == 'real':
            return self.t
        if self.k == 'int':
            return z3.ToReal(self.t)
        return z3.If(self.t, z3.RealVal(1), z3.RealVal(0))

    def as_int(self):
        if self.k == 'int':
            return self.t
        if self.k == 'bool':
            return z3.If(self.t, z3.IntVal(1), z3.IntVal(0))
        raise TypeError("real used as int")

    def concrete(self):
        """Return a Python number if the term simplifies to a numeral, else None."""
        s = z3.simplify(self.t)
        if self.k == 'bool':
            if z3.is_true(s):
                return True
            if z3.is_false(s):
                return False
            return None
        if z3.is_int_value(s):
            return s.as_long()
        if z3.is_rational_value(s):
            return Fraction(s.numerator_as_long(), s.denominator_as_long())
        return None

    # -- arithmetic -----------------------------------------------------------------
    def _bin(self, o, op, rev=False):
        if not isinstance(o, Sym):
            if isinstance(o, (int, float, bool, Fraction)):
                o = Sym.lift(o)
            else:
                return NotImplemented
        a, b = (o, self) if rev else (self, o)
        return arith(a, b, op)

    def __add__(self, o): return self._bin(o, '+')
    def __radd__(self, o): return self._bin(o, '+', True)
    def __sub__(self, o): return self._bin(o, '-')
    def __rsub__(self, o): return self._bin(o, '-', True)
    def __mul__(self, o): return self._bin(o, '*')
    def __rmul__(self, o): return self._bin(o, '*', True)
    def __truediv__(self, o): return self._bin(o, '/')
    def __rtruediv__(self, o): return self._bin(o, '/', True)
    def __floordiv__(self, o): return self._bin(o, '//')
    def __rfloordiv__(self, o): return self._bin(o, '//', True)
    def __mod__(self, o): return self._bin(o, '%')
    def __rmod__(self, o): return self._bin(o, '%', True)

    def __pow__(self, o):
        return power(self, o)

    def __rpow__(self, o):
        return power(o, self)

    def __neg__(self):
        if self.k == 'bool':
            return Sym(-self.as_int(), 'int')
        return Sym(-self.t, self.k, (-self.iv) if self.iv is not None else None)

    def __pos__(self):
        return self

    def __abs__(self):
        if self.k == 'bool':
            return Sym(self.as_int(), 'int')
        if CTX.sign_oracle is not None and not z3.is_app_of(self.t, z3.Z3_OP_ITE):
            sg = CTX.sign_oracle(self.t, True)
            if sg == 'pos':
                return self
            if sg == 'neg':
                return -self
        return Sym(z3.If(self.t >= 0, self.t, -self.t), self.k,
                   z3.If(self.iv >= 0, self.iv, -self.iv) if self.iv is not None else None)

    # -- comparisons ----------------------------------------------------------------
    def _cmp(self, o, op):
        if not isinstance(o, Sym):
            if isinstance(o, (int, float, bool, Fraction)):
                o = Sym.lift(o)
            elif o is None:
                return False if op == '==' else True if op == '!=' else NotImplemented
            else:
                return NotImplemented
        return compare(self, o, op)

    def __lt__(self, o): return self._cmp(o, '<')
    def __le__(self, o): return self._cmp(o, '<=')
    def __gt__(self, o): return self._cmp(o, '>')
    def __ge__(self, o): return self._cmp(o, '>=')
    def __eq__(self, o): return self._cmp(o, '==')
    def __ne__(self, o): return self._cmp(o, '!=')

    def __index__(self):
        c = self.concrete()
        if isinstance(c, int):
            return c
        raise SymbolicBranch(self)

    def __int__(self):
        c = self.concrete()
        if c is not None:
            return int(c)
        raise SymbolicBranch(self)


class SymbolicBranch(Exception):
    """Raised when Python tries to take a concrete decision on a symbolic value outside
    the interpreter's branch points."""


def _coerce(a, b):
    """Return (ta, tb, kind) with common numeric kind."""
    ka, kb = a.k, b.k
    if ka == 'real' or kb == 'real':
        return a.as_real(), b.as_real(), 'real'
    return a.as_int(), b.as_int(), 'int'


def _round_fp(t):
    """Apply a fresh relative rounding error to a real-valued z3 term (fp-relerr)."""
    d = CTX.fresh('d')
    CTX.side.append(z3.And(d.t >= z3.RealVal(str(-U)), d.t <= z3.RealVal(str(U))))
    return t * (1 + d.t)


def _divmod_fresh(a, b):
    """Python divmod on z3 Int terms through fresh q, r with the defining constraints
    a == b*q + r, 0 <= r < b (b > 0) / b < r <= 0 (b < 0).  Much friendlier to the solver than
    div/mod by a non-constant term.  b != 0 is the caller's obligation."""
    key = ('divmod', a.get_id(), b.get_id())
    if key not in CTX.sqrt_terms:
        CTX.counter += 1
        q = z3.Int(f"q!{CTX.counter}")
        r = z3.Int(f"r!{CTX.counter}")
        qr = _poly_divmod(a, b)
        if qr is not None:
            Q, R = qr
            if z3.is_int_value(R) and R.as_long() == 0:
                # a == b * Q identically (exact polynomial division): q = Q, r = 0
                CTX.side.append(z3.Implies(b != 0, z3.And(q == Q, r == 0)))
            elif CTX.sign_oracle is not None and CTX.sign_oracle(R, True) == 'pos' and CTX.sign_oracle(b - R) == 'pos':
                # a == b*Q + R identically with 0 <= R < b on this path: quotient and remainder are Q and R
                CTX.side.append(z3.And(q == Q, r == R))
        sign = CTX.sign_oracle(b) if CTX.sign_oracle is not None else None
        if sign == 'pos':
            CTX.side.append(a == b * q + r)
            CTX.side.append(z3.And(r >= 0, r < b))
        elif sign == 'neg':
            CTX.side.append(a == b * q + r)
            CTX.side.append(z3.And(r <= 0, r > b))
        else:
            CTX.side.append(z3.Implies(b != 0, a == b * q + r))
            CTX.side.append(z3.Implies(b > 0, z3.And(r >= 0, r < b)))
            CTX.side.append(z3.Implies(b < 0, z3.And(r <= 0, r > b)))
        CTX.sqrt_terms[key] = (q, r)
    return CTX.sqrt_terms[key]


def _to_sympy(t, table):
    import sympy
    if z3.is_int_value(t):
        return sympy.Integer(t.as_long())
    if z3.is_const(t) and t.decl().kind() == z3.Z3_OP_UNINTERPRETED and z3.is_int(t):
        nm = t.decl().name()
        if nm not in table:
            table[nm] = (sympy.Symbol('v%d' % len(table)), t)
        return table[nm][0]
    if z3.is_app(t) and z3.is_int(t):
        k = t.decl().kind()
        if k in (z3.Z3_OP_ADD, z3.Z3_OP_MUL, z3.Z3_OP_SUB, z3.Z3_OP_UMINUS):
            ch = [_to_sympy(c, table) for c in t.children()]
            if any(c is None for c in ch):
                return None
        else:
            ch = []
        if k == z3.Z3_OP_ADD:
            return sum(ch[1:], ch[0])
        if k == z3.Z3_OP_MUL:
            r = ch[0]
            for c in ch[1:]:
                r = r * c
            return r
        if k == z3.Z3_OP_SUB:
            r = ch[0]
            for c in ch[1:]:
                r = r - c
            return r
        if k == z3.Z3_OP_UMINUS:
            return -ch[0]
    if z3.is_int(t):
        # any other Int-valued subterm (if-then-else, floor, div, ...) is an opaque atom of the polynomial
        nm = 'atom%d' % t.get_id()
        if nm not in table:
            table[nm] = (sympy.Symbol('v%d' % len(table)), t)
        return table[nm][0]
    return None


def _from_sympy(e, table):
    import sympy
    inv = {str(v[0]): v[1] for v in table.values()}
    e = sympy.expand(e)
    terms = []
    for mono, coeff in e.as_coefficients_dict().items():
        if coeff.q != 1:
            return None
        t = z3.IntVal(int(coeff))
        for base, power in mono.as_powers_dict().items():
            if base == 1:
                continue
            if str(base) not in inv or int(power) != power or power < 0:
                return None
            for _ in range(int(power)):
                t = t * inv[str(base)]
        terms.append(t)
    if not terms:
        return z3.IntVal(0)
    r = terms[0]
    for t in terms[1:]:
        r = r + t
    return r


def _poly_divmod(a, b):
    """Polynomial division of the Int terms a by b: (Q, R) as z3 terms with a == b*Q + R identically (else None)."""
    try:
        if z3.is_int_value(b) or not (z3.is_int(a) and z3.is_int(b)):
            return None
        import sympy
        table = {}
        pa, pb = _to_sympy(a, table), _to_sympy(b, table)
        if pa is None or pb is None or not table:
            return None
        syms = [v[0] for v in table.values()]
        qq, rr = sympy.div(sympy.Poly(sympy.expand(pa), *syms), sympy.Poly(sympy.expand(pb), *syms))
        if qq.is_zero:
            return None
        Q, R = _from_sympy(qq.as_expr(), table), _from_sympy(rr.as_expr(), table)
        if Q is None or R is None:
            return None
        return Q, R
    except Exception:
        return None


def py_floordiv_int(a, b):
    """Python floor division on z3 Int terms (b != 0 is the caller's obligation)."""
    if z3.is_int_value(b) and b.as_long() > 0:
        return a / b            # z3 Int div: floor for positive divisor
    return _divmod_fresh(a, b)[0]


def py_mod_int(a, b):
    if z3.is_int_value(b) and b.as_long() > 0:
        return a % b
    return _divmod_fresh(a, b)[1]


def _floor_term(t):
    """floor of a real z3 term as an Int term (fresh n with n <= t < n+1 when t is not linear-simple)."""
    key = ('floor', t.get_id())
    if key not in CTX.sqrt_terms:
        CTX.counter += 1
        n = z3.Int(f"fl!{CTX.counter}")
        CTX.side.append(z3.And(z3.ToReal(n) <= t, t < z3.ToReal(n) + 1))
        CTX.sqrt_terms[key] = n
    return CTX.sqrt_terms[key]


def _ival(x):
    if x.k == 'int':
        return x.t
    if x.k == 'bool':
        return x.as_int()
    return x.iv


def arith(a, b, op):
    if CTX.fp and (a.k == 'real' or b.k == 'real') and op in ('+', '-', '*', '/'):
        ia, ib = _ival(a), _ival(b)
        if ia is not None and ib is not None:
            # both operands are integer-valued floats/ints (< 2^53 by precondition): +,-,* are exact;
            # a quotient is exact iff it is an integer (representable), otherwise rounded
            if op in ('+', '-', '*'):
                iv = {'+': lambda: ia + ib, '-': lambda: ia - ib, '*': lambda: ia * ib}[op]()
                return Sym(z3.ToReal(iv), 'real', iv)
            q, r = _divmod_fresh(ia, ib)
            d = CTX.fresh('d')
            CTX.side.append(z3.And(d.t >= z3.RealVal(str(-U)), d.t <= z3.RealVal(str(U))))
            inexact = (z3.ToReal(ia) / z3.ToReal(ib)) * (1 + d.t)
            return Sym(z3.If(r == 0, z3.ToReal(q), inexact), 'real')
    if CTX.fp and op in ('*', '/') and (a.k == 'real' or b.k == 'real' or op == '/'):
        # accumulated relative error: value = ex*(1+delta) with ONE fresh delta bounded by a concrete eps
        exa = a.ex if a.ex is not None else a.as_real()
        exb = b.ex if b.ex is not None else b.as_real()
        ea = a.eps or Fraction(0)
        eb = b.eps or Fraction(0)
        if op == '*':
            ex = exa * exb
            eps = (1 + ea) * (1 + eb) * (1 + U) - 1
        else:
            ex = exa / exb
            eps = (1 + ea) * (1 + U) / (1 - eb) - 1
        d = CTX.fresh('d')
        CTX.side.append(z3.And(d.t >= z3.RealVal(str(-eps)), d.t <= z3.RealVal(str(eps))))
        return Sym(ex * (1 + d.t), 'real', None, ex, eps)
    if op in ('+', '-', '*'):
        ta, tb, k = _coerce(a, b)
        r = {'+': lambda: ta + tb, '-': lambda: ta - tb, '*': lambda: ta * tb}[op]()
        if k == 'real' and CTX.fp:
            r = _round_fp(r)
        return Sym(r, k)
    if op == '/':
        ta, tb = a.as_real(), b.as_real()
        r = ta / tb
        if CTX.fp:
            r = _round_fp(r)
        res = Sym(r, 'real')
        if not CTX.fp and b.k in ('int', 'bool'):
            # exact quotient of integers (real mode): remembered so that int()/floor()/ceil() stay in integer arithmetic
            if a.k in ('int', 'bool'):
                res.ratio = (a.as_int(), b.as_int())
            elif a.ratio is not None:
                res.ratio = (a.ratio[0], a.ratio[1] * b.as_int())
        return res
    if op in ('//', '%'):
        ta, tb, k = _coerce(a, b)
        if k == 'int':
            r = py_floordiv_int(ta, tb) if op == '//' else py_mod_int(ta, tb)
            return Sym(r, 'int')
        # real floor division: floor(a/b) as a real; remainder a - b*floor(a/b)
        q = z3.ToReal(_floor_term(ta / tb))
        if op == '//':
            return Sym(q, 'real')
        return Sym(ta - tb * q, 'real')
    raise ValueError(op)


def compare(a, b, op):
    if a.k == 'bool' and b.k == 'bool' and op in ('==', '!='):
        t = a.t == b.t
        return Sym(t if op == '==' else z3.Not(t), 'bool')
    ta, tb, _ = _coerce(a, b)
    t = {'<': lambda: ta < tb, '<=': lambda: ta <= tb, '>': lambda: ta > tb,
         '>=': lambda: ta >= tb, '==': lambda: ta == tb, '!=': lambda: ta != tb}[op]()
    return Sym(t, 'bool')


_SQRT = z3.Function('sqrt', z3.RealSort(), z3.RealSort())
_POW = z3.Function('powr', z3.RealSort(), z3.RealSort(), z3.RealSort())


def sqrt(x):
    """sqrt as an uninterpreted function with the axioms sqrt(x) >= 0, sqrt(x)^2 == x
    (x >= 0 is the caller's obligation).  Concrete perfect squares are evaluated."""
    if is_conc(x):
        q = _q(x)
        import math
        n, d = q.numerator, q.denominator
        if n >= 0 and math.isqrt(n) ** 2 == n and math.isqrt(d) ** 2 == d:
            return Fraction(math.isqrt(n), math.isqrt(d))
        x = Sym.lift(x)
    tx = x.as_real()
    key = tx.get_id()
    if key not in CTX.sqrt_terms:
        s = _SQRT(tx)
        CTX.side.append(z3.Implies(tx >= 0, z3.And(s >= 0, s * s == tx)))
        CTX.side.append(z3.Implies(tx > 0, s > 0))
        CTX.sqrt_terms[key] = s
    return Sym(CTX.sqrt_terms[key], 'real')


def power(a, b):
    if is_conc(a) and is_conc(b):
        r = _q(a) ** _q(b) if _q(b).denominator == 1 else None
        if r is not None:
            return int(r) if r.denominator == 1 and isinstance(a, int) and _q(b) >= 0 else r
    if is_conc(b):
        qb = _q(b)
        if qb.denominator == 1:
            n = int(qb)
            if n >= 0:
                r = 1
                for _ in range(n):
                    r = r * a
                return r
            return 1 / power(a, -n)
        if qb == Fraction(1, 2):
            return sqrt(a)
    a = Sym.lift(a) if not isinstance(a, Sym) else a
    b = Sym.lift(b) if not isinstance(b, Sym) else b
    return Sym(_POW(a.as_real(), b.as_real()), 'real')


# -- conversions with Python semantics ------------------------------------------------

def _ratio_floor(x):
    """floor(a/b) in integer arithmetic when x is the exact quotient a/b with b > 0 on this path (else None)."""
    if not isinstance(x, Sym) or x.ratio is None or CTX.sign_oracle is None:
        return None
    a, b = x.ratio
    if z3.is_int_value(b):
        if b.as_long() <= 0:
            return None
    elif CTX.sign_oracle(b) != 'pos':
        return None
    return _divmod_fresh(a, b)[0] if not z3.is_int_value(b) else a / b


def to_int(x):
    """int(x): truncation toward zero."""
    if is_conc(x):
        return int(_q(x)) if _q(x) >= 0 else -int(-_q(x))
    if x.k in ('int', 'bool'):
        return Sym(x.as_int(), 'int')
    if x.iv is not None:
        return Sym(x.iv, 'int')
    fr = _ratio_floor(x)
    if fr is not None and CTX.sign_oracle is not None and CTX.sign_oracle(x.ratio[0], True) == 'pos':
        return Sym(fr, 'int')           # non-negative quotient: truncation is the floor
    t = x.t
    return Sym(z3.If(t >= 0, _floor_term(t), -_floor_term(-t)), 'int')


def floor(x):
    if is_conc(x):
        import math
        return math.floor(_q(x))
    if x.k != 'real':
        return Sym(x.as_int(), 'int')
    fr = _ratio_floor(x)
    if fr is not None:
        return Sym(fr, 'int')
    return Sym(_floor_term(x.t), 'int')


def ceil(x):
    if is_conc(x):
        import math
        return math.ceil(_q(x))
    if x.k != 'real':
        return Sym(x.as_int(), 'int')
    if _ratio_floor(x) is not None:
        a, b = x.ratio
        return Sym(-_divmod_fresh(-a, b)[0], 'int')        # ceil(a/b) = -floor(-a/b), b > 0
    return Sym(-_floor_term(-x.t), 'int')


def round_half_even(x):
    """round(x) / np.round / np.around: round half to even, integer result (as int Sym)."""
    if is_conc(x):
        q = _q(x)
        import math
        f = math.floor(q)
        r = q - f
        if r > Fraction(1, 2) or (r == Fraction(1, 2) and f % 2 == 1):
            return f + 1
        return f
    if x.k != 'real':
        return Sym(x.as_int(), 'int')
    t = x.t
    f = _floor_term(t)
    r = t - z3.ToReal(f)
    half = z3.RealVal('1/2')
    up = z3.Or(r > half, z3.And(r == half, f % 2 == 1))
    return Sym(z3.If(up, f + 1, f), 'int')


def to_float(x):
    if is_conc(x):
        return _q(x) if not isinstance(x, float) else x
    if x.k == 'real':
        return x
    return Sym(x.as_real(), 'real', x.as_int())


def sym_if(c, a, b):
    """Conditional value; a and b scalars (Sym/concrete)."""
    if isinstance(c, bool):
        return a if c else b
    cc = c.concrete()
    if cc is not None:
        return a if cc else b
    if isinstance(a, SCplx) or isinstance(b, SCplx):
        a, b = SCplx.lift(a), SCplx.lift(b)
        return SCplx(sym_if(c, a.re, b.re), sym_if(c, a.im, b.im))
    if not isinstance(a, (Sym, int, float, bool, Fraction)) or not isinstance(b, (Sym, int, float, bool, Fraction)):
        from .heap import ref_if
        return ref_if(c, a, b)
    a, b = Sym.lift(a), Sym.lift(b)
    if a.k == 'bool' and b.k == 'bool':
        return Sym(z3.If(c.t, a.t, b.t), 'bool')
    ta, tb, k = _coerce(a, b)
    return Sym(z3.If(c.t, ta, tb), k)


def _order(a, b):
    """'le' if the path condition entails a <= b, 'ge' if it entails a >= b, else None (keeps terms small)."""
    if CTX.sign_oracle is None:
        return None
    d = Sym.lift(b) - a
    if not isinstance(d, Sym):
        return 'le' if d >= 0 else 'ge'
    if z3.is_app_of(d.t, z3.Z3_OP_ITE) and d.t.num_args() and False:
        return None
    sg = CTX.sign_oracle(d.t, True)
    return {'pos': 'le', 'neg': 'ge'}.get(sg)


def smin(a, b):
    if is_conc(a) and is_conc(b):
        return a if a <= b else b
    o = _order(a, b)
    if o == 'le':
        return a
    if o == 'ge':
        return b
    return sym_if(Sym.lift(b) < a, b, a)


def smax(a, b):
    if is_conc(a) and is_conc(b):
        return a if a >= b else b
    o = _order(a, b)
    if o == 'le':
        return b
    if o == 'ge':
        return a
    return sym_if(Sym.lift(b) > a, b, a)


def And(*xs):
    ts = []
    for x in xs:
        if isinstance(x, bool):
            if not x:
                return Sym(z3.BoolVal(False), 'bool')
            continue
        ts.append(x.t)
    return Sym(z3.And(*ts) if ts else z3.BoolVal(True), 'bool')


def Or(*xs):
    ts = []
    for x in xs:
        if isinstance(x, bool):
            if x:
                return Sym(z3.BoolVal(True), 'bool')
            continue
        ts.append(x.t)
    return Sym(z3.Or(*ts) if ts else z3.BoolVal(False), 'bool')


def Not(x):
    if isinstance(x, bool):
        return not x
    return Sym(z3.Not(x.t), 'bool')


def Implies(a, b):
    return Or(Not(a), b)


def to_bool(x):
    """Python truthiness of a scalar as Sym bool / bool."""
    if isinstance(x, bool):
        return x
    if is_conc(x):
        return x != 0
    if isinstance(x, Sym):
        if x.k == 'bool':
            return x
        return x != 0
    raise TypeError(x)


def eq(a, b):
    """Structural symbolic equality of scalar values -> Sym bool / bool."""
    if isinstance(a, SCplx) or isinstance(b, SCplx):
        a, b = SCplx.lift(a), SCplx.lift(b)
        return And(eq(a.re, b.re), eq(a.im, b.im))
    if is_conc(a) and is_conc(b):
        return _q(a) == _q(b)
    r = Sym.lift(a) == b
    return r


class SCplx:
    """Complex scalar as a pair of real-valued scalars."""
    __slots__ = ('re', 'im')

    def __init__(self, re, im):
        self.re = re
        self.im = im

    @staticmethod
    def lift(x):
        if isinstance(x, SCplx):
            return x
        if isinstance(x, complex):
            return SCplx(x.real, x.imag)
        return SCplx(x, 0)

    def __repr__(self):
        return f"SCplx({self.re}, {self.im})"

    def __add__(self, o):
        o = SCplx.lift(o)
        return SCplx(self.re + o.re, self.im + o.im)
    __radd__ = __add__

    def __sub__(self, o):
        o = SCplx.lift(o)
        return SCplx(self.re - o.re, self.im - o.im)

    def __rsub__(self, o):
        return SCplx.lift(o) - self

    def __mul__(self, o):
        o = SCplx.lift(o)
        if is_conc(o.im) and o.im == 0:
            return SCplx(self.re * o.re, self.im * o.re)
        if is_conc(self.im) and self.im == 0:
            return SCplx(self.re * o.re, self.re * o.im)
        if is_conc(o.re) and o.re == 0 and is_conc(self.im) and self.im == 0:
            return SCplx(0, self.re * o.im)
        return SCplx(self.re * o.re - self.im * o.im, self.re * o.im + self.im * o.re)
    __rmul__ = __mul__

    def __truediv__(self, o):
        if isinstance(o, SCplx):
            if is_conc(o.im) and o.im == 0:
                o = o.re
            else:
                raise NotImplementedError("complex / complex")
        return SCplx(self.re / o, self.im / o)

    def __neg__(self):
        return SCplx(-self.re, -self.im)


_SYM_CACHE = {}


def term_syms(t, want_pure=False):
    """Names of the uninterpreted constants/functions occurring in a z3 term (and, with want_pure, whether the
    term is pure nonlinear real arithmetic: no Int-sorted subterm, no uninterpreted function application)."""
    key = t.get_id()
    hit = _SYM_CACHE.get(key)
    if hit is not None and hit[0].eq(t):     # ids are only unique among live terms: keep the term alive
        return (hit[1], hit[2]) if want_pure else hit[1]
    out = set()
    pure = True
    seen = set()
    stack = [t]
    while stack:
        x = stack.pop()
        i = x.get_id()
        if i in seen:
            continue
        seen.add(i)
        if z3.is_app(x):
            d = x.decl()
            if d.kind() == z3.Z3_OP_UNINTERPRETED:
                out.add(d.name())
                if d.arity() > 0:
                    pure = False
            if pure and z3.is_int(x):
                pure = False
            stack.extend(x.children())
        elif z3.is_quantifier(x):
            pure = False
            stack.append(x.body())
    if len(_SYM_CACHE) > 100000:
        _SYM_CACHE.clear()
    _SYM_CACHE[key] = (t, out, pure)
    return (out, pure) if want_pure else out
