"""Library specifications: axiomatic models of the builtins / numpy / astropy entry points the
repository code uses.  Every entry here is part of the trusted base (listed in evidence)."""
import z3
from fractions import Fraction
from .sym import (Sym, SCplx, CTX, is_conc, sym_if, And, Or, Not, Implies, to_int, to_bool, eq, power,
                  round_half_even, smin, smax, floor as s_floor, ceil as s_ceil, sqrt as s_sqrt,
                  to_float, _q, SymbolicBranch)
from . import arr as A
from .arr import SArr, PyRaise, Unsupported, conc_int

LIB = {}
LIBATTR = {}


def lib(name):
    def deco(f):
        LIB[name] = f
        return f
    return deco


def libattr(tag, name):
    def deco(f):
        LIBATTR[(tag, name)] = f
        return f
    return deco


def _I():
    from . import interp
    return interp


# =====================================================================================
# operators

def _scalar_binop(op, a, b):
    if isinstance(a, (SCplx, complex)) or isinstance(b, (SCplx, complex)):
        a, b = SCplx.lift(a), SCplx.lift(b)
        if op == 'Add':
            return a + b
        if op == 'Sub':
            return a - b
        if op == 'Mult':
            return a * b
        if op == 'Div':
            return a / b
        raise Unsupported(f"complex op {op}")
    if is_conc(a) and is_conc(b):
        # concrete arithmetic in exact rationals (floats as decimals)
        if op == 'Div':
            if _q(b) == 0:
                raise PyRaise('ZeroDivisionError', 'division by zero')
            r = _q(a) / _q(b)
            return r
        exact_int = isinstance(a, int) and isinstance(b, int)
        if op == 'Add':
            return a + b if exact_int else _q(a) + _q(b)
        if op == 'Sub':
            return a - b if exact_int else _q(a) - _q(b)
        if op == 'Mult':
            return a * b if exact_int else _q(a) * _q(b)
        if op == 'FloorDiv':
            if _q(b) == 0:
                raise PyRaise('ZeroDivisionError', 'division by zero')
            return a // b if exact_int else Fraction((_q(a) / _q(b)).__floor__())
        if op == 'Mod':
            if _q(b) == 0:
                raise PyRaise('ZeroDivisionError', 'modulo by zero')
            return a % b if exact_int else _q(a) - _q(b) * ((_q(a) / _q(b)).__floor__())
        if op == 'Pow':
            return power(a, b)
        if op == 'LShift':
            return a << b
        if op == 'RShift':
            return a >> b
        if op == 'BitAnd':
            return a & b
        if op == 'BitOr':
            return a | b
        raise Unsupported(f"op {op}")
    if op == 'Pow':
        return power(a, b)
    sa = a if isinstance(a, Sym) else Sym.lift(a)
    if op in ('Div', 'FloorDiv', 'Mod') and _I().type_tag(a) in ('int', 'bool') and _I().type_tag(b) in ('int', 'bool'):
        # int/int division by zero is an exception path.  With a float operand the value may be a numpy float64,
        # for which division by zero yields inf/nan and a warning, not an exception: no exception path is modelled
        # (the quotient is then an unconstrained value), so a check never reports an exception numpy would not raise.
        interp = _I().current_interp()
        bz = eq(b, 0)
        if not (bz is False):
            if interp.branch(bz):
                raise PyRaise('ZeroDivisionError', 'division by zero')
    if CTX.fp and is_conc(b) and not isinstance(b, int) and op in ('Mult', 'Div', 'Add', 'Sub'):
        pass
    if op == 'Add':
        return sa + b
    if op == 'Sub':
        return sa - b
    if op == 'Mult':
        return sa * b
    if op == 'Div':
        return sa / b
    if op == 'FloorDiv':
        return sa // b
    if op == 'Mod':
        return sa % b
    if op in ('BitOr', 'BitAnd', 'BitXor'):
        tags = (_I().type_tag(a), _I().type_tag(b))
        if all(t == 'bool' for t in tags):
            x, y = to_bool(a) if not isinstance(a, bool) else Sym.lift(a), to_bool(b) if not isinstance(b, bool) else Sym.lift(b)
            if op == 'BitOr':
                return Or(x, y)
            if op == 'BitAnd':
                return And(x, y)
            return Or(And(x, Not(y)), And(Not(x), y))
    raise Unsupported(f"symbolic op {op}")


@lib('builtins.__binop__')
def _binop(interp, op, a, b, inplace=False):
    I = _I()
    # numpy arrays
    if isinstance(a, SArr) or isinstance(b, SArr):
        if isinstance(a, (list, tuple)):
            a = A.from_list(list(a))
        if isinstance(b, (list, tuple)):
            b = A.from_list(list(b))
        sym = {'Add': '+', 'Sub': '-', 'Mult': '*', 'Div': '/', 'FloorDiv': '//', 'Mod': '%', 'Pow': '**'}.get(op, op)
        if inplace and isinstance(a, SArr):
            bs = b
            if isinstance(b, SArr):
                bs = SArr(b.shape, b._snapshot(), b.dtype)
            old = SArr(a.shape, a._snapshot(), a.dtype)
            res = A.elementwise2(old, bs, lambda x, y: _scalar_binop(op, x, y), sym)
            # shape of result must equal a's shape (numpy raises otherwise)
            if len(res.shape) != len(a.shape):
                raise PyRaise('ValueError', 'non-broadcastable output operand')
            for da, dr in zip(a.shape, res.shape):
                same = eq(da, dr)
                if same is True:
                    continue
                if not interp.branch(same):
                    raise PyRaise('ValueError', 'non-broadcastable output operand')
            if res.dtype == 'complex' and a.dtype != 'complex':
                raise PyRaise('TypeError', 'Cannot cast ufunc output from complex to float (UFuncTypeError)')
            if a.base is not None:
                # write through the view into its base
                root = a.base
                vm = a.vmap
                _write_through_view(interp, a, res)
            else:
                a.set_fn(res._fn)
            return a
        res = A.elementwise2(a, b, lambda x, y: _scalar_binop(op, x, y), sym)
        # index arrays stay affine under scalar shifts/scalings (needed to invert scatters through them)
        arr_, sc_ = (a, b) if isinstance(a, SArr) else (b, a)
        if isinstance(arr_, SArr) and not isinstance(sc_, SArr) and arr_.affine is not None and arr_.ndim == 1 and _I().type_tag(sc_) in ('int', 'bool'):
            st, sp = arr_.affine
            if op == 'Add':
                res.affine = (st + sc_, sp)
            elif op == 'Sub' and arr_ is a:
                res.affine = (st - sc_, sp)
            elif op == 'Mult':
                res.affine = (st * sc_, sp * sc_)
        return res
    # sequences
    if op == 'Add' and isinstance(a, (list, tuple, str)) and type(a) == type(b):
        if inplace and isinstance(a, list):
            a.extend(b)
            return a
        return a + b
    if op == 'Mult' and isinstance(a, (list, tuple, str)):
        c = conc_int(b)
        if c is None:
            raise Unsupported("sequence * symbolic")
        return a * c
    if op == 'Mult' and isinstance(b, (list, tuple, str)):
        c = conc_int(a)
        if c is None:
            raise Unsupported("sequence * symbolic")
        return b * c
    if op == 'Mod' and isinstance(a, str):
        raise Unsupported("%-formatting")
    # user objects with operator hooks (Quantity, paths)
    for x in (a, b):
        h = getattr(x, 'binop_hook', None)
        if h is not None:
            return h(interp, op, a, b)
    if isinstance(a, I.SObj) or isinstance(b, I.SObj):
        raise Unsupported(f"operator {op} on objects")
    if a is None or b is None:
        raise PyRaise('TypeError', f"unsupported operand type(s) for {op}: {I.type_tag(a)} and {I.type_tag(b)}")
    if isinstance(a, (str, I.SStr)) or isinstance(b, (str, I.SStr)):
        if op == 'Add' and isinstance(a, (str, I.SStr)) and isinstance(b, (str, I.SStr)):
            la = a.length if isinstance(a, I.SStr) else len(a)
            lb = b.length if isinstance(b, I.SStr) else len(b)
            return I.SStr(la + lb, None, tag=('concat', [a, b]))
        raise PyRaise('TypeError', 'unsupported operand types for str')
    return _scalar_binop(op, a, b)


def _write_through_view(interp, view, res):
    root = view.base
    if getattr(view, 'inv_vmap', None) is None:
        raise Unsupported("in-place operation on a view without inverse map")
    inv = view.inv_vmap
    snap = res

    def inreg(bidx):
        c, _ = inv(bidx)
        return c

    def newval(bidx):
        _, o = inv(bidx)
        return snap.at(o)
    root.write_region(inreg, newval)


def _scalar_compare(op, a, b):
    if op in ('Is', 'IsNot'):
        r = (a is b) if not (is_conc(a) and is_conc(b)) else (a is b or (type(a) == type(b) and a == b and isinstance(a, (int, bool))))
        return r if op == 'Is' else not r
    sym = {'Lt': '<', 'LtE': '<=', 'Gt': '>', 'GtE': '>=', 'Eq': '==', 'NotEq': '!='}[op]
    if isinstance(a, (SCplx, complex)) or isinstance(b, (SCplx, complex)):
        if sym == '==':
            return eq(a, b)
        if sym == '!=':
            return Not(eq(a, b))
        raise PyRaise('TypeError', 'complex ordering')
    if is_conc(a) and is_conc(b):
        qa, qb = _q(a), _q(b)
        return {'<': qa < qb, '<=': qa <= qb, '>': qa > qb, '>=': qa >= qb, '==': qa == qb, '!=': qa != qb}[sym]
    sa = a if isinstance(a, Sym) else Sym.lift(a)
    return {'<': lambda: sa < b, '<=': lambda: sa <= b, '>': lambda: sa > b, '>=': lambda: sa >= b,
            '==': lambda: sa == b, '!=': lambda: sa != b}[sym]()


def _is_num(x):
    return is_conc(x) or isinstance(x, (Sym, SCplx, complex))


@lib('builtins.__compare__')
def _compare(interp, op, a, b):
    I = _I()
    if op in ('In', 'NotIn'):
        r = _contains(interp, b, a)
        return r if op == 'In' else (Not(r) if isinstance(r, Sym) else (not r))
    if op in ('Is', 'IsNot') and isinstance(a, I.ObjRef) and isinstance(b, I.ObjRef):
        r = eq(a.ref_id, b.ref_id)
        return r if op == 'Is' else (Not(r) if isinstance(r, Sym) else (not r))
    if op in ('Is', 'IsNot'):
        if a is None or b is None or isinstance(a, (I.SObj, SArr, list, dict, I.ObjRef, I.SList)) or isinstance(b, (I.SObj, SArr, list, dict, I.ObjRef, I.SList)):
            r = a is b
            return r if op == 'Is' else not r
        return _scalar_compare(op, a, b)
    if isinstance(a, SArr) or isinstance(b, SArr):
        if (a is None or b is None):
            return op == 'NotEq'
        if isinstance(a, (tuple, list)) or isinstance(b, (tuple, list)):
            raise Unsupported("array compared with sequence")
        return A.elementwise2(a, b, lambda x, y: _scalar_compare(op, x, y), '==')
    if _is_num(a) and _is_num(b):
        return _scalar_compare(op, a, b)
    if op in ('Eq', 'NotEq'):
        r = _generic_eq(interp, a, b)
        return r if op == 'Eq' else (Not(r) if isinstance(r, Sym) else (not r))
    if isinstance(a, (tuple, list)) and isinstance(b, (tuple, list)):
        raise Unsupported("ordering of sequences")
    if isinstance(a, str) and isinstance(b, str):
        return {'Lt': a < b, 'LtE': a <= b, 'Gt': a > b, 'GtE': a >= b}[op]
    for x in (a, b):
        h = getattr(x, 'compare_hook', None)
        if h is not None:
            return h(interp, op, a, b)
    raise PyRaise('TypeError', f"'{op}' not supported between {I.type_tag(a)} and {I.type_tag(b)}")


def _generic_eq(interp, a, b):
    I = _I()
    if a is None or b is None:
        return a is b
    if isinstance(a, (I.SStr, I.SChar)) or isinstance(b, (I.SStr, I.SChar)):
        h = (a if isinstance(a, (I.SStr, I.SChar)) else b).compare_hook
        return h(interp, 'Eq', a, b)
    if _is_num(a) and _is_num(b):
        return _scalar_compare('Eq', a, b)
    if isinstance(a, str) and isinstance(b, str):
        return a == b
    if isinstance(a, bytes) and isinstance(b, bytes):
        return a == b
    if isinstance(a, (tuple, list)) and isinstance(b, (tuple, list)) and type(a) == type(b):
        if len(a) != len(b):
            return False
        return And(*[_generic_eq(interp, x, y) for x, y in zip(a, b)])
    if isinstance(a, (I.SStr, str)) and isinstance(b, (I.SStr, str)):
        h = getattr(interp, 'str_eq', None)
        if h is not None:
            return h(a, b)
        raise Unsupported("symbolic string equality")
    for x in (a, b):
        h = getattr(x, 'compare_hook', None)
        if h is not None:
            return h(interp, 'Eq', a, b)
    if type(a) != type(b):
        return False
    if isinstance(a, dict):
        if set(a) != set(b):
            return False
        return And(*[_generic_eq(interp, a[k], b[k]) for k in a])
    return a is b


def _contains(interp, container, item):
    I = _I()
    if isinstance(container, dict):
        return interp.dict_key(item) in container
    if isinstance(container, (list, tuple)):
        rs = []
        for x in container:
            r = _generic_eq(interp, x, item)
            if r is True:
                return True
            if r is False:
                continue
            rs.append(r)
        return Or(*rs) if rs else False
    if isinstance(container, str):
        if isinstance(item, str):
            return item in container
        raise Unsupported("symbolic substring test")
    if isinstance(container, bytes) and isinstance(item, bytes):
        return item in container
    h = getattr(container, 'contains_hook', None)
    if h is not None:
        return h(interp, item)
    raise Unsupported(f"'in' on {I.type_tag(container)}")


# =====================================================================================
# builtins

@lib('builtins.len')
def _len(interp, x):
    I = _I()
    if isinstance(x, (list, tuple, str, dict, bytes)):
        return len(x)
    if isinstance(x, SArr):
        return x.length()
    if isinstance(x, (I.SStr, I.LazySeq)):
        return x.length
    if isinstance(x, I.SObj) and x.cls and interp.find_method(x.cls, '__len__'):
        return interp.call(interp.getattr(x, '__len__'), [], {})
    if hasattr(x, 'length'):
        return x.length
    raise PyRaise('TypeError', f"object of type '{I.type_tag(x)}' has no len()")


@lib('builtins.abs')
def _abs(interp, x):
    if isinstance(x, SArr):
        return A.elementwise1(x, _sabs, 'real' if x.dtype == 'complex' else x.dtype)
    h = getattr(x, 'abs_hook', None)
    if h is not None:
        return h(interp)
    return _sabs(x)


def _sabs(x):
    if isinstance(x, SCplx):
        m2 = x.re * x.re + x.im * x.im
        if isinstance(m2, Sym):
            CTX.side.append((m2 >= 0).t)          # a sum of two squares is non-negative
        return s_sqrt(m2)
    if is_conc(x):
        return abs(x) if isinstance(x, int) else abs(_q(x))
    return abs(x)


def _flat_args(interp, args):
    if len(args) == 1 and isinstance(args[0], (list, tuple)):
        return list(args[0])
    if len(args) == 1 and isinstance(args[0], SArr):
        seq = interp.concrete_iter(args[0])
        if seq is None:
            raise Unsupported("min/max over symbolic-length array")
        return seq
    if len(args) == 1:
        seq = interp.concrete_iter(args[0])
        if seq is not None:
            return seq
    return list(args)


@lib('builtins.min')
def _min(interp, *args, **kw):
    xs = _flat_args(interp, args)
    if not xs:
        raise PyRaise('ValueError', 'min() arg is an empty sequence')
    r = xs[0]
    for x in xs[1:]:
        r = smin(r, x)      # python: first minimal element; value-equal
    return r


@lib('builtins.max')
def _max(interp, *args, **kw):
    xs = _flat_args(interp, args)
    if not xs:
        raise PyRaise('ValueError', 'max() arg is an empty sequence')
    r = xs[0]
    for x in xs[1:]:
        r = smax(r, x)
    return r


@lib('builtins.sum')
def _sum(interp, xs, start=0):
    seq = interp.concrete_iter(xs)
    if seq is None:
        I = _I()
        if isinstance(xs, I.LazySeq):
            return sum_term(xs.length, xs.at) + start
        raise Unsupported("sum over symbolic sequence")
    r = start
    for x in seq:
        r = interp.binop('Add', r, x)
    return r


@lib('builtins.range')
def _range(interp, *args):
    I = _I()
    if len(args) == 1:
        return I.RangeValue(0, args[0], 1)
    if len(args) == 2:
        return I.RangeValue(args[0], args[1], 1)
    return I.RangeValue(*args)


@lib('builtins.enumerate')
def _enumerate(interp, xs, start=0):
    return _I().EnumerateValue(xs, start)


@lib('builtins.zip')
def _zip(interp, *xs):
    return _I().ZipValue(list(xs))


@lib('builtins.reversed')
def _reversed(interp, xs):
    seq = interp.concrete_iter(xs)
    if seq is None:
        raise Unsupported("reversed of symbolic sequence")
    return list(reversed(seq))


@lib('builtins.print')
def _print(interp, *a, **k):
    interp.dropped.add('print')
    return None


@lib('builtins.id')
def _id(interp, x):
    return id(x)


@lib('builtins.repr')
def _repr(interp, x):
    if isinstance(x, str):
        return repr(x)
    return _I().SStr(CTX.fresh('replen', 'int'), None, tag=('repr', x))


@lib('builtins.callable')
def _callable(interp, x):
    I = _I()
    return isinstance(x, (I.Closure, I.BoundMethod, I.SFunc, I.LibRef, I.ClassRef)) or (callable(x) and not isinstance(x, (Sym, SArr)))


def _type_matches(interp, v, t):
    I = _I()
    if isinstance(t, tuple):
        return any(_type_matches(interp, v, x) for x in t)
    tag = I.type_tag(v)
    if isinstance(t, I.BuiltinType):
        if t.name == 'object':
            return True
        if t.name == 'int':
            return tag in ('int', 'bool') and not getattr(v, 'np_scalar', False)
        if t.name == 'float':
            return tag == 'float'
        if t.name == 'list':
            return tag == 'list' and not isinstance(v, I.LazySeq) or isinstance(v, I.LazySeq)
        return tag == t.name
    if isinstance(t, I.ClassRef):
        if isinstance(v, I.ObjRef):
            if '__isinstance__' in v.heap.kinds:
                # class membership of an arbitrary reference is symbolic (any object may be offered)
                return And(v.heap.read('__isinstance__', v.ref_id), interp.is_subclass(v.cls, t.cls) if v.cls is not None else False)
            return v.cls is not None and interp.is_subclass(v.cls, t.cls)
        return isinstance(v, I.SObj) and v.cls is not None and interp.is_subclass(v.cls, t.cls)
    if isinstance(t, I.LibRef):
        if t.path in ('numpy.ndarray',):
            return isinstance(v, SArr)
        lt = getattr(v, 'lib_type', None)
        if lt is not None:
            return t.path in lt
        return False
    if isinstance(t, I.ExcType):
        return isinstance(v, I.ExcValue) and I.exc_isinstance(v.name, t.name)
    raise Unsupported(f"isinstance against {t!r}")


@lib('builtins.isinstance')
def _isinstance(interp, v, t):
    return _type_matches(interp, v, t)


@lib('builtins.type')
def _type(interp, v):
    I = _I()
    if isinstance(v, I.SObj) and v.cls:
        return I.ClassRef(v.cls)
    return I.BuiltinType(I.type_tag(v))


@lib('builtins.getattr')
def _getattr(interp, obj, name, *default):
    try:
        return interp.getattr(obj, name)
    except PyRaise as e:
        if e.exc_type == 'AttributeError' and default:
            return default[0]
        raise


@lib('builtins.setattr')
def _setattr(interp, obj, name, value):
    h = getattr(obj, 'setattr_hook', None)
    if h is not None:
        return h(interp, name, value)
    interp.setattr(obj, name, value)


@lib('builtins.hasattr')
def _hasattr(interp, obj, name):
    try:
        interp.getattr(obj, name)
        return True
    except PyRaise as e:
        if e.exc_type == 'AttributeError':
            return False
        raise


@lib('builtins.vars')
def _vars(interp, obj):
    return obj.fields


@lib('builtins.int')
def _int(interp, x=0, base=None):
    I = _I()
    if isinstance(x, str):
        try:
            return int(x.strip(), base) if base else int(x.strip())
        except ValueError:
            raise PyRaise('ValueError', f"invalid literal for int(): {x!r}")
    if isinstance(x, I.SStr):
        h = getattr(interp, 'str_to_int', None)
        if h is not None:
            return h(x)
        raise Unsupported("int() of symbolic string")
    if isinstance(x, SArr):
        if x.ndim == 0 or all(conc_int(d) == 1 for d in x.shape):
            return to_int(x.at(tuple(0 for _ in x.shape)))
        raise PyRaise('TypeError', 'only length-1 arrays can be converted to Python scalars')
    if x is None:
        raise PyRaise('TypeError', "int() argument must be a string or a number, not 'NoneType'")
    if isinstance(x, (list, tuple, dict)):
        raise PyRaise('TypeError', 'int() argument must be a string or a number')
    h = getattr(x, 'int_hook', None)
    if h is not None:
        return h(interp)
    return to_int(x)


@lib('builtins.float')
def _float(interp, x=0):
    I = _I()
    if isinstance(x, str):
        try:
            return Fraction(x.strip())
        except ValueError:
            raise PyRaise('ValueError', f"could not convert string to float: {x!r}")
    if isinstance(x, I.SStr):
        h = getattr(interp, 'str_to_float', None)
        if h is not None:
            return h(x)
        raise Unsupported("float() of symbolic string")
    if isinstance(x, SArr) and x.ndim == 0:
        return to_float(x.at(()))
    if hasattr(x, 'int_hook'):
        return to_float(x.int_hook(interp))
    return to_float(x)


@lib('builtins.bool')
def _bool(interp, x=False):
    return interp.truth(x)


@lib('builtins.str')
def _str(interp, x=''):
    if isinstance(x, str):
        return x
    return _format(interp, x, None, -1)


@lib('builtins.list')
def _list(interp, x=()):
    I = _I()
    if isinstance(x, I.LazySeq):
        return x
    if isinstance(x, I.SList):
        return x.snapshot()
    seq = interp.concrete_iter(x)
    if seq is None:
        if hasattr(x, 'to_list'):
            return x.to_list(interp)
        raise Unsupported("list() of symbolic-length iterable")
    return list(seq)


@lib('builtins.tuple')
def _tuple(interp, x=()):
    seq = interp.concrete_iter(x)
    if seq is None:
        raise Unsupported("tuple() of symbolic-length iterable")
    return tuple(seq)


@lib('builtins.dict')
def _dict(interp, x=None, **kw):
    d = {}
    if x is not None:
        if isinstance(x, dict):
            d.update(x)
        else:
            for k, v in interp.concrete_iter(x):
                d[interp.dict_key(k)] = v
    d.update(kw)
    return d


@lib('builtins.bytearray')
def _bytearray(interp, n=0):
    return ByteBlob(n, 'zeros')


class ByteBlob:
    """Opaque run of bytes with (possibly symbolic) length."""
    type_tag = 'bytes'

    def __init__(self, length, kind, payload=None):
        self.length = length
        self.kind = kind
        self.payload = payload


@lib('builtins.round')
def _round(interp, x, nd=None):
    if nd is not None:
        # round(x, n) for a literal n: decimal rounding over the reals, round_half_even(x * 10**n) / 10**n (float representation error of the
        # result is outside the model, as everywhere in real mode)
        if not isinstance(nd, int) or isinstance(nd, bool):
            raise Unsupported("round with symbolic ndigits")
        if nd >= 0:
            r = round_half_even(x * 10 ** nd)
            if isinstance(r, int):
                return Fraction(r, 10 ** nd)
            return Sym(r.as_real(), 'real') / 10 ** nd
        return round_half_even(x / 10 ** (-nd)) * 10 ** (-nd)
    return round_half_even(x)


@lib('builtins.filter')
def _filter(interp, f, xs):
    seq = interp.concrete_iter(xs)
    if seq is None:
        raise Unsupported("filter over symbolic sequence")
    out = []
    for x in seq:
        if interp.branch(interp.truth(interp.call(f, [x], {}))):
            out.append(x)
    return out


@lib('builtins.sorted')
def _sorted(interp, xs, key=None, reverse=False):
    h = getattr(xs, 'sorted_hook', None)
    if h is not None:
        return h(interp)
    seq = interp.concrete_iter(xs)
    if seq is None:
        raise Unsupported("sorted of symbolic sequence")
    if key is None and all(isinstance(x, (str, int)) for x in seq):
        return sorted(seq, reverse=bool(reverse))
    if len(seq) > 4:
        raise Unsupported("sorted of more than 4 symbolic keys")
    # stable insertion sort on the (possibly symbolic) keys: every comparison is a branch, so each consistent ordering is one path
    keyed = [(interp.call(key, [x], {}) if key is not None else x, x) for x in seq]
    out = []
    for kv, x in keyed:
        pos = len(out)
        while pos > 0:
            prev = out[pos - 1][0]
            c = (prev > kv) if isinstance(prev, (int, float, str)) and isinstance(kv, (int, float, str)) else Sym.lift(prev) > kv
            if (c if isinstance(c, bool) else interp.branch(c)):
                pos -= 1
            else:
                break
        out.insert(pos, (kv, x))
    res = [x for _, x in out]
    return res[::-1] if reverse else res


@lib('builtins.any')
def _any(interp, xs):
    seq = interp.concrete_iter(xs)
    return Or(*[interp.truth(x) for x in seq])


@lib('builtins.all')
def _all(interp, xs):
    seq = interp.concrete_iter(xs)
    return And(*[interp.truth(x) for x in seq])


@lib('builtins.__format__')
def _format(interp, val, spec, conversion=-1):
    """f-string formatting.  Concrete values format concretely; symbolic ones yield an SStr whose
    length follows the width/alignment rule len(f"{s:<w}") = max(w, len(s))."""
    I = _I()
    if spec is None:
        spec = ''
    if isinstance(spec, I.SStr):
        raise Unsupported("symbolic format spec")
    if conversion == ord('r'):
        val = _repr(interp, val)
    if isinstance(val, str) or (is_conc(val) and not isinstance(val, Fraction)) or val is None:
        try:
            return format(val, spec)
        except (ValueError, TypeError) as e:
            raise PyRaise(type(e).__name__, str(e))
    if isinstance(val, Fraction):
        try:
            return format(float(val), spec)
        except (ValueError, TypeError) as e:
            raise PyRaise(type(e).__name__, str(e))
    h = getattr(interp, 'format_hook', None)
    if h is not None:
        return h(val, spec)
    # rendering of a symbolic value: len(format(s, '[fill][<>^][width]')) = max(width, len(rendering))
    import re as _re
    m = _re.fullmatch(r'(?:(.)?([<>^=]))?(0?\d+)?(?:\.(\d+))?([a-zA-Z%])?', spec)
    width = int(m.group(3)) if m and m.group(3) else 0
    if isinstance(val, I.SStr):
        base_len = val.length
        src = val
    else:
        base_len = render_length(interp, val, spec)
        src = None
    if width == 0:
        total = base_len
    else:
        total = smax(width, base_len)
    r = I.SStr(total, None, tag=('format', val, spec))
    if src is not None:
        r.formatted_from = src
    return r


def render_length(interp, val, spec=''):
    """len(format(number, spec)) as a symbol (>= 1), one per (value term, spec); contracts may constrain it."""
    table = interp.__dict__.setdefault('render_lengths', {})
    key = (val.t.get_id() if isinstance(val, Sym) else id(val), spec if any(c in spec for c in 'eEfFgG.') else '')
    if key not in table:
        n = CTX.fresh('renderlen', 'int')
        CTX.side.append((n >= 1).t)
        table[key] = (val, n)
    return table[key][1]


@lib('builtins.open')
def _open(interp, path, mode='r', *a, **k):
    h = getattr(interp, 'open_hook', None)
    if h is None:
        raise Unsupported("open() without a file model")
    return h(path, mode)


@lib('builtins.iter')
def _iter(interp, x):
    return x


# =====================================================================================
# list / dict / str methods

def _method(tag, name):
    def deco(f):
        LIBATTR[(tag, name)] = lambda interp, obj: (lambda interp2, *a, **k: f(interp2, obj, *a, **k))
        return f
    return deco


@_method('list', 'append')
def _l_append(interp, lst, x):
    if isinstance(lst, _I().SList):
        return lst.append(interp, x)
    if not isinstance(lst, list):
        raise Unsupported("append on lazy sequence")
    lst.append(x)


@_method('list', 'extend')
def _l_extend(interp, lst, xs):
    seq = interp.concrete_iter(xs)
    if seq is None:
        raise Unsupported("extend with symbolic sequence")
    lst.extend(seq)


@_method('list', 'insert')
def _l_insert(interp, lst, i, x):
    if isinstance(lst, _I().SList):
        return lst.insert(interp, i, x)
    ci = conc_int(i)
    if ci is None:
        # python clamps: position = clamp(i if i>=0 else len+i, 0, len)
        n = len(lst)
        for j in range(-n, n + 1):
            if interp.branch(eq(i, j)):
                lst.insert(j, x)
                return
        if interp.branch(Sym.lift(i) < 0):
            lst.insert(0, x)
        else:
            lst.append(x)
        return
    lst.insert(ci, x)


@_method('list', 'pop')
def _l_pop(interp, lst, i=-1):
    if isinstance(lst, _I().SList):
        return lst.pop(interp, i)
    ci = conc_int(i)
    if ci is None:
        raise Unsupported("symbolic pop index")
    try:
        return lst.pop(ci)
    except IndexError:
        raise PyRaise('IndexError', 'pop index out of range')


@_method('list', 'copy')
def _l_copy(interp, lst):
    return list(lst)


@_method('list', 'index')
def _l_index(interp, lst, x):
    for i, y in enumerate(lst):
        if interp.branch(_generic_eq(interp, y, x)):
            return i
    raise PyRaise('ValueError', 'not in list')


@_method('list', 'reverse')
def _l_reverse(interp, lst):
    lst.reverse()


@_method('dict', 'get')
def _d_get(interp, d, k, default=None):
    return d.get(interp.dict_key(k), default)


@_method('dict', 'items')
def _d_items(interp, d):
    return _I().DictItems(d)


@_method('dict', 'keys')
def _d_keys(interp, d):
    return list(d.keys())


@_method('dict', 'values')
def _d_values(interp, d):
    return list(d.values())


@_method('dict', 'update')
def _d_update(interp, d, other=None, **kw):
    if isinstance(d, _I().DictRef):
        return d.update(interp, other)
    if other is not None:
        if isinstance(other, dict):
            d.update(other)
        else:
            for k, v in interp.concrete_iter(other):
                d[interp.dict_key(k)] = v
    d.update(kw)


@_method('dict', 'copy')
def _d_copy(interp, d):
    return dict(d)


@_method('dict', 'pop')
def _d_pop(interp, d, k, *default):
    k = interp.dict_key(k)
    if k in d:
        return d.pop(k)
    if default:
        return default[0]
    raise PyRaise('KeyError', repr(k))


@_method('dict', 'setdefault')
def _d_setdefault(interp, d, k, v=None):
    return d.setdefault(interp.dict_key(k), v)


def _sstr_encode(interp, s):
    def f(interp2, *a, **k):
        r = _I().SStr(s.length, None, tag=('encode', s), is_bytes=True)
        r.encoded_from = s
        return r
    return f


def _sstr_strip(interp, s):
    def f(interp2, *a, **k):
        n = CTX.fresh('striplen', 'int')
        CTX.side.append(And(n >= 0, n <= s.length).t)
        return _I().SStr(n, None, tag=('strip', s))
    return f


for _name in ['strip', 'lstrip', 'rstrip', 'upper', 'lower', 'split', 'encode', 'replace', 'format',
              'startswith', 'endswith', 'join', 'decode', 'ljust', 'rjust']:
    def _mk(name):
        def f(interp, s, *a, **k):
            if all(isinstance(x, (str, int, bytes)) or x is None for x in a) and all(isinstance(x, (str, int)) for x in k.values()):
                try:
                    return getattr(s, name)(*a, **k)
                except (ValueError, TypeError, IndexError, KeyError) as e:
                    raise PyRaise(type(e).__name__, str(e))
            if name == 'format':
                parts = [_format(interp, x, None) for x in a]
                return _I().SStr(CTX.fresh('fmtlen', 'int'), None, tag=('strformat', s, parts))
            if name == 'join':
                seq = interp.concrete_iter(a[0])
                if seq is not None and all(isinstance(x, str) for x in seq):
                    return s.join(seq)
            raise Unsupported(f"str.{name} with symbolic arguments")
        return f
    _method('str', _name)(_mk(_name))
    _method('bytes', _name)(_mk(_name))


# =====================================================================================
# Sum terms

def sum_term(n, body, real=True):
    """Sum_{j<n} body(j) as a fresh constant registered for extensionality/unfolding axioms.
    Concrete small n is expanded."""
    c = conc_int(n)
    if c is not None and c <= 16:
        r = 0
        for j in range(c):
            r = r + body(j)
        return r
    probe = body(CTX.fresh('jz', 'int'))
    if is_conc(probe) and probe == 0:
        return 0
    # congruence: same length term and syntactically the same body at a shared probe index -> same constant
    memo = CTX.sqrt_terms.setdefault('sum_memo', {})
    key = None
    try:
        pv = body(Sym(z3.Int('sum!probe'), 'int'))
        if isinstance(pv, Sym):
            nt = Sym.lift(n).t
            key = (nt.hash(), pv.t.hash())
            for (nt0, pt0, s0) in memo.get(key, ()):
                if nt0.eq(nt) and pt0.eq(pv.t):
                    return s0
    except (Unsupported, PyRaise):
        key = None
    s = CTX.fresh('Sum', 'real')
    CTX.sums.append((s, n, body))
    if key is not None:
        memo.setdefault(key, []).append((nt, pv.t, s))
    return s


def sum_axioms(relevant=None):
    """Extensionality axioms (skolemised, quantifier-free, sound):
       n_a == n_b and body_a(j*) == body_b(j*) at a fresh j* in range  ==>  sum_a == sum_b.
    Sums whose constant occurs in `relevant` (goal / path condition symbols) are paired with each other;
    for every pair, the sums referenced by the two instantiated bodies (nested sums) are paired side by side,
    recursively to depth 3.  Axioms are cached per pair."""
    from .sym import term_syms
    cache = CTX.sqrt_terms.setdefault('sum_ax_cache', {})
    by_name = {str(x[0].t): x for x in CTX.sums}
    out = []
    seen = set()

    def refs(v):
        if isinstance(v, SCplx):
            return refs(v.re) | refs(v.im)
        if isinstance(v, Sym):
            return {n for n in term_syms(v.t) if n.startswith('Sum!')}
        return set()

    def pair(A, B, depth):
        sa, na, ba = A
        sb, nb, bb = B
        ka, kb = str(sa.t), str(sb.t)
        if ka == kb:
            return
        key = (ka, kb) if ka < kb else (kb, ka)
        if key in seen:
            return
        seen.add(key)
        if key not in cache:
            CTX.counter += 1
            js = Sym(z3.Int(f"jext!{CTX.counter}"), 'int')
            va, vb = ba(js), bb(js)
            for x in CTX.sums:
                by_name.setdefault(str(x[0].t), x)
            if isinstance(va, SCplx) or isinstance(vb, SCplx):
                cache[key] = (None, set(), set())
            else:
                same = eq(va, vb)
                neq_n = Not(eq(na, nb))
                if isinstance(same, Sym) and z3.is_true(z3.simplify(same.t)):
                    same = True
                if isinstance(neq_n, Sym) and z3.is_false(z3.simplify(neq_n.t)):
                    neq_n = False
                if same is True:
                    ax = Or(neq_n, sa == sb)
                else:
                    ax = Or(neq_n, And(js >= 0, js < na, Not(same)), sa == sb)
                cache[key] = (ax, refs(va), refs(vb))
        ax, ra, rb = cache[key]
        if ax is not None:
            out.append(ax)
        if depth < 3:
            for x in ra:
                for y in rb:
                    if x in by_name and y in by_name:
                        pair(by_name[x], by_name[y], depth + 1)

    prim = [x for x in list(CTX.sums) if relevant is None or str(x[0].t) in relevant]
    for i in range(len(prim)):
        for j in range(i + 1, len(prim)):
            pair(prim[i], prim[j], 0)
    return out


# =====================================================================================
# numpy

def _np(name):
    def deco(f):
        LIB['numpy.' + name] = f
        return f
    return deco


def _as_arr(x):
    if isinstance(x, SArr):
        return x
    if isinstance(x, (list, tuple)):
        return A.from_list(list(x))
    I = _I()
    if isinstance(x, I.LazySeq):
        first = x.at(0) if True else None
        return _lazy_to_arr(x)
    return SArr((), lambda idx: x, 'real')


def _lazy_to_arr(x):
    """np.array(list comprehension of symbolic length): elements scalars or arrays."""
    probe = x.at(CTX.fresh('probe', 'int'))
    if isinstance(probe, SArr):
        sub_shape = probe.shape
        return SArr((x.length,) + tuple(sub_shape), lambda idx: x.at(idx[0]).at(idx[1:]), probe.dtype)
    if isinstance(probe, (list, tuple)):
        n = len(probe)
        first = probe[0]
        if isinstance(first, SArr):
            return SArr((x.length, n) + tuple(first.shape),
                        lambda idx: _pick(x.at(idx[0]), idx[1]).at(idx[2:]), first.dtype)
        return SArr((x.length, n), lambda idx: _pick(x.at(idx[0]), idx[1]), 'real')
    return SArr((x.length,), lambda idx: x.at(idx[0]), 'real')


def _pick(seq, i):
    c = conc_int(i)
    if c is not None:
        return seq[c]
    r = seq[-1]
    for k in range(len(seq) - 2, -1, -1):
        if isinstance(r, SArr):
            raise Unsupported("symbolic pick among arrays")
        r = sym_if(eq(i, k), seq[k], r)
    return r


@_np('array')
def np_array(interp, x, dtype=None, **kw):
    I = _I()
    if isinstance(x, I.SList):
        snap = x.snapshot()
        return SArr((snap.length,), lambda idx: snap.at(idx[0]), 'obj')
    if isinstance(x, SArr):
        r = x.copy()
    elif isinstance(x, I.LazySeq):
        r = _lazy_to_arr(x)
    elif isinstance(x, (list, tuple)):
        if any(isinstance(e, I.SObj) for e in x):
            r = SArr((len(x),), (lambda lst: lambda idx: lst[conc_int(idx[0])])(list(x)), 'obj')
            r.objlist = list(x)
        else:
            r = A.from_list(list(x))
    else:
        r = SArr((), lambda idx: x, 'real')
    if dtype is not None:
        r = _astype(interp, r, dtype)
    return r


def _dtype_name(dtype):
    I = _I()
    if isinstance(dtype, I.BuiltinType):
        return dtype.name
    if isinstance(dtype, I.LibRef):
        return dtype.path.split('.')[-1]
    if isinstance(dtype, str):
        return dtype
    raise Unsupported(f"dtype {dtype!r}")


def _astype(interp, a, dtype):
    name = _dtype_name(dtype)
    if name in ('int', 'int64', 'int32'):
        if a.dtype == 'complex':
            raise Unsupported("complex -> int cast")
        if getattr(interp.vc, 'check_int_overflow', False) and a.dtype not in ('int', 'bool'):
            # safety obligation (opt-in per contract): a float -> int64 cast is only defined for values inside the int64 range;
            # outside it numpy returns INT64_MIN.  Checked at a generic position of the array.
            idx = tuple(CTX.fresh('cast_at', 'int') for _ in range(a.ndim))
            inr = And(*[And(k >= 0, k < d) for k, d in zip(idx, a.shape)]) if a.ndim else True
            v = a.at(idx)
            key = interp.call_stack[-1] if getattr(interp, 'call_stack', None) else '?'
            interp.vc.ensure(f"{key}/astype(int)/value-inside-the-int64-range", Implies(inr, And(v > -2 ** 63, v < 2 ** 63)), kind='safety')
        return A.elementwise1(a, to_int, 'int')
    if name == 'int8':
        # numpy wraps modulo 256 for int->int8; float->int8 out of range is undefined: obligation
        # is that values are in range (checked by contracts).  Model: truncation, flagged.
        r = A.elementwise1(a, to_int, 'int')
        r.int8_cast = True
        return r
    if name in ('float', 'float64', 'float32'):
        return A.elementwise1(a, to_float, 'real')
    if name in ('complex', 'complex128'):
        return A.elementwise1(a, SCplx.lift, 'complex')
    if name == 'bool':
        return A.elementwise1(a, to_bool, 'bool')
    raise Unsupported(f"astype {name}")


LIBATTR[('ndarray', 'astype')] = lambda interp, a: (lambda i2, dtype, **k: _astype(i2, a, dtype))
LIBATTR[('ndarray', 'shape')] = lambda interp, a: tuple(a.shape)
LIBATTR[('ndarray', 'ndim')] = lambda interp, a: a.ndim
LIBATTR[('ndarray', 'size')] = lambda interp, a: a.size()
LIBATTR[('ndarray', 'T')] = lambda interp, a: A.transpose(a)
LIBATTR[('ndarray', 'real')] = lambda interp, a: np_real(interp, a)
LIBATTR[('ndarray', 'imag')] = lambda interp, a: np_imag(interp, a)
LIBATTR[('ndarray', 'copy')] = lambda interp, a: (lambda i2: a.copy())
LIBATTR[('ndarray', 'fill')] = lambda interp, a: (lambda i2, v: A.setitem(a, tuple(slice(None) for _ in a.shape), v))
LIBATTR[('ndarray', 'reshape')] = lambda interp, a: (lambda i2, *sh: A.reshape(a, sh[0] if len(sh) == 1 and isinstance(sh[0], (tuple, list)) else sh))
LIBATTR[('ndarray', 'flatten')] = lambda interp, a: (lambda i2: A.reshape(a, (a.size(),)).copy())
LIBATTR[('ndarray', 'sum')] = lambda interp, a: (lambda i2, axis=None, **k: np_sum(i2, a, axis=axis, **k))
LIBATTR[('ndarray', 'mean')] = lambda interp, a: (lambda i2, axis=None, **k: np_mean(i2, a, axis=axis, **k))
LIBATTR[('ndarray', 'std')] = lambda interp, a: (lambda i2, axis=None, **k: np_std(i2, a, axis=axis, **k))
LIBATTR[('ndarray', 'tobytes')] = lambda interp, a: (lambda i2: ByteBlob(a.size(), 'array', a))
LIBATTR[('ndarray', 'dtype')] = lambda interp, a: a.dtype
# scalar numpy-ish methods on Sym (np.round(x).astype(int))
for _t in ('int', 'float', 'bool'):
    LIBATTR[(_t, 'astype')] = lambda interp, x: (lambda i2, dtype, **k: _scalar_astype(x, dtype))
    LIBATTR[(_t, 'real')] = lambda interp, x: x
    LIBATTR[(_t, 'imag')] = lambda interp, x: 0
    LIBATTR[(_t, 'shape')] = lambda interp, x: ()
LIBATTR[('complex', 'real')] = lambda interp, x: SCplx.lift(x).re
LIBATTR[('complex', 'imag')] = lambda interp, x: SCplx.lift(x).im


def _scalar_astype(x, dtype):
    name = _dtype_name(dtype)
    if name.startswith('int'):
        return to_int(x)
    if name.startswith('float'):
        return to_float(x)
    raise Unsupported("scalar astype")


@_np('copy')
def np_copy(interp, a):
    return _as_arr(a).copy()


@_np('asarray')
def np_asarray(interp, a, **k):
    return a if isinstance(a, SArr) else np_array(interp, a)


@_np('zeros')
def np_zeros(interp, shape, dtype=None, **k):
    sh = tuple(shape) if isinstance(shape, (tuple, list)) else (shape,)
    if dtype is not None and _dtype_name(dtype).startswith('complex'):
        return SArr(sh, lambda idx: SCplx(0, 0), 'complex')
    return SArr(sh, lambda idx: 0, 'real')


@_np('ones')
def np_ones(interp, shape, **k):
    sh = tuple(shape) if isinstance(shape, (tuple, list)) else (shape,)
    return SArr(sh, lambda idx: 1, 'real')


@_np('empty')
def np_empty(interp, shape, **k):
    sh = tuple(shape) if isinstance(shape, (tuple, list)) else (shape,)
    a = A.symbolic_array('empty', sh, 'real')
    a.uninitialised = True
    return a


@_np('full')
def np_full(interp, shape, value, **k):
    sh = tuple(shape) if isinstance(shape, (tuple, list)) else (shape,)
    return SArr(sh, lambda idx: value, 'real')


@_np('repeat')
def np_repeat(interp, x, n):
    if isinstance(x, SArr):
        raise Unsupported("np.repeat of array")
    return SArr((n,), lambda idx: x, 'real')


@_np('linspace')
def np_linspace(interp, start, stop, num=50, endpoint=True, **k):
    """linspace(a, b, n, endpoint=False)[i] = a + i*((b-a)/n) (numpy: step = delta/div; y = arange*step + start)."""
    if endpoint is not False and not (isinstance(endpoint, bool) and endpoint is False):
        if endpoint is True:
            div = num - 1
        else:
            raise Unsupported("linspace symbolic endpoint")
    else:
        div = num
    delta = _scalar_binop('Sub', stop, start)

    def fn(idx):
        step = _scalar_binop('Div', delta, div)
        return _scalar_binop('Add', _scalar_binop('Mult', idx[0], step), start)
    return SArr((num,), fn, 'real')


@_np('arange')
def np_arange(interp, *args, **k):
    if len(args) == 1:
        start, stop, step = 0, args[0], 1
    elif len(args) == 2:
        start, stop, step = args[0], args[1], 1
    else:
        start, stop, step = args
    I = _I()
    kinds = [I.type_tag(x) for x in (start, stop, step)]
    if all(t in ('int', 'bool') for t in kinds):
        return A.arange(start, stop, step, 'int')
    # float arange: length = ceil((stop - start)/step) computed in floats (numpy), elements start + i*step
    q = _scalar_binop('Div', _scalar_binop('Sub', stop, start), step)
    n = smax(s_ceil(q) if not is_conc(q) else s_ceil(q), 0)
    return SArr((n,), lambda idx: _scalar_binop('Add', start, _scalar_binop('Mult', idx[0], step)), 'real')


@_np('meshgrid')
def np_meshgrid(interp, x, y, **k):
    x, y = _as_arr(x), _as_arr(y)
    if x.ndim != 1 or y.ndim != 1:
        x = A.reshape(x, (x.size(),)) if x.ndim != 1 else x
        y = A.reshape(y, (y.size(),)) if y.ndim != 1 else y
    xs, ys = x._snapshot(), y._snapshot()
    nx, ny = x.shape[0], y.shape[0]
    return [SArr((ny, nx), lambda idx: xs((idx[1],)), x.dtype), SArr((ny, nx), lambda idx: ys((idx[0],)), y.dtype)]


@_np('append')
def np_append(interp, a, v, axis=None):
    a = _as_arr(a)
    if not isinstance(v, (SArr, list, tuple)):
        v = A.from_list([v])
    return A.concatenate([a, _as_arr(v)], 0)


@_np('concatenate')
def np_concatenate(interp, arrs, axis=0):
    I = _I()
    if isinstance(arrs, SArr):
        # concatenating the sub-arrays of a >=2-D array along an axis
        a = arrs
        ax = conc_int(axis)
        if a.ndim == 3 and ax == 1:
            # (n0, n1, n2) -> (n1, n0*n2): out[i, j] = a[j // n2, i, j % n2]
            n0, n1, n2 = a.shape
            snap = a._snapshot()
            return SArr((n1, n0 * n2), lambda idx: snap((idx[1] // n2, idx[0], idx[1] % n2)), a.dtype)
        if ax == 0:
            n0 = a.shape[0]
            rest = a.shape[1:]
            snap = a._snapshot()
            return SArr((n0 * rest[0],) + tuple(rest[1:]),
                        lambda idx: snap((idx[0] // rest[0], idx[0] % rest[0]) + tuple(idx[1:])), a.dtype)
        raise Unsupported("concatenate of array along this axis")
    if isinstance(arrs, I.LazySeq):
        h = getattr(interp, 'lazy_concat', None)
        if h is not None:
            return h(arrs, axis)
        raise Unsupported("concatenate of a symbolic-length list")
    for x in arrs:
        if x is None:
            raise PyRaise('ValueError', 'zero-dimensional arrays cannot be concatenated')
    return A.concatenate([_as_arr(x) for x in arrs], conc_int(axis) or 0)


@_np('diff')
def np_diff(interp, a):
    a = _as_arr(a)
    s = a._snapshot()
    return SArr((smax(a.shape[0] - 1, 0),), lambda idx: _scalar_binop('Sub', s((idx[0] + 1,)), s((idx[0],))), a.dtype)


@_np('reshape')
def np_reshape(interp, a, shape):
    return A.reshape(_as_arr(a), shape if isinstance(shape, (tuple, list)) else (shape,))


@_np('transpose')
def np_transpose(interp, a):
    return A.transpose(a)


def _ew1(f, dtype=None):
    def g(interp, x, *a, **k):
        if isinstance(x, SArr):
            return A.elementwise1(x, f, dtype or x.dtype)
        if isinstance(x, (list, tuple)):
            return A.elementwise1(A.from_list(list(x)), f, dtype)
        return f(x)
    return g


def _round_scalar(x):
    if isinstance(x, (SCplx,)):
        raise Unsupported("round complex")
    r = round_half_even(x)
    return r


LIB['numpy.round'] = LIB['numpy.around'] = LIB['numpy.rint'] = _ew1(_round_scalar, 'real')
LIB['numpy.ceil'] = _ew1(s_ceil, 'real')
LIB['numpy.floor'] = _ew1(s_floor, 'real')
def _np_abs(interp, x, *a, **k):
    if isinstance(x, SArr):
        return A.elementwise1(x, _sabs, 'real' if x.dtype == 'complex' else x.dtype)
    return _abs(interp, x)


LIB['numpy.abs'] = LIB['numpy.absolute'] = LIB['numpy.fabs'] = _np_abs
LIB['numpy.sqrt'] = _ew1(s_sqrt, 'real')
LIB['numpy.real'] = np_real = _ew1(lambda x: SCplx.lift(x).re if isinstance(x, (SCplx, complex)) else x, 'real')
LIB['numpy.imag'] = np_imag = _ew1(lambda x: SCplx.lift(x).im if isinstance(x, (SCplx, complex)) else 0, 'real')


def _uf(name, arity=1):
    f = z3.Function(name, *([z3.RealSort()] * arity), z3.RealSort())

    def app(*xs):
        ts = [(x if isinstance(x, Sym) else Sym.lift(x)).as_real() for x in xs]
        return Sym(f(*ts), 'real')
    return app


UF_COS = _uf('cos')
UF_SIN = _uf('sin')
UF_EXP = _uf('exp')
UF_LOG = _uf('log')
UF_SINC = _uf('sinc')
UF_LOG10 = _uf('log10')
UF_WOFZ_RE = _uf('wofz_re', 2)


def _cos(x):
    return UF_COS(x)


LIB['numpy.cos'] = _ew1(lambda x: UF_COS(x), 'real')
LIB['numpy.sin'] = _ew1(lambda x: UF_SIN(x), 'real')
def _exp(x):
    if is_conc(x) and x == 0:
        return 1
    CTX.side.append((UF_EXP(0) == 1).t)       # axiom exp(0) = 1
    return UF_EXP(x)


LIB['numpy.exp'] = _ew1(_exp, 'real')
LIB['numpy.sinc'] = _ew1(lambda x: UF_SINC(x), 'real')
LIB['numpy.log10'] = _ew1(lambda x: UF_LOG10(x), 'real')


def _log(x):
    r = UF_LOG(x)
    if is_conc(x) and _q(x) > 0:
        # numeric enclosure of log at a concrete argument (axiom about the real function)
        import math
        v = math.log(float(_q(x)))
        lo, hi = Fraction(v) - Fraction(1, 10 ** 12), Fraction(v) + Fraction(1, 10 ** 12)
        CTX.side.append(And(r >= lo, r <= hi).t)
    return r


LIB['numpy.log'] = _ew1(_log, 'real')
LIB['numpy.pi'] = None  # placeholder, replaced by symbolic constant at lookup
PI = Sym(z3.Real('pi'), 'real')


@_np('power')
def np_power(interp, x, p):
    if isinstance(x, SArr):
        return A.elementwise1(x, lambda v: power(v, p), 'real')
    return power(x, p)


@_np('maximum')
def np_maximum(interp, a, b):
    if isinstance(a, SArr) or isinstance(b, SArr):
        return A.elementwise2(a, b, smax, '+')
    return smax(a, b)


@_np('minimum')
def np_minimum(interp, a, b):
    if isinstance(a, SArr) or isinstance(b, SArr):
        return A.elementwise2(a, b, smin, '+')
    return smin(a, b)


@_np('clip')
def np_clip(interp, a, lo, hi):
    f = lambda x: smin(smax(x, lo), hi)
    if isinstance(a, SArr):
        return A.elementwise1(a, f)
    return f(a)


@_np('where')
def np_where(interp, c, a, b):
    def pick(cc, x, y):
        return sym_if(to_bool(cc) if not isinstance(cc, bool) else cc, x, y)
    if isinstance(c, SArr):
        ab = a
        r = A.elementwise2(c, a, lambda cc, x: (cc, x), '+') if isinstance(a, SArr) else A.elementwise1(c, lambda cc: (cc, a))
        if isinstance(b, SArr):
            return A.elementwise2(r, b, lambda cx, y: pick(cx[0], cx[1], y), '+')
        return SArr(r.shape, lambda idx: pick(r.at(idx)[0], r.at(idx)[1], b), 'real')
    return pick(c, a, b)


def _reduce_axis(a, axis, f_total, keepdims=False):
    """Generic reduction producing Sum terms.  f_total(n, body) -> scalar."""
    if axis is None:
        flat = A.reshape(a, (a.size(),)) if a.ndim != 1 else a
        snap = flat
        return f_total(flat.shape[0], lambda j: snap.at((j,)))
    ax = conc_int(axis)
    if ax is None:
        raise Unsupported("symbolic axis")
    if ax < 0:
        ax += a.ndim
    n = a.shape[ax]
    snap = a._snapshot()
    if keepdims:
        out_shape = tuple(1 if k == ax else d for k, d in enumerate(a.shape))

        def fnk(idx):
            return f_total(n, lambda j: snap(tuple(j if k == ax else idx[k] for k in range(a.ndim))))
        return SArr(out_shape, _memo(fnk), a.dtype if a.dtype != 'int' else 'real')
    out_shape = tuple(d for k, d in enumerate(a.shape) if k != ax)

    def fn(idx):
        def body(j):
            full = list(idx[:ax]) + [j] + list(idx[ax:])
            return snap(tuple(full))
        return f_total(n, body)
    if not out_shape:
        return fn(())
    return SArr(out_shape, _memo(fn), a.dtype if a.dtype != 'int' else 'real')


def _memo(fn):
    cache = {}

    def g(idx):
        key = tuple((i.t.get_id() if isinstance(i, Sym) else i) for i in idx)
        if key not in cache:
            cache[key] = (idx, fn(idx))     # keep idx alive: z3 ids are only unique among live terms
        return cache[key][1]
    return g


def _sum_total(n, body):
    probe = None
    return sum_term(n, body)


@_np('sum')
def np_sum(interp, a, axis=None, keepdims=False, **k):
    a = _as_arr(a)
    if a.dtype == 'complex':
        def tot(n, body):
            return SCplx(sum_term(n, lambda j: body(j).re), sum_term(n, lambda j: body(j).im))
        return _reduce_axis(a, axis, tot, keepdims)
    return _reduce_axis(a, axis, _sum_total, keepdims)


@_np('mean')
def np_mean(interp, a, axis=None, keepdims=False, **k):
    a = _as_arr(a)

    def tot(n, body):
        return _scalar_binop('Div', sum_term(n, body), n)
    return _reduce_axis(a, axis, tot, keepdims)


UF_STD = {}


@_np('std')
def np_std(interp, a, axis=None, **k):
    """std = sqrt(mean((x - mean)^2)): encoded through Sum terms."""
    a = _as_arr(a)

    def tot(n, body):
        m = _scalar_binop('Div', sum_term(n, body), n)
        var = _scalar_binop('Div', sum_term(n, lambda j: (body(j) - m) * (body(j) - m)), n)
        CTX.side.append((Sym.lift(var) >= 0).t if not is_conc(var) else z3.BoolVal(True))
        return s_sqrt(var)
    return _reduce_axis(a, axis, tot)


@_np('amin')
def np_amin(interp, a, **k):
    a = _as_arr(a)
    n = conc_int(a.shape[0])
    if a.ndim != 1 or n is None:
        # the minimum is attained at some position (over-approximation: nothing else is known about it)
        ws = [CTX.fresh('argmin', 'int') for _ in range(a.ndim)]
        for w, d in zip(ws, a.shape):
            CTX.side.append(And(w >= 0, w < d).t)
        return a.at(tuple(ws))
    r = a.at((0,))
    for i in range(1, n):
        r = smin(r, a.at((i,)))
    return r


LIB['numpy.min'] = np_amin


@_np('amax')
def np_amax(interp, a, **k):
    if a is None:
        raise PyRaise('TypeError', "'>=' not supported between instances of 'NoneType' and 'NoneType'")
    a = _as_arr(a)
    if a.ndim == 0:
        return a.at(())
    n = conc_int(a.shape[0])
    if a.ndim != 1 or n is None:
        h = getattr(a, 'max_hook', None)
        if h is not None:
            return h()
        raise Unsupported("amax over symbolic array")
    r = a.at((0,))
    for i in range(1, n):
        r = smax(r, a.at((i,)))
    return r


LIB['numpy.max'] = np_amax


@_np('sort')
def np_sort(interp, a):
    if isinstance(a, (list, tuple)) and len(a) == 2:
        x, y = a
        return A.from_list([smin(x, y), smax(x, y)])
    h = getattr(a, 'sort_hook', None)
    if h is not None:
        return h()
    if isinstance(a, SArr) and a.ndim == 1:
        # sorted copy of a symbolic-length array: only its two ends are modelled.  first = minimum, last = maximum, each attained
        # at some position and bounding the elements at both ends and at a generic position (instances of "for all i")
        n = a.shape[0]
        snap = a._snapshot()
        ends = {}

        def end(kind):
            if kind not in ends:
                w = CTX.fresh('arg' + kind, 'int')
                g = CTX.fresh('any_i', 'int')
                v = snap((w,))
                cs = [w >= 0, w < n]
                for i in (0, n - 1, g):
                    e = snap((i,))
                    inr = And(Sym.lift(i) >= 0, Sym.lift(i) < n)
                    cs.append(Implies(inr, v <= e if kind == 'min' else v >= e))
                CTX.side.append(And(*cs).t)
                ends[kind] = v
            return ends[kind]

        def fn(idx):
            i = idx[0]
            first, last = eq(i, 0), eq(i, n - 1)
            if first is True:
                return end('min')
            if last is True:
                return end('max')
            if first is False and last is False:
                raise Unsupported("interior element of a sorted symbolic array")
            return sym_if(first, end('min'), end('max')) if conc_int(n) != 1 else end('min')
        r = SArr((n,), fn, a.dtype)
        r.sorted_ends_only = True
        return r
    raise Unsupported("np.sort")


@_np('ptp')
def np_ptp(interp, a, **k):
    """ptp = max - min >= 0; ptp == 0 iff all elements are equal (the 'iff' is used through the flag below:
    contracts read `ptp_zero_means_constant`)."""
    a = _as_arr(a)
    p = CTX.fresh('ptp', 'real')
    CTX.side.append((p >= 0).t)
    flat = A.reshape(a, (a.size(),)) if a.ndim != 1 else a
    snap = flat._snapshot()
    # instantiate "ptp == 0 -> a[j] == a[0]" lazily at the indices contracts ask about
    interp.__dict__.setdefault('ptp_terms', []).append((p, snap, flat.shape[0]))
    return p


@_np('zeros_like')
def np_zeros_like(interp, a, dtype=None, **k):
    a = _as_arr(a)
    if (dtype is not None and _dtype_name(dtype).startswith('complex')) or (dtype is None and a.dtype == 'complex'):
        return SArr(a.shape, lambda idx: SCplx(0, 0), 'complex')
    return SArr(a.shape, lambda idx: 0, 'int' if a.dtype == 'int' and dtype is None else 'real')


@_np('ones_like')
def np_ones_like(interp, a, **k):
    a = _as_arr(a)
    return SArr(a.shape, lambda idx: 1, a.dtype if a.dtype != 'complex' else 'real')


def _all_any(is_all):
    def f(interp, a, axis=None, **k):
        if not isinstance(a, SArr):
            return interp.truth(a)
        if axis is not None:
            raise Unsupported("np.all/any with axis")
        flat = A.reshape(a, (a.size(),)) if a.ndim != 1 else a
        n = conc_int(flat.shape[0])
        if n is None or n > 64:
            # quantified result over a symbolic-length array: a fresh boolean B with
            #   all:  B -> p(k) for every k in range (instantiated at 0, n-1, at every index symbol the interpreter introduces later and
            #         at the indices a contract names with vc.instantiate), not B -> not p(w) for a witness w in range, n == 0 -> B
            #   any:  dual
            N = flat.shape[0]
            snap = flat._snapshot()
            pk = lambda k_: (lambda v: to_bool(v) if not isinstance(v, bool) else Sym.lift(v))(snap((k_,)))
            B = CTX.fresh('all' if is_all else 'any', 'bool')
            w = CTX.fresh('witness', 'int')
            inr = lambda k_: And(Sym.lift(k_) >= 0, Sym.lift(k_) < N)
            if is_all:
                CTX.side.append(And(Implies(Not(B), And(inr(w), Not(pk(w)))), Implies(eq(N, 0), B)).t)
                gen = lambda k_: Implies(And(B, inr(k_)), pk(k_))
            else:
                CTX.side.append(And(Implies(B, And(inr(w), pk(w))), Implies(eq(N, 0), Not(B))).t)
                gen = lambda k_: Implies(And(Not(B), inr(k_)), Not(pk(k_)))
            interp.vc.foralls.append(gen)
            interp.vc.assume(gen(0))
            interp.vc.assume(gen(N - 1))
            for k_ in getattr(interp.vc, 'probe_indices', ()):
                interp.vc.assume(gen(k_))
            return B
        vals = [to_bool(flat.at((q,))) if not isinstance(flat.at((q,)), bool) else flat.at((q,)) for q in range(n)]
        return And(*vals) if is_all else Or(*vals)
    return f


LIB['numpy.all'] = _all_any(True)
LIB['numpy.any'] = _all_any(False)
LIBATTR[('ndarray', 'all')] = lambda interp, a: (lambda i2, **k: _all_any(True)(i2, a, **k))
LIBATTR[('ndarray', 'any')] = lambda interp, a: (lambda i2, **k: _all_any(False)(i2, a, **k))


@_np('isclose')
def np_isclose(interp, a, b, rtol=Fraction(1, 10 ** 5), atol=Fraction(1, 10 ** 8), **k):
    f = lambda x, y: _sabs(x - y) <= atol + rtol * _sabs(y)
    if isinstance(a, SArr) or isinstance(b, SArr):
        return A.elementwise2(a, b, f, '==')
    return f(a, b)


@_np('squeeze')
def np_squeeze(interp, a, axis=None):
    """Drop every axis of length 1 (a symbolic length is decided by a branch: the result's rank depends on it)."""
    if not isinstance(a, SArr):
        return a
    if axis is not None:
        raise Unsupported("np.squeeze with axis")
    keep = []
    for ax, d in enumerate(a.shape):
        one = eq(d, 1)
        if one is True or (one is not False and interp.branch(one)):
            continue
        keep.append(ax)
    snap = a._snapshot()
    nd = a.ndim

    def fn(idx):
        full = [0] * nd
        for pos, ax in enumerate(keep):
            full[ax] = idx[pos]
        return snap(tuple(full))
    return SArr(tuple(a.shape[ax] for ax in keep), fn, a.dtype)


@_np('ascontiguousarray')
def np_ascontiguousarray(interp, a, dtype=None, **k):
    """Returns its argument itself whenever that is already C-contiguous (which a view can be): modelled as *no copy*, the
    case that matters for ownership clauses; values are the same either way."""
    if isinstance(a, SArr) and dtype is None:
        return a
    return np_array(interp, a, dtype=dtype)


@_np('iscomplex')
def np_iscomplex(interp, a):
    """element-wise: has a non-zero imaginary part (False for real dtypes)."""
    if isinstance(a, SArr):
        if a.dtype != 'complex':
            return SArr(a.shape, lambda idx: False, 'bool')
        snap = a._snapshot()
        return SArr(a.shape, lambda idx: Not(eq(SCplx.lift(snap(idx)).im, 0)), 'bool')
    if isinstance(a, (SCplx, complex)):
        return Not(eq(SCplx.lift(a).im, 0))
    return False


@_np('iscomplexobj')
def np_iscomplexobj(interp, a):
    if isinstance(a, SArr):
        return a.dtype == 'complex'
    return isinstance(a, (SCplx, complex))


@_np('expand_dims')
def np_expand_dims(interp, a, axis):
    raise Unsupported("expand_dims")


@_np('isscalar')
def np_isscalar(interp, x):
    return _is_num(x)


@_np('cumsum')
def np_cumsum(interp, a):
    a = _as_arr(a)
    s = a._snapshot()
    return SArr(a.shape, lambda idx: sum_term(idx[0] + 1, lambda j: s((j,))), 'real')


@_np('vectorize')
def np_vectorize(interp, f):
    raise Unsupported("np.vectorize")


@_np('load')
def np_load(interp, path):
    h = getattr(interp, 'np_load_hook', None)
    if h is None:
        raise Unsupported("np.load")
    return h(path)


@_np('frombuffer')
def np_frombuffer(interp, buf, dtype=None):
    h = getattr(buf, 'as_int8_array', None)
    if h is None:
        raise Unsupported("frombuffer of non-file bytes")
    return h()


# numpy attribute constants
class _NPConst:
    pass


def lib_lookup_const(path):
    if path == 'numpy.pi':
        return PI
    if path == 'numpy.newaxis':
        return None
    return None


# random generators -----------------------------------------------------------------------

class RNG:
    """np.random.Generator as a ghost stream: draw(stream, position); position counter."""
    type_tag = 'Generator'
    lib_type = ('numpy.random.Generator',)
    _ids = [0]

    def __init__(self, seed_desc, stream=None):
        RNG._ids[0] += 1
        self.seed_desc = seed_desc
        self.stream = stream if stream is not None else CTX.fresh('stream', 'int')
        self.pos = 0
        self.draws = []      # log of (kind, count)
        self.seeded = seed_desc is not None

    def take(self, n):
        p = self.pos
        self.pos = self.pos + n
        return p


_DRAW = z3.Function('draw', z3.IntSort(), z3.IntSort(), z3.RealSort())
_DRAWI = z3.Function('drawi', z3.IntSort(), z3.IntSort(), z3.IntSort())


def _draw(rng, pos):
    return Sym(_DRAW(Sym.lift(rng.stream).as_int(), Sym.lift(pos).as_int()), 'real')


def _drawi(rng, pos):
    return Sym(_DRAWI(Sym.lift(rng.stream).as_int(), Sym.lift(pos).as_int()), 'int')


@lib('numpy.random.default_rng')
def np_default_rng(interp, seed=None):
    if isinstance(seed, RNG):
        return seed
    if seed is None:
        interp.reads_unlisted.append(('unseeded-rng', list(interp.call_stack)))
        return RNG(None)
    r = RNG(seed)
    # the stream identity is a function of the seed value
    SEEDF = z3.Function('seed_stream', z3.IntSort(), z3.IntSort())
    if isinstance(seed, (int, Sym)):
        r.stream = Sym(SEEDF(Sym.lift(seed).as_int()), 'int')
    return r


def _size_shape(size):
    if size is None:
        return None
    if isinstance(size, (tuple, list)):
        return tuple(size)
    return (size,)


def _rng_array(rng, shape, transform, kind):
    n = 1
    for d in shape:
        n = n * d
    p0 = rng.take(n)
    rng.draws.append((kind, n))

    def fn(idx):
        flat = 0
        for k, d in enumerate(shape):
            flat = flat * d + idx[k]
        return transform(_draw(rng, p0 + flat))
    return SArr(shape, fn, 'real')


def _rng_method(name):
    def deco(f):
        LIBATTR[('Generator', name)] = lambda interp, rng: (lambda i2, *a, **k: f(i2, rng, *a, **k))
        return f
    return deco


@_rng_method('standard_normal')
def rng_standard_normal(interp, rng, size=None):
    sh = _size_shape(size)
    if sh is None:
        p = rng.take(1)
        rng.draws.append(('standard_normal', 1))
        return _draw(rng, p)
    return _rng_array(rng, sh, lambda d: d, 'standard_normal')


@_rng_method('normal')
def rng_normal(interp, rng, loc=0, scale=1, size=None):
    sh = _size_shape(size)
    tr = lambda d: loc + scale * d
    if sh is None:
        p = rng.take(1)
        rng.draws.append(('normal', 1))
        return tr(_draw(rng, p))
    return _rng_array(rng, sh, tr, 'normal')


@_rng_method('uniform')
def rng_uniform(interp, rng, low=0, high=1, size=None):
    sh = _size_shape(size)

    def tr(d):
        CTX.side.append(z3.And(d.t >= 0, d.t < 1))
        return low + (high - low) * d
    if sh is None:
        p = rng.take(1)
        rng.draws.append(('uniform', 1))
        return tr(_draw(rng, p))
    return _rng_array(rng, sh, tr, 'uniform')


@_rng_method('chisquare')
def rng_chisquare(interp, rng, df=1, size=None):
    sh = _size_shape(size)
    CHI = z3.Function('chisq', z3.RealSort(), z3.RealSort(), z3.RealSort())

    def tr(d):
        return Sym(CHI(Sym.lift(df).as_real(), d.t), 'real')
    if sh is None:
        p = rng.take(1)
        rng.draws.append(('chisquare', 1))
        return tr(_draw(rng, p))
    return _rng_array(rng, sh, tr, 'chisquare')


@_rng_method('integers')
def rng_integers(interp, rng, low, high=None, size=None):
    if high is None:
        low, high = 0, low
    p = rng.take(1)
    rng.draws.append(('integers', 1))
    v = _drawi(rng, p)
    CTX.side.append(And(v >= low, v < high).t)
    return v


@_rng_method('choice')
def rng_choice(interp, rng, a, size=None):
    a = _as_arr(a)
    p = rng.take(1)
    rng.draws.append(('choice', 1))
    j = _drawi(rng, p)
    CTX.side.append(And(j >= 0, j < a.shape[0]).t)
    r = a.at((j,))
    rng.last_choice_index = j
    return r


# copy ------------------------------------------------------------------------------------------

@lib('copy.deepcopy')
def deepcopy(interp, x, memo=None):
    I = _I()
    memo = {} if memo is None else memo

    def dc(v):
        if id(v) in memo:
            return memo[id(v)]
        if isinstance(v, I.SObj):
            h = v.fields.get('__deepcopy_raises__')
            if h is not None:
                raise PyRaise(h[0], h[1])
            o = I.SObj(v.cls, {}, v.tag)
            memo[id(v)] = o
            src = v.fields
            if v.cls is not None and interp.find_method(v.cls, '__getstate__'):
                src = interp.call(interp.getattr(v, '__getstate__'), [], {})
            for k, val in src.items():
                o.fields[k] = dc(val)
            return o
        if isinstance(v, SArr):
            c = v.copy()
            memo[id(v)] = c
            return c
        if isinstance(v, list):
            c = []
            memo[id(v)] = c
            c.extend(dc(e) for e in v)
            return c
        if isinstance(v, dict):
            c = {}
            memo[id(v)] = c
            for k, e in v.items():
                c[k] = dc(e)
            return c
        if isinstance(v, tuple):
            return tuple(dc(e) for e in v)
        if isinstance(v, RNG):
            c = RNG(v.seed_desc, v.stream)
            c.pos = v.pos
            c.seeded = v.seeded
            memo[id(v)] = c
            return c
        h = getattr(v, 'deepcopy_hook', None)
        if h is not None:
            c = h(interp, memo)
            memo[id(v)] = c
            return c
        return v
    return dc(x)


@lib('copy.copy')
def shallow_copy(interp, x):
    I = _I()
    if isinstance(x, dict):
        return dict(x)
    if isinstance(x, list):
        return list(x)
    if isinstance(x, I.SObj):
        return I.SObj(x.cls, dict(x.fields), x.tag)
    return x


# time ----------------------------------------------------------------------------------------------

@lib('time.time')
def time_time(interp):
    t = CTX.fresh('wallclock', 'real')
    interp.reads_unlisted.append(('wall-clock', list(interp.call_stack)))
    return t


# tqdm (dropped) --------------------------------------------------------------------------------------

class _Tqdm:
    type_tag = 'tqdm'

    def close_ctx(self, interp):
        pass


@lib('tqdm.tqdm')
def tqdm_tqdm(interp, *a, **k):
    interp.dropped.add('tqdm')
    return _Tqdm()


LIB['tqdm.tqdm.write'] = lambda interp, *a, **k: interp.dropped.add('tqdm.write')
LIBATTR[('tqdm', 'update')] = lambda interp, o: (lambda i2, *a, **k: None)
LIBATTR[('tqdm', 'set_description')] = lambda interp, o: (lambda i2, *a, **k: None)


# astropy units ----------------------------------------------------------------------------------------

UNIT_SCALE = {'Hz': 1, 'kHz': 10 ** 3, 'MHz': 10 ** 6, 'GHz': 10 ** 9, 's': 1, 'ms': Fraction(1, 1000), 'pixel': 1, 'pix': 1}


class Unit:
    type_tag = 'Unit'

    def __init__(self, dims):
        self.dims = dims    # e.g. ('Hz',) or ('Hz','/s')

    def scale(self):
        s = Fraction(1)
        kind = []
        for d in self.dims:
            inv = d.startswith('/')
            nm = d[1:] if inv else d
            sc = Fraction(UNIT_SCALE[nm])
            s = s / sc if inv else s * sc
            base = 'Hz' if nm.endswith('Hz') else ('s' if nm in ('s', 'ms') else 'pixel')
            kind.append(('/' if inv else '') + base)
        return s, tuple(kind)

    def binop_hook(self, interp, op, a, b):
        if op == 'Mult':
            if isinstance(a, Unit) and isinstance(b, Unit):
                return Unit(a.dims + b.dims)
            v, un = (a, b) if isinstance(b, Unit) else (b, a)
            return Quantity(v, un)
        if op == 'Div':
            if isinstance(a, Unit) and isinstance(b, Unit):
                return Unit(a.dims + tuple(('/' + d) if not d.startswith('/') else d[1:] for d in b.dims))
            if isinstance(b, Unit):
                return Quantity(a, Unit(tuple(('/' + d) if not d.startswith('/') else d[1:] for d in b.dims)))
        raise Unsupported("unit arithmetic")


class Quantity:
    type_tag = 'Quantity'
    lib_type = ('astropy.units.Quantity', 'astropy.units.quantity.Quantity')

    def __init__(self, value, unit):
        self.value = value
        self.unit = unit

    def binop_hook(self, interp, op, a, b):
        if op == 'Mult':
            if isinstance(a, Quantity) and not isinstance(b, (Quantity, Unit)):
                return Quantity(interp.binop('Mult', a.value, b), a.unit)
            if isinstance(b, Quantity) and not isinstance(a, (Quantity, Unit)):
                return Quantity(interp.binop('Mult', a, b.value), b.unit)
        if op == 'Div' and isinstance(a, Quantity) and not isinstance(b, (Quantity, Unit)):
            return Quantity(interp.binop('Div', a.value, b), a.unit)
        raise Unsupported("quantity arithmetic")

    def abs_hook(self, interp):
        return Quantity(_abs(interp, self.value), self.unit)

    def to(self, interp, unit):
        s1, k1 = self.unit.scale()
        s2, k2 = unit.scale()
        if sorted(k1) != sorted(k2):
            raise PyRaise('UnitConversionError', f"{self.unit.dims} -> {unit.dims}")
        f = s1 / s2
        v = self.value if f == 1 else interp.binop('Mult', self.value, int(f) if f.denominator == 1 else f)
        return Quantity(v, unit)


LIBATTR[('Quantity', 'to')] = lambda interp, q: (lambda i2, unit: q.to(i2, unit))
LIBATTR[('Quantity', 'value')] = lambda interp, q: q.value
LIBATTR[('Quantity', 'unit')] = lambda interp, q: q.unit

for _u in ['Hz', 'kHz', 'MHz', 'GHz', 's', 'ms', 'pixel', 'pix']:
    LIB['astropy.units.' + _u] = Unit((_u,))


# pathlib (only to locate packaged assets) ---------------------------------------------------------------

class PathVal:
    type_tag = 'Path'
    lib_type = ('pathlib.PurePath', 'pathlib.Path')

    def __init__(self, s):
        self.s = s

    def binop_hook(self, interp, op, a, b):
        if op == 'Div':
            return PathVal(str(a.s if isinstance(a, PathVal) else a).rstrip('/') + '/' + str(b.s if isinstance(b, PathVal) else b))
        raise Unsupported("path op")


@lib('pathlib.Path')
def pathlib_path(interp, s):
    if isinstance(s, PathVal):
        return s
    return PathVal(s)


LIBATTR[('Path', 'parent')] = lambda interp, p: PathVal(p.s.rsplit('/', 1)[0] if '/' in p.s else '.')
LIBATTR[('Path', 'resolve')] = lambda interp, p: (lambda i2: p)
# the file system is not modelled: whether a path exists is an arbitrary boolean (any earlier content of the directory)
LIBATTR[('Path', 'exists')] = lambda interp, p: (lambda i2: CTX.fresh('path_exists', 'bool'))
LIBATTR[('Path', 'is_file')] = lambda interp, p: (lambda i2: CTX.fresh('path_is_file', 'bool'))
LIB['builtins.str'] = (lambda old: (lambda interp, x='': x.s if isinstance(x, PathVal) else old(interp, x)))(LIB['builtins.str'])


# astropy.stats / astropy.time (trusted) ------------------------------------------------------------------

@lib('astropy.stats.sigma_clip')
def sigma_clip(interp, data, **kw):
    """Trusted: returns (masked=False) a 1-D array of a subset of the input's elements."""
    data = _as_arr(data)
    flat = A.reshape(data, (data.size(),)) if data.ndim != 1 else data
    snap = flat._snapshot()
    # congruence: a deterministic function of its input - syntactically equal inputs get the same selection
    probe = Sym(z3.Int('clip!probe'), 'int')
    pv = snap((probe,))
    key = (str(Sym.lift(flat.shape[0]).t), str(pv.t) if isinstance(pv, Sym) else repr(pv), repr(sorted(kw.items(), key=str)))
    memo = interp.__dict__.setdefault('sigma_clip_memo', {})
    if key in memo:
        n, sel = memo[key]
    else:
        n = CTX.fresh('nclip', 'int')
        CTX.side.append(And(n >= 0, n <= flat.shape[0], Implies(Sym.lift(flat.shape[0]) >= 1, n >= 1)).t)
        CTX.counter += 1
        sel = z3.Function(f"clipsel!{CTX.counter}", z3.IntSort(), z3.IntSort())
        memo[key] = (n, sel)

    def fn(idx):
        j = Sym(sel(Sym.lift(idx[0]).as_int()), 'int')
        return snap((j,))
    res = SArr((n,), fn, 'real')
    interp.__dict__.setdefault('sigma_clip_calls', []).append((data, res))
    return res


@lib('astropy.time.Time')
def astropy_time(interp, val, format=None, **kw):
    return TimeVal(val, format)


class TimeVal:
    type_tag = 'Time'

    def __init__(self, val, fmt):
        self.val, self.fmt = val, fmt


def _time_unix(interp, t):
    if t.fmt == 'unix':
        return t.val
    if t.fmt == 'mjd':
        return (t.val - 40587) * 86400
    raise Unsupported("Time format")


def _time_mjd(interp, t):
    if t.fmt == 'mjd':
        return t.val
    if t.fmt == 'unix':
        return t.val / 86400 + 40587
    raise Unsupported("Time format")


LIBATTR[('Time', 'unix')] = _time_unix
LIBATTR[('Time', 'mjd')] = _time_mjd


# numpy.fft: the DFT *definition* X[k] = sum_b x[b] * (cos(2 pi b k / n) - i sin(2 pi b k / n)) with the twiddle factors
# as uninterpreted functions of (b, k, n) ------------------------------------------------------------------------------

TW_C = z3.Function('tw_cos', z3.IntSort(), z3.IntSort(), z3.IntSort(), z3.RealSort())
TW_S = z3.Function('tw_sin', z3.IntSort(), z3.IntSort(), z3.IntSort(), z3.RealSort())


def twiddle(b, k, n):
    a = [Sym.lift(v).as_int() for v in (b, k, n)]
    return Sym(TW_C(*a), 'real'), Sym(TW_S(*a), 'real')


def dft_at(row_at, n, k):
    """DFT bin k of the length-n sequence row_at(b) (elements real or complex) as Sum terms."""
    probe = row_at(CTX.fresh('bprobe', 'int'))
    if isinstance(probe, SCplx):
        def re_body(b):
            c, s = twiddle(b, k, n)
            v = SCplx.lift(row_at(b))
            return v.re * c + v.im * s

        def im_body(b):
            c, s = twiddle(b, k, n)
            v = SCplx.lift(row_at(b))
            return v.im * c - v.re * s
    else:
        def re_body(b):
            c, s = twiddle(b, k, n)
            return row_at(b) * c

        def im_body(b):
            c, s = twiddle(b, k, n)
            return -(row_at(b) * s)
    return SCplx(sum_term(n, re_body), sum_term(n, im_body))


def _fft_common(interp, a, n, axis, nbins):
    a = _as_arr(a)
    ax = conc_int(axis)
    if ax is None:
        raise Unsupported("fft symbolic axis")
    if ax < 0:
        ax += a.ndim
    if n is None:
        n = a.shape[ax]
    else:
        same = eq(n, a.shape[ax])
        if not (same is True) and not interp.branch(same):
            raise Unsupported("fft with zero-padding / truncation (n != axis length)")
    snap = a._snapshot()
    out_shape = tuple(nbins(n) if d == ax else s for d, s in enumerate(a.shape))

    def fn(idx):
        k = idx[ax]
        return dft_at(lambda b: snap(tuple(b if d == ax else idx[d] for d in range(a.ndim))), n, k)
    return SArr(out_shape, _memo(fn), 'complex')


@lib('numpy.fft.fft')
def np_fft(interp, a, n=None, axis=-1, **k):
    return _fft_common(interp, a, n, axis, lambda m: m)


@lib('numpy.fft.rfft')
def np_rfft(interp, a, n=None, axis=-1, **k):
    return _fft_common(interp, a, n, axis, lambda m: m // 2 + 1)


@lib('numpy.fft.fftshift')
def np_fftshift(interp, a, axes=None):
    a = _as_arr(a)
    ax = conc_int(axes)
    if ax is None:
        raise Unsupported("fftshift over all axes")
    if ax < 0:
        ax += a.ndim
    n = a.shape[ax]
    snap = a._snapshot()
    # out[i] = in[(i - n//2) mod n]
    return SArr(a.shape, lambda idx: snap(tuple(((idx[d] - n // 2) % n) if d == ax else idx[d] for d in range(a.ndim))), a.dtype)


@lib('scipy.signal.firwin')
def scipy_firwin(interp, numtaps, cutoff=None, window='hamming', scale=True, **k):
    """Trusted: returns `numtaps` real coefficients (uninterpreted function of index, length, window name)."""
    CTX.counter += 1
    f = z3.Function(f"firwin_{window if isinstance(window, str) else 'w'}", z3.IntSort(), z3.IntSort(), z3.RealSort())
    nt = Sym.lift(numtaps).as_int()
    return SArr((numtaps,), lambda idx: Sym(f(nt, Sym.lift(idx[0]).as_int()), 'real'), 'real')


UF_WOFZ_IM = _uf('wofz_im', 2)


def _wofz_scalar(z):
    z = SCplx.lift(z)
    return SCplx(UF_WOFZ_RE(z.re, z.im), UF_WOFZ_IM(z.re, z.im))


@lib('scipy.special.wofz')
def scipy_wofz(interp, z):
    """Faddeeva function: uninterpreted (trusted)."""
    if isinstance(z, SArr):
        return A.elementwise1(z, _wofz_scalar, 'complex')
    return _wofz_scalar(z)



# files --------------------------------------------------------------------------------------------------------

class FileW:
    """A file opened for (binary) writing: byte count plus a structural log of what was written.
    Ghost fields (for loop invariants in callers): nbytes, n_headers, n_data."""
    type_tag = 'filew'

    def __init__(self, name, mode='wb'):
        self.name, self.mode = name, mode
        self.nbytes = 0
        self.log = []            # (kind, length, payload) for writes made outside symbolic loops
        self.n_headers = 0       # ghost: headers completed (maintained by _make_header's contract)
        self.n_data = 0          # ghost: data blobs written
        self.closed = False
        self.order_ok = True     # ghost: header/data alternation respected so far

    def write(self, interp, data):
        I = _I()
        if isinstance(data, I.SStr):
            kind, ln = ('text', data.length)
        elif isinstance(data, (bytes, str)):
            kind, ln = ('text', len(data))
        elif isinstance(data, ByteBlob):
            kind, ln = (data.kind, data.length)
        else:
            raise Unsupported(f"write of {data!r}")
        self.log.append((kind, ln, data))
        self.nbytes = self.nbytes + ln
        if kind == 'array':
            self.order_ok = And(self.order_ok, eq(self.n_headers, self.n_data + 1)) if not isinstance(self.order_ok, bool) or not is_conc(self.n_headers) or not is_conc(self.n_data) \
                else (self.order_ok and self.n_headers == self.n_data + 1)
            self.n_data = self.n_data + 1
        return ln

    def close_ctx(self, interp):
        self.closed = True
        cb = getattr(interp, 'on_file_close', None)
        if cb is not None:
            cb(self)


LIBATTR[('filew', 'write')] = lambda interp, f: (lambda i2, data: f.write(i2, data))
LIBATTR[('filew', 'close')] = lambda interp, f: (lambda i2: f.close_ctx(i2))
LIBATTR[('filew', 'tell')] = lambda interp, f: (lambda i2: f.nbytes)


class TextFileR:
    """A real text file of the repository (packaged assets), read concretely."""
    type_tag = 'textfile'

    def __init__(self, path):
        with open(path) as fh:
            self.lines = fh.readlines()

    def close_ctx(self, interp):
        pass


LIBATTR[('textfile', 'readlines')] = lambda interp, f: (lambda i2: list(f.lines))


@lib('glob.glob')
def glob_glob(interp, pattern, **k):
    h = getattr(interp, 'glob_hook', None)
    if h is None:
        raise Unsupported("glob without a directory model")
    return h(pattern)


@lib('numpy.asnumpy')
def np_asnumpy(interp, *a, **k):
    # numpy has no asnumpy (cupy does): the code's `except AttributeError` branch is the one taken with xp = numpy
    raise PyRaise('AttributeError', "module 'numpy' has no attribute 'asnumpy'")


# =====================================================================================
# blimpy (external, assumed contract): Waterfall(filename, f_start, f_stop, t_start, t_stop, load_data) is a record of the
# file's header plus the requested selection; which channels blimpy then selects for a frequency range is its own business
# (bounded native runs compare against it).

@lib('blimpy.Waterfall')
def blimpy_waterfall(interp, filename=None, f_start=None, f_stop=None, t_start=None, t_stop=None, load_data=True, **kw):
    I = _I()
    files = getattr(interp, 'blimpy_files', None)
    key = filename if isinstance(filename, str) else getattr(filename, 's', None)
    if files is None or key not in files:
        raise Unsupported("blimpy.Waterfall of an unmodelled file")
    info = files[key]
    cont = I.SObj(None, {'selection_shape': tuple(info['selection_shape']), 'filename': key}, tag='container')
    return I.SObj(None, {'header': dict(info['header']), 'container': cont, 'filename': key,
                         'selection': {'f_start': f_start, 'f_stop': f_stop, 't_start': t_start, 't_stop': t_stop, 'load_data': load_data}}, tag='Waterfall')


@lib('os.path.getmtime')
def os_getmtime(interp, path):
    """Modification time of a file: an arbitrary real number per path (the file system is not modelled)."""
    memo = interp.__dict__.setdefault('mtime_memo', {})
    k = path.s if hasattr(path, 's') else str(path)
    if k not in memo:
        memo[k] = CTX.fresh('mtime', 'real')
    return memo[k]


def _np_binary_ufunc(op):
    def f(interp, a, b, out=None, where=True, **kw):
        """numpy binary ufunc with the optional out= / where= arguments: positions where the mask is false keep what `out` held."""
        res = _binop(interp, op, a, b)
        if out is None:
            if where is not True:
                raise Unsupported("ufunc where= without out=")
            return res
        if not isinstance(out, SArr):
            raise Unsupported("ufunc out= that is not an array")
        res = res if isinstance(res, SArr) else SArr(out.shape, (lambda v: (lambda idx: v))(res), 'real')
        rs = res._snapshot()
        if where is True:
            A.setitem(out, tuple(slice(None) for _ in out.shape), SArr(res.shape, rs, res.dtype))
            return out
        if not isinstance(where, SArr):
            raise Unsupported("ufunc where= that is not an array")
        ms = where._snapshot()
        old = out._snapshot()
        merged = SArr(out.shape, lambda idx: sym_if(to_bool(ms(idx)) if not isinstance(ms(idx), bool) else Sym.lift(ms(idx)), rs(idx), old(idx)), out.dtype)
        A.setitem(out, tuple(slice(None) for _ in out.shape), merged)
        return out
    return f


LIB['numpy.add'] = _np_binary_ufunc('Add')
LIB['numpy.subtract'] = _np_binary_ufunc('Sub')
LIB['numpy.multiply'] = _np_binary_ufunc('Mult')
