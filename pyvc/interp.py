"""Symbolic interpreter over the Python AST of the real /repo source.

The source files are re-read and re-parsed on every run; nothing of the repository is
copied into /verif.  Execution explores one path at a time; path forking is done by
re-execution with a decision prefix (see vc.Explorer).
"""
import ast
import os
import hashlib
import z3
from fractions import Fraction
from .sym import (Sym, SCplx, CTX, is_conc, sym_if, And, Or, Not, Implies, to_int, to_bool, eq,
                  round_half_even, smin, smax, SymbolicBranch, to_float, _q)
from .arr import (SArr, PyRaise, Unsupported, conc_int, getitem as arr_getitem,
                  setitem as arr_setitem, elementwise2, elementwise1, from_list, NEWAXIS)
from .heap import ObjRef, SList, DictRef, RefHeap, Opaque
from .rawfile import RawFileR, Chunk, CardStr, CardKey, HeaderVal, SymDict, Layout

REPO = os.environ.get('VERIF_REPO', '/repo')

_CURRENT = [None]


def current_interp():
    return _CURRENT[0]


class PathEnd(Exception):
    """Terminate the current path silently (infeasible, or preservation branch finished)."""


class _Return(Exception):
    def __init__(self, value):
        self.value = value


class _Break(Exception):
    pass


class _Continue(Exception):
    pass


# -------------------------------------------------------------------------------------
# program entities

class ModuleInfo:
    def __init__(self, name, path, tree, source):
        self.name = name
        self.path = path
        self.tree = tree
        self.source = source
        self.functions = {}
        self.classes = {}
        self.globals = None     # evaluated lazily per interpreter


class FunctionInfo:
    def __init__(self, module, node, cls=None):
        self.module = module
        self.node = node
        self.cls = cls
        self.name = node.name
        self.qualname = (cls.name + '.' if cls else '') + node.name
        self.key = f"{module.name}:{self.qualname}"
        self.decorators = [ast.unparse(d) for d in node.decorator_list]
        self.is_property = 'property' in self.decorators
        # functools.cached_property: computed on first access, then stored in the instance dictionary (later accesses read the stored value)
        self.is_cached_property = any(d in ('functools.cached_property', 'cached_property') for d in self.decorators)
        self.is_classmethod = 'classmethod' in self.decorators
        self.is_static = 'staticmethod' in self.decorators

    def source_hash(self):
        seg = ast.get_source_segment(self.module.source, self.node) or ''
        return hashlib.sha256(seg.encode()).hexdigest()[:16]


class ClassInfo:
    def __init__(self, module, node):
        self.module = module
        self.node = node
        self.name = node.name
        self.methods = {}
        self.base_exprs = node.bases
        self.bases = None

    def __repr__(self):
        return f"<class {self.module.name}.{self.name}>"


_NOVAL = object()


class SObj:
    """Heap object of a repository class (or an ad-hoc record when cls is None)."""

    def __init__(self, cls, fields=None, tag=None, partial=False):
        self.cls = cls
        self.fields = dict(fields or {})
        self.tag = tag
        self.partial = partial      # a field record written by a contract (not built by the real constructor)

    def __repr__(self):
        return f"<SObj {self.cls.name if self.cls else self.tag}>"


class ClassRef:
    def __init__(self, cls):
        self.cls = cls


class Closure:
    def __init__(self, finfo_or_lambda, env_chain, module, defaults=None, kwdefaults=None, name=None):
        self.node = finfo_or_lambda
        self.env_chain = env_chain
        self.module = module
        self.defaults = defaults
        self.kwdefaults = kwdefaults
        self.name = name or getattr(finfo_or_lambda, 'name', '<lambda>')
        self.finfo = None


class BoundMethod:
    def __init__(self, obj, func):
        self.obj = obj
        self.func = func       # Closure


class LibRef:
    """Reference into a modelled library namespace, e.g. LibRef('numpy.linspace')."""

    def __init__(self, path):
        self.path = path

    def __repr__(self):
        return f"LibRef({self.path})"

    def __eq__(self, o):
        return isinstance(o, LibRef) and o.path == self.path

    def __hash__(self):
        return hash(self.path)


class BuiltinType:
    def __init__(self, name):
        self.name = name

    def __repr__(self):
        return f"<type {self.name}>"


class SFunc:
    """Uninterpreted user callable (applied pointwise on arrays).  `arity` real arguments."""

    def __init__(self, name, arity=1, may_raise=None, complex_out=False):
        self.name = name
        self.arity = arity
        self.f = z3.Function(name, *([z3.RealSort()] * arity), z3.RealSort())
        self.fi = z3.Function(name + '_im', *([z3.RealSort()] * arity), z3.RealSort()) if complex_out else None
        self.may_raise = may_raise
        self.calls = 0

    def apply_scalar(self, *xs):
        ts = [(Sym.lift(x) if not isinstance(x, Sym) else x).as_real() for x in xs]
        if self.fi is not None:
            return SCplx(Sym(self.f(*ts), 'real'), Sym(self.fi(*ts), 'real'))
        return Sym(self.f(*ts), 'real')


class SStr:
    """Partially symbolic string / bytes: known length term, optional concrete text, symbolic predicates."""
    _n = [0]

    def __init__(self, length, text=None, tag=None, is_bytes=False):
        self.length = length
        self.text = text
        self.tag = tag
        self.is_bytes = is_bytes
        SStr._n[0] += 1
        self.sid = SStr._n[0]
        self.preds = {}

    @property
    def type_tag(self):
        return 'bytes' if self.is_bytes else 'str'

    def pred(self, name):
        if name not in self.preds:
            self.preds[name] = CTX.fresh(f'str{self.sid}_{name}', 'bool')
        return self.preds[name]

    def contains_hook(self, interp, item):
        if isinstance(item, str) and item == "'":
            CTX.side.append(Implies(self.pred('starts_quote'), self.pred('has_quote')).t)
            return self.pred('has_quote')
        raise Unsupported(f"substring test {item!r} on a symbolic string")

    def compare_hook(self, interp, op, a, b):
        if op == 'Eq':
            if a is b:
                return True
            other = b if a is self else a
            if isinstance(other, (str, bytes)):
                if is_conc(self.length) and len(other) != self.length:
                    return False
                # equality with a literal: a symbolic predicate that forces the length
                pr = self.pred('eq_' + ''.join(c if c.isalnum() else '_' for c in str(other)))
                CTX.side.append(Implies(pr, eq(self.length, len(other))).t)
                return pr
            raise Unsupported("equality of symbolic strings")
        raise Unsupported("ordering of symbolic strings")

    def __repr__(self):
        return f"SStr(len={self.length}, text={self.text!r})"


class SChar:
    """One character of a symbolic string."""
    type_tag = 'str'

    def __init__(self, of, idx):
        self.of, self.idx = of, idx
        self.length = 1

    def compare_hook(self, interp, op, a, b):
        other = b if a is self else a
        if op == 'Eq' and other == "'" and conc_int(self.idx) == 0:
            return self.of.pred('starts_quote')
        raise Unsupported("comparison of a symbolic character")


def _sstr_getitem(interp, s):
    def g(interp2, key):
        if isinstance(key, slice):
            raise Unsupported("slice of a symbolic string")
        if not interp2.branch(Sym.lift(s.length) > key if not (is_conc(s.length) and is_conc(key)) else s.length > key):
            raise PyRaise('IndexError', 'string index out of range')
        return SChar(s, key)
    return g


EXC_HIERARCHY = {
    'BaseException': None, 'Exception': 'BaseException', 'ValueError': 'Exception',
    'TypeError': 'Exception', 'IndexError': 'LookupError', 'KeyError': 'LookupError',
    'LookupError': 'Exception', 'AttributeError': 'Exception', 'AssertionError': 'Exception',
    'FileNotFoundError': 'OSError', 'OSError': 'Exception', 'ZeroDivisionError': 'ArithmeticError',
    'ArithmeticError': 'Exception', 'ImportError': 'Exception', 'RuntimeError': 'Exception',
    'NotImplementedError': 'RuntimeError', 'StopIteration': 'Exception', 'UserError': 'Exception',
    'KeyboardInterrupt': 'BaseException', 'SystemExit': 'BaseException', 'GeneratorExit': 'BaseException',
}


def exc_isinstance(name, handler):
    while name is not None:
        if name == handler:
            return True
        name = EXC_HIERARCHY.get(name, 'Exception' if name not in ('BaseException',) else None)
        if name == 'Exception' and handler == 'Exception':
            return True
    return False


class ExcType:
    def __init__(self, name):
        self.name = name


class ExcValue:
    def __init__(self, name, args=()):
        self.name = name
        self.args = args


# -------------------------------------------------------------------------------------

class Interp:
    def __init__(self, vc=None, repo=None):
        self.repo = repo or REPO
        self.modules = {}
        self.vc = vc
        self.loop_specs = {}
        self.call_specs = {}        # function key -> callable(interp, finfo, args, kwargs) (modular call)
        self.call_stack = []
        self.lib = None
        self.used_functions = {}    # key -> source hash
        self.inlined = set()
        self.dropped = set()
        self.heap_writes = []       # (obj, field) log of attribute writes
        self.reads_unlisted = []    # wall clock / unseeded RNG reads
        self.max_unroll = 64
        from . import lib as _lib
        self.lib = _lib.LIB
        self.libattr = _lib.LIBATTR
        _CURRENT[0] = self

    # -- decisions (delegated to the explorer) -----------------------------------------
    def branch(self, cond):
        if isinstance(cond, bool):
            return cond
        if not isinstance(cond, Sym):
            return bool(cond)
        c = cond.concrete()
        if c is not None:
            return bool(c)
        return self.vc.decide(cond)

    def choose(self, n, label=''):
        return self.vc.choose(n, label)

    # -- module loading ------------------------------------------------------------------
    def load_module(self, name):
        if name in self.modules:
            return self.modules[name]
        rel = name.replace('.', '/')
        path = os.path.join(self.repo, rel + '.py')
        if not os.path.exists(path):
            path = os.path.join(self.repo, rel, '__init__.py')
        if not os.path.exists(path):
            raise Unsupported(f"module {name} not found in repository")
        with open(path) as f:
            src = f.read()
        tree = ast.parse(src)
        m = ModuleInfo(name, path, tree, src)
        for node in tree.body:
            if isinstance(node, ast.FunctionDef):
                m.functions[node.name] = FunctionInfo(m, node)
            elif isinstance(node, ast.ClassDef):
                ci = ClassInfo(m, node)
                for sub in node.body:
                    if isinstance(sub, ast.FunctionDef):
                        ci.methods.setdefault(sub.name, []).append(FunctionInfo(m, sub, ci))
                m.classes[node.name] = ci
        self.modules[name] = m
        return m

    def module_globals(self, m):
        if m.globals is not None:
            return m.globals
        g = {}
        m.globals = g
        pkg = m.name.rsplit('.', 1)[0] if '.' in m.name else m.name
        if m.path.endswith('__init__.py'):
            pkg = m.name
        for node in m.tree.body:
            if isinstance(node, ast.Import):
                for a in node.names:
                    g[(a.asname or a.name.split('.')[0])] = self.import_name(a.name if a.asname else a.name.split('.')[0])
            elif isinstance(node, ast.ImportFrom):
                base = node.module or ''
                if node.level:
                    parts = pkg.split('.')
                    if node.level > 1:
                        parts = parts[:-(node.level - 1)]
                    base = '.'.join(parts + ([base] if base else []))
                for a in node.names:
                    g[a.asname or a.name] = self.import_from(base, a.name)
            elif isinstance(node, ast.FunctionDef):
                g[node.name] = self.make_closure(m.functions[node.name], [g], m)
            elif isinstance(node, ast.ClassDef):
                g[node.name] = ClassRef(m.classes[node.name])
            elif isinstance(node, ast.Assign):
                # module-level constants: evaluate when simple
                try:
                    v = self.eval(node.value, Env(g, [], m))
                    for t in node.targets:
                        if isinstance(t, ast.Name):
                            g[t.id] = v
                except (Unsupported, PyRaise, SymbolicBranch, KeyError):
                    pass
            elif isinstance(node, (ast.If, ast.Try)):
                # the cupy/numpy switch and cPickle fallback: bind xp/np/pickle
                for sub in ast.walk(node):
                    if isinstance(sub, ast.Import):
                        for a in sub.names:
                            nm = a.asname or a.name.split('.')[0]
                            if a.name == 'cupy':
                                continue
                            if a.name == 'cPickle':
                                continue
                            g[nm] = self.import_name(a.name)
        return g

    def import_name(self, name):
        if name == 'setigen' or name.startswith('setigen.'):
            return ModuleRef(self, name)
        return LibRef(name)

    def import_from(self, base, name):
        if base == 'setigen' or base.startswith('setigen.'):
            # submodule or attribute
            sub = base + '.' + name
            rel = sub.replace('.', '/')
            if os.path.exists(os.path.join(self.repo, rel + '.py')) or os.path.exists(os.path.join(self.repo, rel, '__init__.py')):
                return ModuleRef(self, sub)
            m = self.load_module(base)
            g = self.module_globals(m)
            if name in g:
                return g[name]
            raise Unsupported(f"cannot import {name} from {base}")
        return LibRef(base + '.' + name)

    def make_closure(self, finfo, env_chain, module):
        c = Closure(finfo.node, env_chain, module, name=finfo.name)
        c.finfo = finfo
        return c

    # -- class helpers -------------------------------------------------------------------
    def class_bases(self, ci):
        if ci.bases is None:
            ci.bases = []
            g = self.module_globals(ci.module)
            for b in ci.base_exprs:
                try:
                    v = self.eval(b, Env(g, [], ci.module))
                except Exception:
                    v = None
                if isinstance(v, ClassRef):
                    ci.bases.append(v.cls)
                elif isinstance(v, LibRef) and v.path.startswith('collections.abc.'):
                    ci.bases.append(self.stdlib_abc_class(v.path.split('.')[-1]))
                elif isinstance(v, LibRef):
                    ci.bases.append(v)
        return ci.bases

    def stdlib_abc_class(self, name):
        """collections.abc mixins are verified from their stdlib definition: the class is extracted from
        the _collections_abc.py of the interpreter that runs the repository (/venv)."""
        m = self.modules.get('_collections_abc')
        if m is None:
            path = stdlib_abc_path()
            with open(path) as f:
                src = f.read()
            tree = ast.parse(src)
            m = ModuleInfo('_collections_abc', path, tree, src)
            m.globals = {}
            for node in tree.body:
                if isinstance(node, ast.ClassDef):
                    ci = ClassInfo(m, node)
                    ci.base_exprs = [b for b in node.bases]
                    for sub in node.body:
                        if isinstance(sub, ast.FunctionDef):
                            ci.methods.setdefault(sub.name, []).append(FunctionInfo(m, sub, ci))
                    m.classes[node.name] = ci
                    m.globals[node.name] = ClassRef(ci)
            self.modules['_collections_abc'] = m
        if name not in m.classes:
            raise Unsupported(f"collections.abc.{name} not found in stdlib source")
        return m.classes[name]

    def mro(self, ci):
        out = [ci]
        for b in self.class_bases(ci):
            if isinstance(b, ClassInfo):
                for x in self.mro(b):
                    if x not in out:
                        out.append(x)
        return out

    def lib_bases(self, ci):
        out = []
        for c in self.mro(ci):
            for b in self.class_bases(c):
                if isinstance(b, LibRef):
                    out.append(b)
        return out

    def find_method(self, ci, name, after=None):
        """Return list of FunctionInfo (getter first) of the first class in the MRO defining name."""
        mro = self.mro(ci)
        if after is not None:
            mro = mro[mro.index(after) + 1:]
        for c in mro:
            if name in c.methods:
                return c.methods[name]
        return None

    def is_subclass(self, ci, target):
        return target in self.mro(ci)

    # -- function lookup from "module:qualname" ------------------------------------------
    def lookup(self, key):
        modname, qual = key.split(':')
        m = self.load_module(modname)
        parts = qual.split('.')
        if len(parts) == 1:
            if parts[0] not in m.functions:
                raise Unsupported(f"function {key} not found (renamed or removed?)")
            return m.functions[parts[0]]
        ci = m.classes.get(parts[0])
        if ci is None or parts[1] not in ci.methods:
            raise Unsupported(f"method {key} not found (renamed or removed?)")
        return ci.methods[parts[1]][0]

    def call_key(self, key, *args, **kwargs):
        fi = self.lookup(key)
        clo = self.make_closure(fi, [self.module_globals(fi.module)], fi.module)
        return self.call_closure(clo, list(args), dict(kwargs), force_inline=True)

    # -- calling -------------------------------------------------------------------------
    def call(self, f, args, kwargs):
        if isinstance(f, BoundMethod):
            return self.call(f.func, [f.obj] + list(args), kwargs)
        if isinstance(f, Closure):
            return self.call_closure(f, args, kwargs)
        if isinstance(f, ClassRef):
            return self.instantiate(f.cls, args, kwargs)
        if isinstance(f, LibRef):
            fn = self.lib.get(f.path)
            if fn is None:
                raise Unsupported(f"no library model for {f.path}")
            return fn(self, *args, **kwargs)
        if isinstance(f, SFunc):
            return self.call_sfunc(f, args)
        if isinstance(f, BuiltinType):
            fn = self.lib.get('builtins.' + f.name)
            if fn is None:
                raise Unsupported(f"builtin type call {f.name}")
            return fn(self, *args, **kwargs)
        if isinstance(f, ExcType):
            return ExcValue(f.name, tuple(args))
        if callable(f):
            return f(self, *args, **kwargs)
        raise PyRaise('TypeError', f"object is not callable: {f!r}")

    def call_sfunc(self, f, args):
        f.calls += 1
        if f.may_raise is not None:
            if self.branch(f.may_raise(f.calls)):
                raise PyRaise('UserError', f'user callable {f.name} raised')
        arrs = [a for a in args if isinstance(a, SArr)]
        if not arrs:
            return f.apply_scalar(*args)
        if len(args) == 1:
            a = args[0]
            snap = a._snapshot()
            return SArr(a.shape, lambda idx: f.apply_scalar(snap(idx)), 'complex' if f.fi is not None else 'real')
        a, b = args
        return elementwise2(a, b, lambda x, y: f.apply_scalar(x, y), '/')

    def bind_args(self, clo, args, kwargs):
        node = clo.node
        a = node.args
        env = {}
        params = [p.arg for p in a.posonlyargs + a.args]
        defaults = self.closure_defaults(clo)
        nargs = len(args)
        if nargs > len(params) and a.vararg is None:
            raise PyRaise('TypeError', f"{clo.name}() takes {len(params)} positional arguments but {nargs} were given")
        for i, p in enumerate(params):
            if i < nargs:
                env[p] = args[i]
        if a.vararg is not None:
            env[a.vararg.arg] = tuple(args[len(params):])
        kw = dict(kwargs)
        for p in params:
            if p in kw:
                if p in env:
                    raise PyRaise('TypeError', f"{clo.name}() got multiple values for argument '{p}'")
                env[p] = kw.pop(p)
        for p in a.kwonlyargs:
            if p.arg in kw:
                env[p.arg] = kw.pop(p.arg)
        if a.kwarg is not None:
            env[a.kwarg.arg] = kw
        elif kw:
            raise PyRaise('TypeError', f"{clo.name}() got an unexpected keyword argument '{list(kw)[0]}'")
        nd = len(defaults[0])
        for i, p in enumerate(params):
            if p not in env:
                j = i - (len(params) - nd)
                if j < 0:
                    raise PyRaise('TypeError', f"{clo.name}() missing required argument '{p}'")
                env[p] = defaults[0][j]
        for p, d in zip(a.kwonlyargs, defaults[1]):
            if p.arg not in env:
                if d is _MISSING:
                    raise PyRaise('TypeError', f"missing kw-only argument {p.arg}")
                env[p.arg] = d
        return env

    def closure_defaults(self, clo):
        """Defaults are evaluated once per function object (shared between calls)."""
        if clo.defaults is None:
            key = id(clo.node)
            cache = self.__dict__.setdefault('_defaults_cache', {})
            if key not in cache or not isinstance(clo.node, ast.FunctionDef) or clo.finfo is None:
                e = Env({}, clo.env_chain, clo.module)
                d = [self.eval(x, e) for x in clo.node.args.defaults]
                kd = [(self.eval(x, e) if x is not None else _MISSING) for x in clo.node.args.kw_defaults]
                if clo.finfo is None:
                    clo.defaults = (d, kd)
                    return clo.defaults
                cache[key] = (d, kd)
            clo.defaults = cache[key]
        return clo.defaults

    def call_closure(self, clo, args, kwargs, force_inline=False):
        if clo.finfo is not None and not force_inline and clo.finfo.key in self.call_specs:
            return self.call_specs[clo.finfo.key](self, clo, args, kwargs)
        env_vars = self.bind_args(clo, args, kwargs)
        env = Env(env_vars, clo.env_chain, clo.module)
        if clo.finfo is not None:
            self.used_functions[clo.finfo.key] = clo.finfo.source_hash()
            env.func_key = clo.finfo.key
            env.cls = clo.finfo.cls
        else:
            env.func_key = getattr(clo, 'func_key', None) or clo.name
        env.loop_counter = [0]
        env.loop_ids = _loop_ids(clo.node)
        if len(self.call_stack) > 60:
            raise Unsupported("call depth exceeded")
        self.call_stack.append(env.func_key)
        if force_inline:
            self.last_locals = env.vars
        try:
            if isinstance(clo.node, ast.Lambda):
                return self.eval(clo.node.body, env)
            if _is_generator(clo.node):
                return GeneratorValue(self, clo, env)
            try:
                self.exec_block(clo.node.body, env)
            except _Return as r:
                return r.value
            return None
        finally:
            self.call_stack.pop()

    def instantiate(self, ci, args, kwargs):
        obj = SObj(ci)
        init = self.find_method(ci, '__init__')
        if init is not None:
            fi = init[0]
            clo = self.make_closure(fi, [self.module_globals(fi.module)], fi.module)
            self.call_closure(clo, [obj] + list(args), kwargs)
        return obj

    # -- attribute access ----------------------------------------------------------------
    def getattr(self, obj, name):
        if isinstance(obj, ObjRef):
            if obj.cls is not None:
                if name == '__class__':
                    return ClassRef(obj.cls)
                ms = self.find_method(obj.cls, name)
                if ms is not None:
                    fi = ms[0]
                    clo = self.make_closure(fi, [self.module_globals(fi.module)], fi.module)
                    if fi.is_property:
                        return self.call_closure(clo, [obj], {})
                    if fi.is_classmethod:
                        return BoundMethod(ClassRef(obj.cls), clo)
                    return BoundMethod(obj, clo)
            kind = obj.heap.kinds.get(name)
            if isinstance(kind, tuple) and kind[0] == 'dict':
                return DictRef(obj.heap, name, obj.ref_id, kind[1])
            return obj.heap.read(name, obj.ref_id)
        if isinstance(obj, SObj):
            if name in obj.fields:
                return obj.fields[name]
            if name == '__dict__':
                return obj.fields
            if name == '__class__':
                return ClassRef(obj.cls)
            if obj.cls is not None:
                ms = self.find_method(obj.cls, name)
                if ms is not None:
                    fi = ms[0]
                    clo = self.make_closure(fi, [self.module_globals(fi.module)], fi.module)
                    if fi.is_property:
                        return self.call_closure(clo, [obj], {})
                    if fi.is_cached_property:
                        v = self.call_closure(clo, [obj], {})
                        obj.fields[name] = v
                        return v
                    if fi.is_classmethod:
                        return BoundMethod(ClassRef(obj.cls), clo)
                    if fi.is_static:
                        return clo
                    return BoundMethod(obj, clo)
                for lb in self.lib_bases(obj.cls):
                    fn = self.libattr.get((lb.path, name))
                    if fn is not None:
                        return fn(self, obj)
            if obj.partial:
                # the contract's record of this object does not model the field: undecided, never a violation
                raise Unsupported(f"field '{name}' is not modelled in the contract's record of {obj.cls.name if obj.cls else obj.tag}")
            raise PyRaise('AttributeError', f"object has no attribute '{name}'")
        if isinstance(obj, ModuleRef):
            return obj.get(name)
        if isinstance(obj, SuperProxy):
            inst = obj.obj
            ms = self.find_method(inst.cls, name, after=obj.cls)
            if ms is None:
                if name == '__init__':
                    return lambda interp, *a, **k: None
                raise PyRaise('AttributeError', f"super object has no attribute '{name}'")
            fi = ms[0]
            clo = self.make_closure(fi, [self.module_globals(fi.module)], fi.module)
            return BoundMethod(inst, clo)
        if isinstance(obj, ClassRef):
            ms = self.find_method(obj.cls, name)
            if ms is not None:
                fi = ms[0]
                clo = self.make_closure(fi, [self.module_globals(fi.module)], fi.module)
                if fi.is_classmethod:
                    return BoundMethod(obj, clo)
                return clo
            if name == '__name__':
                return obj.cls.name
            raise PyRaise('AttributeError', name)
        if isinstance(obj, LibRef):
            p = obj.path + '.' + name
            if p.startswith('cupy.'):
                p = 'numpy.' + p[5:]
            if p == 'numpy.pi':
                from .lib import PI
                return PI
            if p == 'numpy.newaxis':
                return None
            v = self.lib.get(p)
            if v is not None and not callable(v):
                return v
            return LibRef(p)
        if isinstance(obj, RawFileR):
            if name == 'read':
                return lambda interp, *a: obj.read(interp, *a)
            if name == 'close':
                return lambda interp: obj.close_ctx(interp)
        if isinstance(obj, Chunk) and name == 'decode':
            return lambda interp, *a: obj.decode(interp, *a)
        if isinstance(obj, tuple) and len(obj) == 3 and obj[0] == 'cardslice' and name == 'strip':
            return lambda interp, *a: (CardKey(obj[2].layout, obj[2].idx) if obj[1] == 'key' else HeaderVal(obj[2].layout, idx=obj[2].idx))
        if isinstance(obj, HeaderVal) and name in ('strip', 'lstrip', 'rstrip'):
            return lambda interp, *a: obj
        if isinstance(obj, SymDict) and name == 'get':
            return lambda interp, key, default=None: obj.get(interp, key, default)
        if isinstance(obj, SStr):
            from . import lib as _l
            if name == 'encode' or name == 'decode':
                return _l._sstr_encode(self, obj)
            if name in ('strip', 'lstrip', 'rstrip'):
                return _l._sstr_strip(self, obj)
            if name == '__getitem__':
                return _sstr_getitem(self, obj)
        fn = self.libattr.get((type_tag(obj), name))
        if fn is not None:
            return fn(self, obj)
        if obj is None:
            raise PyRaise('AttributeError', f"'NoneType' object has no attribute '{name}'")
        raise Unsupported(f"attribute {name} of {type_tag(obj)} ({obj!r})")

    def setattr(self, obj, name, value):
        if isinstance(obj, ObjRef):
            obj.heap.write(name, obj.ref_id, value)
            return
        if isinstance(obj, SObj):
            obj.fields[name] = value
            self.heap_writes.append((obj, name))
            return
        raise Unsupported(f"setattr on {obj!r}")

    # -- statements ----------------------------------------------------------------------
    def exec_block(self, stmts, env):
        for s in stmts:
            self.exec_stmt(s, env)

    def exec_stmt(self, s, env):
        m = getattr(self, 'st_' + type(s).__name__, None)
        if m is None:
            raise Unsupported(f"statement {type(s).__name__} at {env.module.name}:{s.lineno}")
        return m(s, env)

    def st_Expr(self, s, env):
        if isinstance(s.value, ast.Constant):
            return
        self.eval(s.value, env)

    def st_Pass(self, s, env):
        pass

    def st_Import(self, s, env):
        for a in s.names:
            env.set(a.asname or a.name.split('.')[0], self.import_name(a.name))

    def st_ImportFrom(self, s, env):
        for a in s.names:
            env.set(a.asname or a.name, self.import_from(s.module, a.name))

    def st_Return(self, s, env):
        raise _Return(self.eval(s.value, env) if s.value is not None else None)

    def st_Break(self, s, env):
        raise _Break()

    def st_Continue(self, s, env):
        raise _Continue()

    def st_Assign(self, s, env):
        v = self.eval(s.value, env)
        for t in s.targets:
            self.assign(t, v, env)

    def st_AnnAssign(self, s, env):
        if s.value is not None:
            self.assign(s.target, self.eval(s.value, env), env)

    def st_AugAssign(self, s, env):
        t = s.target
        op = type(s.op).__name__
        if isinstance(t, ast.Name):
            cur = env.get(t.id)
            r = self.binop(op, cur, self.eval(s.value, env), inplace=True)
            env.set(t.id, r)
        elif isinstance(t, ast.Attribute):
            obj = self.eval(t.value, env)
            cur = self.getattr(obj, t.attr)
            r = self.binop(op, cur, self.eval(s.value, env), inplace=True)
            self.setattr(obj, t.attr, r)
        elif isinstance(t, ast.Subscript):
            obj = self.eval(t.value, env)
            key = self.eval_index(t.slice, env)
            if isinstance(obj, SArr) and isinstance(key, SArr) and key.dtype == 'bool':
                # A[mask] op= v  ==  A = where(mask, A op v, A)   (in place)
                val = self.eval(s.value, env)
                if isinstance(val, SArr):
                    raise Unsupported("masked in-place update with an array operand")
                snap = obj._snapshot()
                msnap = key._snapshot()
                lib = self.lib['builtins.__binop__']
                obj.write_region(lambda idx: msnap(idx), lambda idx: lib(self, op, snap(idx), val))
                return
            cur = self.getitem(obj, key)
            if isinstance(cur, SArr) and cur.base is not None:
                cur = cur.copy()
            r = self.binop(op, cur, self.eval(s.value, env), inplace=True)
            self.setitem(obj, key, r)
        else:
            raise Unsupported("augassign target")

    def st_Delete(self, s, env):
        for t in s.targets:
            if isinstance(t, ast.Subscript):
                obj = self.eval(t.value, env)
                key = self.eval_index(t.slice, env)
                self.delitem(obj, key)
            elif isinstance(t, ast.Attribute):
                obj = self.eval(t.value, env)
                if isinstance(obj, SObj):
                    if t.attr not in obj.fields:
                        raise PyRaise('AttributeError', t.attr)
                    del obj.fields[t.attr]
                    self.heap_writes.append((obj, t.attr))
                elif obj is None:
                    raise PyRaise('AttributeError', f"'NoneType' object has no attribute '{t.attr}'")
                else:
                    raise Unsupported("del attribute")
            elif isinstance(t, ast.Name):
                env.delete(t.id)
            else:
                raise Unsupported("del target")

    def st_If(self, s, env):
        c = self.truth(self.eval(s.test, env))
        if self.branch(c):
            self.exec_block(s.body, env)
        else:
            self.exec_block(s.orelse, env)

    def st_Assert(self, s, env):
        c = self.truth(self.eval(s.test, env))
        if not self.branch(c):
            raise PyRaise('AssertionError', ast.unparse(s.test))

    def st_Raise(self, s, env):
        if s.exc is None:
            if env.current_exc is not None:
                raise env.current_exc
            raise PyRaise('RuntimeError', 'no active exception')
        v = self.eval(s.exc, env)
        if isinstance(v, ExcType):
            raise PyRaise(v.name, '')
        if isinstance(v, ExcValue):
            raise PyRaise(v.name, ' '.join(str(a) for a in v.args)[:200])
        raise Unsupported(f"raise of {v!r}")

    def st_Try(self, s, env):
        # engine-level control exceptions (PathEnd: the symbolic path stops here; Unsupported) are not program
        # exceptions: no handler and no finally block of the interpreted program runs for them
        try:
            try:
                self.exec_block(s.body, env)
            except PyRaise as e:
                handled = False
                for h in s.handlers:
                    if self.handler_matches(h, e, env):
                        handled = True
                        if h.name:
                            env.set(h.name, ExcValue(e.exc_type, (e.msg,)))
                        saved = env.current_exc
                        env.current_exc = e
                        try:
                            self.exec_block(h.body, env)
                        finally:
                            env.current_exc = saved
                        break
                if not handled:
                    raise
            else:
                self.exec_block(s.orelse, env)
        except (PathEnd, Unsupported, SymbolicBranch):
            raise
        except BaseException:
            if s.finalbody:
                self.exec_block(s.finalbody, env)
            raise
        else:
            if s.finalbody:
                self.exec_block(s.finalbody, env)

    def handler_matches(self, h, e, env):
        if h.type is None:
            return True
        t = self.eval(h.type, env)
        ts = t if isinstance(t, tuple) else (t,)
        for x in ts:
            if isinstance(x, ExcType) and exc_isinstance(e.exc_type, x.name):
                return True
        return False

    def st_With(self, s, env):
        mgrs = []
        for item in s.items:
            m = self.eval(item.context_expr, env)
            mgrs.append(m)
            if item.optional_vars is not None:
                self.assign(item.optional_vars, m, env)
        try:
            self.exec_block(s.body, env)
        except (PathEnd, Unsupported, SymbolicBranch):
            raise
        except BaseException:
            self._exit_with(mgrs)
            raise
        else:
            self._exit_with(mgrs)

    def _exit_with(self, mgrs):
        for m in reversed(mgrs):
            close = getattr(m, 'close_ctx', None)
            if close is not None:
                close(self)

    def st_FunctionDef(self, s, env):
        clo = Closure(s, [env.vars] + env.chain, env.module, name=s.name)
        clo.func_key = (getattr(env, 'func_key', '') or '') + '.<locals>.' + s.name
        env.set(s.name, clo)

    def st_Global(self, s, env):
        raise Unsupported("global statement")

    def st_For(self, s, env):
        ordinal = env.next_loop(s)
        it = self.eval(s.iter, env)
        spec = self.loop_specs.get((getattr(env, 'func_key', None), ordinal))
        if spec is not None and not isinstance(it, (list, tuple)):
            return self.for_with_invariant(s, env, it, spec, ordinal)
        seq = self.concrete_iter(it)
        if seq is None:
            raise Unsupported(f"loop {env.func_key}/loop#{ordinal} over symbolic-length iterable needs an invariant")
        broke = False
        for x in seq:
            self.assign(s.target, x, env)
            try:
                self.exec_block(s.body, env)
            except _Break:
                broke = True
                break
            except _Continue:
                continue
        if not broke:
            self.exec_block(s.orelse, env)

    def st_While(self, s, env):
        ordinal = env.next_loop(s)
        spec = self.loop_specs.get((getattr(env, 'func_key', None), ordinal))
        if spec is not None:
            return self.while_with_invariant(s, env, spec, ordinal)
        n = 0
        while True:
            c = self.truth(self.eval(s.test, env))
            if isinstance(c, Sym) and c.concrete() is None:
                raise Unsupported(f"loop {env.func_key}/loop#{ordinal}: while with symbolic condition needs an invariant")
            if not self.branch(c):
                break
            n += 1
            if n > 10000:
                raise Unsupported("while loop did not terminate concretely")
            try:
                self.exec_block(s.body, env)
            except _Break:
                break
            except _Continue:
                continue

    # -- loops with invariants -------------------------------------------------------------
    def _havoc_checked(self, s, env, spec, k, phase, name):
        """Run the loop contract's havoc and check its frame mechanically: every local name the loop body (or the loop
        target) assigns must have been given a new value or removed by the havoc - otherwise the state after an arbitrary
        number of iterations would silently keep a pre-loop value.  (Object fields and containers are the contract's
        responsibility and are covered by its invariant.)"""
        assigned = set()
        for node in ast.walk(s):
            if isinstance(node, ast.Name) and isinstance(node.ctx, (ast.Store, ast.Del)):
                assigned.add(node.id)
        bound = {nm for nm in assigned if nm in env.vars}
        touched = set()

        class _Tracking(dict):
            def __setitem__(d, key, value):
                touched.add(key)
                dict.__setitem__(d, key, value)

            def __delitem__(d, key):
                touched.add(key)
                dict.__delitem__(d, key)

            def pop(d, key, *a):
                touched.add(key)
                return dict.pop(d, key, *a)
        plain = env.vars
        env.vars = _Tracking(plain)
        try:
            spec.havoc(self, env, k, phase)
        finally:
            tracked = dict(env.vars)
            plain.clear()
            plain.update(tracked)
            env.vars = plain
        keep = set(getattr(spec, 'unchanged', ()))
        stale = sorted(nm for nm in bound if nm not in keep and nm not in touched
                       and not (isinstance(s, ast.For) and nm in {t.id for t in ast.walk(s.target) if isinstance(t, ast.Name)} and phase == 'pres'))
        if stale:
            raise Unsupported(f"{name}: loop contract leaves {stale} (assigned in the loop body) at their pre-loop values")

    def for_with_invariant(self, s, env, it, spec, ordinal):
        name = f"{env.func_key}/loop#{ordinal}"
        n = seq_length(it)
        which = self.choose(2, name)
        if which == 0:
            self.vc.ensure(f"{name}/inv-init", spec.inv(self, env, 0), kind='inv-init')
            self._havoc_checked(s, env, spec, n, 'exit', name)
            self.vc.assume(Sym.lift(n) >= 0 if not is_conc(n) else n >= 0)
            self.vc.assume(spec.inv(self, env, n))
            self.exec_block(s.orelse, env)
            return
        k = CTX.fresh('k', 'int')
        self.vc.assume(And(k >= 0, k < n))
        self.vc.instantiate(k)
        self._havoc_checked(s, env, spec, k, 'pres', name)
        self.vc.assume(spec.inv(self, env, k))
        self.assign(s.target, seq_at(it, k), env)
        try:
            self.exec_block(s.body, env)
        except _Continue:
            pass
        except _Break:
            raise Unsupported("break inside invariant loop")
        parts = getattr(spec, 'inv_parts', None)
        if parts is not None:
            # the invariant is a conjunction: one (smaller) obligation per named conjunct
            for pname, cond in parts(self, env, k + 1):
                self.vc.ensure(f"{name}/inv-pres/{pname}", cond, kind='inv-pres')
        else:
            self.vc.ensure(f"{name}/inv-pres", spec.inv(self, env, k + 1), kind='inv-pres')
        raise PathEnd()

    def while_with_invariant(self, s, env, spec, ordinal):
        name = f"{env.func_key}/loop#{ordinal}"
        which = self.choose(2, name)
        if which == 0:
            self.vc.ensure(f"{name}/inv-init", spec.inv(self, env, 0), kind='inv-init')
            k = CTX.fresh('kexit', 'int')
            self.vc.assume(k >= 0)
            self._havoc_checked(s, env, spec, k, 'exit', name)
            self.vc.assume(spec.inv(self, env, k))
            c = self.truth(self.eval(s.test, env))
            self.vc.assume(Not(c))
            return
        k = CTX.fresh('k', 'int')
        self.vc.assume(k >= 0)
        self._havoc_checked(s, env, spec, k, 'pres', name)
        self.vc.assume(spec.inv(self, env, k))
        var0 = spec.variant(self, env) if getattr(spec, 'variant', None) else None     # before the test (it may have effects)
        c = self.truth(self.eval(s.test, env))
        self.vc.assume(c)
        try:
            self.exec_block(s.body, env)
        except _Continue:
            pass
        except _Break:
            if getattr(spec, 'on_break', None):
                spec.on_break(self, env, k)
                raise PathEnd()
            raise Unsupported("break inside invariant loop")
        self.vc.ensure(f"{name}/inv-pres", spec.inv(self, env, k + 1), kind='inv-pres')
        if var0 is not None:
            var1 = spec.variant(self, env)
            self.vc.ensure(f"{name}/variant", And(var1 < var0, var0 >= 0), kind='variant')     # decreases per iteration, bounded below
        raise PathEnd()

    def concrete_iter(self, it):
        if isinstance(it, (list, tuple)):
            return list(it)
        if isinstance(it, RangeValue):
            a, b, st = conc_int(it.start), conc_int(it.stop), conc_int(it.step)
            if None in (a, b, st):
                return None
            if len(range(a, b, st)) > self.max_unroll:
                raise Unsupported(f"concrete loop of {len(range(a, b, st))} iterations exceeds unroll limit")
            return list(range(a, b, st))
        if isinstance(it, dict):
            return list(it.keys())
        if isinstance(it, DictItems):
            return [(k, v) for k, v in it.d.items()]
        if isinstance(it, EnumerateValue):
            inner = self.concrete_iter(it.inner)
            if inner is None:
                return None
            return [(it.start + i, x) for i, x in enumerate(inner)]
        if isinstance(it, ZipValue):
            inners = [self.concrete_iter(x) for x in it.inners]
            if any(x is None for x in inners):
                return None
            return list(zip(*inners))
        if isinstance(it, SArr):
            n = conc_int(it.shape[0]) if it.shape else None
            if n is None:
                return None
            if n > self.max_unroll:
                raise Unsupported("iteration over long concrete array")
            return [arr_getitem(it, i) for i in range(n)]
        if isinstance(it, GeneratorValue):
            r = it.collect()
            return r if isinstance(r, list) else None
        if isinstance(it, SObj):
            # iteration protocol via __iter__ or the sequence protocol (__len__/__getitem__)
            ms = self.find_method(it.cls, '__iter__') if it.cls else None
            if ms is None and it.cls and self.find_method(it.cls, '__getitem__'):
                out = []
                i = 0
                while True:
                    try:
                        out.append(self.call(self.getattr(it, '__getitem__'), [i], {}))
                    except PyRaise as e:
                        if e.exc_type == 'IndexError':
                            break
                        raise
                    i += 1
                    if i > self.max_unroll:
                        raise Unsupported("sequence-protocol iteration too long")
                return out
        if isinstance(it, str):
            return list(it)
        return None

    # -- assignment ------------------------------------------------------------------------
    def assign(self, target, value, env):
        if isinstance(target, ast.Name):
            env.set(target.id, value)
        elif isinstance(target, (ast.Tuple, ast.List)):
            vals = self.unpack(value, len(target.elts))
            for t, v in zip(target.elts, vals):
                self.assign(t, v, env)
        elif isinstance(target, ast.Attribute):
            self.setattr(self.eval(target.value, env), target.attr, value)
        elif isinstance(target, ast.Subscript):
            obj = self.eval(target.value, env)
            key = self.eval_index(target.slice, env)
            self.setitem(obj, key, value)
        elif isinstance(target, ast.Starred):
            raise Unsupported("starred assignment")
        else:
            raise Unsupported(f"assign target {type(target).__name__}")

    def unpack(self, value, n):
        if isinstance(value, (tuple, list)):
            if len(value) != n:
                raise PyRaise('ValueError', f'cannot unpack {len(value)} values into {n}')
            return list(value)
        if isinstance(value, SArr):
            c = conc_int(value.shape[0])
            if c is None:
                if not self.branch(eq(value.shape[0], n)):
                    raise PyRaise('ValueError', 'unpack length mismatch')
            elif c != n:
                raise PyRaise('ValueError', 'unpack length mismatch')
            return [arr_getitem(value, i) for i in range(n)]
        seq = self.concrete_iter(value)
        if seq is not None and len(seq) == n:
            return seq
        raise Unsupported(f"unpack of {value!r}")

    # -- subscripts ------------------------------------------------------------------------
    def eval_index(self, node, env):
        if isinstance(node, ast.Slice):
            return slice(self.eval(node.lower, env) if node.lower else None,
                         self.eval(node.upper, env) if node.upper else None,
                         self.eval(node.step, env) if node.step else None)
        if isinstance(node, ast.Tuple):
            return tuple(self.eval_index(e, env) for e in node.elts)
        return self.eval(node, env)

    def getitem(self, obj, key):
        if isinstance(obj, SymDict):
            return obj.getitem(self, key)
        if isinstance(obj, CardStr):
            if isinstance(key, slice) and key.start is None and conc_int(key.stop) == 8 and key.step is None:
                return ('cardslice', 'key', obj)
            if isinstance(key, slice) and conc_int(key.start) == 9 and key.stop is None and key.step is None:
                return ('cardslice', 'val', obj)
            raise Unsupported("slice of a header card other than [:8] / [9:]")
        if isinstance(obj, (SList, DictRef)):
            return obj.getitem(self, key if not isinstance(obj, DictRef) else self.dict_key(key))
        if isinstance(obj, SArr):
            key = self._np_key(key)
            return arr_getitem(obj, key)
        if isinstance(obj, (list, tuple, str)):
            if isinstance(key, slice):
                ks = [conc_int(x) if x is not None else None for x in (key.start, key.stop, key.step)]
                if any(k is None and x is not None for k, x in zip(ks, (key.start, key.stop, key.step))):
                    raise Unsupported("symbolic slice of python list")
                return obj[slice(*ks)]
            ci = conc_int(key)
            if ci is None:
                if isinstance(key, Sym):
                    # symbolic index into a concrete list: case split
                    n = len(obj)
                    for j in range(-n, n):
                        if self.branch(eq(key, j)):
                            return obj[j]
                    raise PyRaise('IndexError', 'list index out of range')
                if isinstance(key, (tuple, list, SArr)):
                    raise PyRaise('TypeError', 'list indices must be integers or slices')
                raise Unsupported(f"list index {key!r}")
            try:
                return obj[ci]
            except IndexError:
                raise PyRaise('IndexError', 'list index out of range')
        if isinstance(obj, dict):
            k = self.dict_key(key)
            if k not in obj:
                raise PyRaise('KeyError', repr(k))
            return obj[k]
        if isinstance(obj, LazySeq):
            if isinstance(key, slice):
                raise Unsupported("slice of lazy sequence")
            inr = And(Sym.lift(key) >= -Sym.lift(obj.length), Sym.lift(key) < obj.length) if not (is_conc(key) and is_conc(obj.length)) else (-obj.length <= key < obj.length)
            if not self.branch(inr):
                raise PyRaise('IndexError', 'list index out of range')
            c = conc_int(key)
            if c is not None and c < 0:
                return obj.at(obj.length + c)
            if c is None and self.branch(Sym.lift(key) < 0):
                return obj.at(obj.length + key)
            return obj.at(key)
        if isinstance(obj, SObj):
            ms = self.find_method(obj.cls, '__getitem__') if obj.cls else None
            if ms:
                return self.call(self.getattr(obj, '__getitem__'), [key], {})
        if isinstance(obj, SStr):
            return _sstr_getitem(self, obj)(self, key)
        fn = self.libattr.get((type_tag(obj), '__getitem__'))
        if fn is not None:
            return fn(self, obj)(self, key)
        raise Unsupported(f"getitem on {type_tag(obj)}")

    def _np_key(self, key):
        def conv(k):
            if k is None:
                return NEWAXIS
            if isinstance(k, LibRef) and k.path == 'numpy.newaxis':
                return NEWAXIS
            if isinstance(k, list):
                return from_list(k)
            return k
        if isinstance(key, tuple):
            return tuple(conv(k) for k in key)
        return conv(key)

    def setitem(self, obj, key, value):
        if isinstance(obj, SymDict):
            return obj.setitem(self, key, value)
        if isinstance(obj, (SList, DictRef)):
            return obj.setitem(self, key if not isinstance(obj, DictRef) else self.dict_key(key), value)
        if isinstance(obj, SArr):
            key = self._np_key(key)
            if isinstance(value, SArr):
                value = SArr(value.shape, value._snapshot(), value.dtype)
            arr_setitem(obj, key, value)
            return
        if isinstance(obj, list):
            if isinstance(key, slice):
                raise Unsupported("list slice assignment")
            ci = conc_int(key)
            if ci is None:
                raise Unsupported("symbolic list index assignment")
            try:
                obj[ci] = value
            except IndexError:
                raise PyRaise('IndexError', 'list assignment index out of range')
            return
        if isinstance(obj, dict):
            obj[self.dict_key(key)] = value
            return
        if isinstance(obj, SObj):
            ms = self.find_method(obj.cls, '__setitem__') if obj.cls else None
            if ms:
                return self.call(self.getattr(obj, '__setitem__'), [key, value], {})
        fn = self.libattr.get((type_tag(obj), '__setitem__'))
        if fn is not None:
            return fn(self, obj)(self, key, value)
        raise Unsupported(f"setitem on {type_tag(obj)}")

    def delitem(self, obj, key):
        if isinstance(obj, SList):
            return obj.delitem(self, key)
        if isinstance(obj, list):
            if isinstance(key, slice):
                ks = [conc_int(x) if x is not None else None for x in (key.start, key.stop, key.step)]
                del obj[slice(*ks)]
                return
            ci = conc_int(key)
            if ci is None:
                raise Unsupported("symbolic del index")
            try:
                del obj[ci]
            except IndexError:
                raise PyRaise('IndexError', 'list assignment index out of range')
            return
        if isinstance(obj, dict):
            k = self.dict_key(key)
            if k not in obj:
                raise PyRaise('KeyError', repr(k))
            del obj[k]
            return
        if isinstance(obj, SObj):
            ms = self.find_method(obj.cls, '__delitem__') if obj.cls else None
            if ms:
                return self.call(self.getattr(obj, '__delitem__'), [key], {})
        fn = self.libattr.get((type_tag(obj), '__delitem__'))
        if fn is not None:
            return fn(self, obj)(self, key)
        raise Unsupported(f"delitem on {type_tag(obj)}")

    def dict_key(self, key):
        if isinstance(key, (str, int, bool, tuple)) or key is None:
            return key
        c = conc_int(key)
        if c is not None:
            return c
        if isinstance(key, Fraction):
            return key
        raise Unsupported(f"symbolic dict key {key!r}")

    # -- expressions -------------------------------------------------------------------------
    def eval(self, node, env):
        m = getattr(self, 'ev_' + type(node).__name__, None)
        if m is None:
            raise Unsupported(f"expression {type(node).__name__} at {env.module.name}:{getattr(node, 'lineno', '?')}")
        return m(node, env)

    def ev_Constant(self, n, env):
        v = n.value
        if isinstance(v, complex):
            return SCplx(v.real if v.real != int(v.real) else int(v.real), v.imag if v.imag != int(v.imag) else int(v.imag))
        return v

    def ev_Name(self, n, env):
        return env.get(n.id)

    def ev_Tuple(self, n, env):
        out = []
        for e in n.elts:
            if isinstance(e, ast.Starred):
                out.extend(self.concrete_iter(self.eval(e.value, env)))
            else:
                out.append(self.eval(e, env))
        return tuple(out)

    def ev_List(self, n, env):
        out = []
        for e in n.elts:
            if isinstance(e, ast.Starred):
                out.extend(self.concrete_iter(self.eval(e.value, env)))
            else:
                out.append(self.eval(e, env))
        return out

    def ev_Dict(self, n, env):
        d = {}
        for k, v in zip(n.keys, n.values):
            if k is None:
                d.update(self.eval(v, env))
            else:
                d[self.dict_key(self.eval(k, env))] = self.eval(v, env)
        return d

    def ev_Attribute(self, n, env):
        return self.getattr(self.eval(n.value, env), n.attr)

    def ev_Subscript(self, n, env):
        obj = self.eval(n.value, env)
        return self.getitem(obj, self.eval_index(n.slice, env))

    def ev_Slice(self, n, env):
        return self.eval_index(n, env)

    def ev_Lambda(self, n, env):
        c = Closure(n, [env.vars] + env.chain, env.module, name='<lambda>')
        c.func_key = (getattr(env, 'func_key', '') or '') + '.<lambda>'
        return c

    def ev_IfExp(self, n, env):
        c = self.truth(self.eval(n.test, env))
        return self.eval(n.body, env) if self.branch(c) else self.eval(n.orelse, env)

    def ev_BoolOp(self, n, env):
        is_and = isinstance(n.op, ast.And)
        val = None
        for e in n.values:
            val = self.eval(e, env)
            t = self.branch(self.truth(val))
            if is_and and not t:
                return val
            if not is_and and t:
                return val
        return val

    def ev_UnaryOp(self, n, env):
        v = self.eval(n.operand, env)
        if isinstance(n.op, ast.Not):
            t = self.truth(v)
            return Not(t) if isinstance(t, Sym) else (not t)
        if isinstance(n.op, ast.USub):
            if isinstance(v, SArr):
                return elementwise1(v, lambda x: -x)
            return -v
        if isinstance(n.op, ast.UAdd):
            return v
        raise Unsupported("unary op")

    def ev_BinOp(self, n, env):
        a = self.eval(n.left, env)
        b = self.eval(n.right, env)
        return self.binop(type(n.op).__name__, a, b)

    def ev_Compare(self, n, env):
        left = self.eval(n.left, env)
        result = True
        for op, rn in zip(n.ops, n.comparators):
            right = self.eval(rn, env)
            r = self.compare(type(op).__name__, left, right)
            if isinstance(r, SArr):
                if len(n.ops) > 1:
                    raise Unsupported("chained array comparison")
                return r
            result = r if result is True else And(result, r) if not (result is False) else False
            left = right
        return result

    def ev_Call(self, n, env):
        # super() special form
        if isinstance(n.func, ast.Name) and n.func.id == 'super' and not n.args:
            return SuperProxy(env.get('self') if 'self' in env.vars else env.vars.get(list(env.vars)[0]), env.cls)
        f = self.eval(n.func, env)
        args = []
        for a in n.args:
            if isinstance(a, ast.Starred):
                seq = self.concrete_iter(self.eval(a.value, env))
                if seq is None:
                    raise Unsupported("star-args of symbolic length")
                args.extend(seq)
            else:
                args.append(self.eval(a, env))
        kwargs = {}
        for k in n.keywords:
            if k.arg is None:
                d = self.eval(k.value, env)
                if not isinstance(d, dict):
                    raise Unsupported("** of non-dict")
                for kk, vv in d.items():
                    if kk in kwargs:
                        raise PyRaise('TypeError', f"got multiple values for keyword argument '{kk}'")
                    kwargs[kk] = vv
            else:
                kwargs[k.arg] = self.eval(k.value, env)
        return self.call(f, args, kwargs)

    def ev_JoinedStr(self, n, env):
        parts = []
        symbolic = False
        total = 0
        for v in n.values:
            if isinstance(v, ast.Constant):
                parts.append(v.value)
                total = total + len(v.value)
            else:
                val = self.eval(v.value, env)
                spec = None
                if v.format_spec is not None:
                    spec = self.eval(v.format_spec, env)
                s = self.format_value(val, spec, v.conversion)
                if isinstance(s, SStr):
                    symbolic = True
                    parts.append(s)
                    total = total + s.length
                else:
                    parts.append(s)
                    total = total + len(s)
        if not symbolic:
            return ''.join(parts)
        if len(parts) == 1:
            return parts[0]
        return SStr(total, None, tag=('concat', parts))

    def format_value(self, val, spec, conversion=-1):
        fn = self.lib['builtins.__format__']
        return fn(self, val, spec, conversion)

    def ev_FormattedValue(self, n, env):
        return self.format_value(self.eval(n.value, env), None, n.conversion)

    def ev_ListComp(self, n, env):
        return self.comprehension(n, env)

    def ev_GeneratorExp(self, n, env):
        return self.comprehension(n, env)

    def comprehension(self, n, env):
        if len(n.generators) != 1:
            raise Unsupported("nested comprehension")
        g = n.generators[0]
        it = self.eval(g.iter, env)
        seq = self.concrete_iter(it)
        if seq is None:
            # symbolic-length map comprehension -> lazy sequence
            cenv_proto = env
            length = seq_length(it)
            if not self.branch(Sym.lift(length) > 0):
                return []
            # length > 0 on this path: constraining the fresh generic index to the range is satisfiable and
            # therefore does not restrict any other variable (sound)
            kstar = CTX.fresh('kstar', 'int')
            self.vc.assume(And(kstar >= 0, kstar < length))
            self.vc.instantiate(kstar)
            cenv = Env({}, [cenv_proto.vars] + cenv_proto.chain, cenv_proto.module)
            cenv.func_key = getattr(cenv_proto, 'func_key', None)
            cenv.cls = cenv_proto.cls
            # evaluate the element (and filter) expressions *now* (eagerly, so they see the current heap) at a
            # generic index k*, and instantiate the templates per index by substitution; every index gets its
            # own copy of any heap object in the template (elements are distinct objects, as in Python)
            self.assign(g.target, seq_at(it, kstar, checked=False), cenv)
            cond_t = None
            for cnd in g.ifs:
                cv = self.truth(self.eval(cnd, cenv))
                cond_t = cv if cond_t is None else And(cond_t, cv)
            template = self.eval(n.elt, cenv)

            def at(k):
                return subst_value(template, kstar, k, {})
            if cond_t is not None:
                return FilteredSeq(length, at, (lambda k: subst_value(cond_t, kstar, k, {})) if isinstance(cond_t, Sym) else (lambda k: cond_t))
            return LazySeq(length, at)
        out = []
        cenv = Env({}, [env.vars] + env.chain, env.module)
        cenv.func_key = getattr(env, 'func_key', None)
        cenv.cls = env.cls
        cenv.loop_counter = env.loop_counter
        for x in seq:
            self.assign(g.target, x, cenv)
            ok = True
            for cond in g.ifs:
                if not self.branch(self.truth(self.eval(cond, cenv))):
                    ok = False
                    break
            if ok:
                out.append(self.eval(n.elt, cenv))
        return out

    def ev_Yield(self, n, env):
        v = self.eval(n.value, env) if n.value is not None else None
        sink = getattr(env, 'yield_sink', None)
        if sink is None:
            raise Unsupported("yield outside collected generator")
        if isinstance(sink, SList):
            sink.append(self, v)
        else:
            sink.append(v)
        return None

    def ev_Starred(self, n, env):
        raise Unsupported("starred expression")

    # -- operators -----------------------------------------------------------------------------
    def truth(self, v):
        if isinstance(v, (bool,)):
            return v
        if v is None:
            return False
        if isinstance(v, Sym):
            return to_bool(v)
        if isinstance(v, (int, float, Fraction)):
            return v != 0
        if isinstance(v, (str, list, tuple, dict, bytes)):
            return len(v) > 0
        if isinstance(v, SStr):
            return to_bool(Sym.lift(v.length)) if not is_conc(v.length) else v.length > 0
        if isinstance(v, SArr):
            if v.ndim == 0:
                return to_bool(v.at(()))
            raise Unsupported("truth value of an array")
        if isinstance(v, (LazySeq, SList, Chunk, SymDict)):
            return to_bool(Sym.lift(v.length)) if not is_conc(v.length) else v.length > 0
        if isinstance(v, ObjRef):
            return True
        if isinstance(v, SObj):
            if v.cls and self.find_method(v.cls, '__len__'):
                n = self.call(self.getattr(v, '__len__'), [], {})
                return self.truth(n)
            return True
        fn = self.libattr.get((type_tag(v), '__bool__'))
        if fn is not None:
            return fn(self, v)
        return True

    def binop(self, op, a, b, inplace=False):
        fn = self.lib['builtins.__binop__']
        return fn(self, op, a, b, inplace)

    def compare(self, op, a, b):
        fn = self.lib['builtins.__compare__']
        return fn(self, op, a, b)


_MISSING = object()
_ABC_PATH = [None]


def stdlib_abc_path():
    if _ABC_PATH[0] is None:
        import subprocess
        try:
            out = subprocess.run(['/venv/bin/python', '-c', 'import _collections_abc as m; print(m.__file__)'],
                                 capture_output=True, text=True, timeout=60).stdout.strip()
        except Exception:
            out = ''
        if not out or not os.path.exists(out):
            import _collections_abc as m
            out = m.__file__
        _ABC_PATH[0] = out
    return _ABC_PATH[0]


class Env:
    def __init__(self, vars, chain, module):
        self.vars = vars
        self.chain = chain          # list of dicts (enclosing scopes ... module globals)
        self.module = module
        self.func_key = None
        self.cls = None
        self.loop_counter = [0]
        self.current_exc = None

    def get(self, name):
        if name in self.vars:
            return self.vars[name]
        for d in self.chain:
            if name in d:
                return d[name]
        interp = current_interp()
        g = interp.module_globals(self.module)
        if name in g:
            return g[name]
        if name == '__file__':
            return self.module.path
        b = BUILTINS.get(name, _MISSING)
        if b is not _MISSING:
            return b
        raise PyRaise('NameError', name)

    def set(self, name, value):
        self.vars[name] = value

    def delete(self, name):
        del self.vars[name]

    def next_loop(self, node=None):
        """Ordinal of a loop = its position in source order within the function (static, independent of unrolling)."""
        ids = getattr(self, 'loop_ids', None)
        if ids is not None and node is not None and id(node) in ids:
            return ids[id(node)]
        i = self.loop_counter[0]
        self.loop_counter[0] += 1
        return i


class ModuleRef:
    def __init__(self, interp, name):
        self.interp = interp
        self.name = name

    def get(self, attr):
        m = self.interp.load_module(self.name)
        g = self.interp.module_globals(m)
        if attr in g:
            return g[attr]
        sub = self.name + '.' + attr
        rel = sub.replace('.', '/')
        if os.path.exists(os.path.join(self.interp.repo, rel + '.py')) or os.path.exists(os.path.join(self.interp.repo, rel, '__init__.py')):
            return ModuleRef(self.interp, sub)
        raise PyRaise('AttributeError', f"module {self.name} has no attribute {attr}")

    def __repr__(self):
        return f"ModuleRef({self.name})"


class SuperProxy:
    def __init__(self, obj, cls):
        self.obj = obj
        self.cls = cls


class RangeValue:
    def __init__(self, start, stop, step=1):
        self.start, self.stop, self.step = start, stop, step


class EnumerateValue:
    def __init__(self, inner, start=0):
        self.inner, self.start = inner, start


class ZipValue:
    def __init__(self, inners):
        self.inners = inners


class DictItems:
    def __init__(self, d):
        self.d = d


class LazySeq:
    """Sequence of symbolic length given by an index function (list comprehension over a
    symbolic range / symbolic list)."""

    def __init__(self, length, at):
        self.length = length
        self._at = at
        self._memo = {}

    def at(self, k):
        c = conc_int(k)
        if c is not None:
            if c not in self._memo:
                self._memo[c] = self._at(c)
            return self._memo[c]
        return self._at(k)


class FilteredSeq(LazySeq):
    """[elt(x) for x in seq if cond(x)] over a symbolic sequence (library spec of a filtering comprehension):
    count m, selection map sel: [0,m) -> [0,n) strictly increasing with cond(sel(k)); every index i with cond(i)
    is selected (inverse map inv).  The axioms are instantiated at the indices actually used."""

    def __init__(self, n_src, elt_at, cond_at):
        CTX.counter += 1
        self.n_src, self.elt_at, self.cond_at = n_src, elt_at, cond_at
        self.count = CTX.fresh('nsel', 'int')
        CTX.side.append(And(self.count >= 0, self.count <= n_src).t)
        self.selF = z3.Function(f"sel!{CTX.counter}", z3.IntSort(), z3.IntSort())
        self.invF = z3.Function(f"selinv!{CTX.counter}", z3.IntSort(), z3.IntSort())
        LazySeq.__init__(self, self.count, self._elem)

    def sel(self, k):
        k = Sym.lift(k) if not isinstance(k, Sym) else k
        s = Sym(self.selF(k.as_int()), 'int')
        s1 = Sym(self.selF((k + 1).as_int()), 'int')
        c = self.cond_at(s)
        CTX.side.append(Implies(And(k >= 0, k < self.count), And(s >= 0, s < self.n_src, c if isinstance(c, Sym) else bool(c))).t)
        CTX.side.append(Implies(And(k >= 0, k + 1 < self.count), s < s1).t)
        CTX.side.append(Implies(And(k >= 0, k < self.count), eq(Sym(self.invF(s.as_int()), 'int'), k)).t)
        return s

    def inv(self, i):
        """Position of source index i in the selection (meaningful when cond(i))."""
        i = Sym.lift(i) if not isinstance(i, Sym) else i
        p = Sym(self.invF(i.as_int()), 'int')
        c = self.cond_at(i)
        c = c if isinstance(c, Sym) else Sym.lift(bool(c))
        CTX.side.append(Implies(And(i >= 0, i < self.n_src, c), And(p >= 0, p < self.count, eq(Sym(self.selF(p.as_int()), 'int'), i))).t)
        return p

    def _elem(self, k):
        return self.elt_at(self.sel(k))


class GeneratorValue:
    def __init__(self, interp, clo, env):
        self.interp, self.clo, self.env = interp, clo, env
        self.items = None

    def collect(self):
        if self.items is None:
            self.items = []
            self.env.yield_sink = self.items
            try:
                self.interp.exec_block(self.clo.node.body, self.env)
            except _Return:
                pass
            self.items = self.env.yield_sink        # a loop contract may have replaced the sink by a symbolic-length list
        return self.items

    @property
    def length(self):
        return seq_length(self.collect())

    def at(self, k):
        return seq_at(self.collect(), k)


def subst_value(v, ksym, j, memo):
    """Instantiate a template value at index j (replace the generic index symbol)."""
    if id(v) in memo:
        return memo[id(v)]
    if isinstance(v, Sym):
        jt = Sym.lift(j).as_int() if not isinstance(j, Sym) else j.as_int()
        return Sym(z3.substitute(v.t, (ksym.t, jt)), v.k)
    if isinstance(v, SCplx):
        return SCplx(subst_value(v.re, ksym, j, memo), subst_value(v.im, ksym, j, memo))
    if isinstance(v, ObjRef):
        return ObjRef(subst_value(v.ref_id, ksym, j, memo), v.heap, v.cls)
    if isinstance(v, Opaque):
        return Opaque(v.name, subst_value(v.code, ksym, j, memo))
    if isinstance(v, SArr):
        snap = v._snapshot()
        r = SArr(tuple(subst_value(d, ksym, j, memo) for d in v.shape),
                 lambda idx: subst_value(snap(idx), ksym, j, {}), v.dtype)
        memo[id(v)] = r
        return r
    if isinstance(v, list):
        r = []
        memo[id(v)] = r
        r.extend(subst_value(x, ksym, j, memo) for x in v)
        return r
    if isinstance(v, tuple):
        return tuple(subst_value(x, ksym, j, memo) for x in v)
    if isinstance(v, dict):
        r = {}
        memo[id(v)] = r
        for kk, x in v.items():
            r[kk] = subst_value(x, ksym, j, memo)
        return r
    if isinstance(v, SObj):
        r = SObj(v.cls, {}, v.tag)
        memo[id(v)] = r
        for kk, x in v.fields.items():
            r.fields[kk] = subst_value(x, ksym, j, memo)
        return r
    h = getattr(v, 'subst_hook', None)
    if h is not None:
        r = h(ksym, j, memo)
        memo[id(v)] = r
        return r
    return v


_LOOP_IDS = {}


def _loop_ids(fnode):
    key = id(fnode)
    hit = _LOOP_IDS.get(key)
    if hit is not None and hit[0] is fnode:
        return hit[1]
    out = {}

    def visit(n):
        for ch in ast.iter_child_nodes(n):
            if isinstance(ch, (ast.FunctionDef, ast.Lambda, ast.ClassDef)):
                continue
            if isinstance(ch, (ast.For, ast.While)):
                out[id(ch)] = len(out)
            visit(ch)
    if not isinstance(fnode, ast.Lambda):
        visit(fnode)
    _LOOP_IDS[key] = (fnode, out)
    return out


def _is_generator(node):
    for sub in ast.walk(node):
        if isinstance(sub, (ast.Yield, ast.YieldFrom)):
            # make sure it's not in a nested function
            return True
    return False


def seq_length(it):
    if isinstance(it, (list, tuple, str, dict)):
        return len(it)
    if isinstance(it, RangeValue):
        st = conc_int(it.step)
        diff = it.stop - it.start
        if st == 1:
            return smax(diff, 0)
        if st is not None and st > 0:
            return smax((diff + st - 1) // st, 0)
        raise Unsupported("range with symbolic/negative step")
    if isinstance(it, SArr):
        return it.shape[0]
    if isinstance(it, LazySeq):
        return it.length
    if isinstance(it, EnumerateValue):
        return seq_length(it.inner)
    if isinstance(it, ZipValue):
        ls = [seq_length(x) for x in it.inners]
        r = ls[0]
        for x in ls[1:]:
            r = smin(r, x)
        return r
    if hasattr(it, 'length'):
        return it.length
    if isinstance(it, SObj) and it.cls is not None:
        interp = current_interp()
        if interp.find_method(it.cls, '__len__') and interp.find_method(it.cls, '__getitem__'):
            # stdlib Sequence.__iter__ enumerates self[0], ..., self[len(self)-1] (trusted mixin semantics)
            interp.vc.assumptions_used.add("Sequence.__iter__ enumerates self[0..len-1] (stdlib mixin, assumed for symbolic length)")
            return interp.call(interp.getattr(it, '__len__'), [], {})
    raise Unsupported(f"length of {it!r}")


def seq_at(it, k, checked=True):
    if isinstance(it, RangeValue):
        return it.start + k * it.step
    if isinstance(it, SArr):
        if not checked and it.ndim == 1:
            return it.at((k,))
        return arr_getitem(it, k)
    if isinstance(it, LazySeq):
        return it.at(k)
    if isinstance(it, EnumerateValue):
        return (it.start + k, seq_at(it.inner, k))
    if isinstance(it, ZipValue):
        return tuple(seq_at(x, k) for x in it.inners)
    if isinstance(it, (list, tuple)):
        c = conc_int(k)
        if c is not None:
            return it[c]
        raise Unsupported("symbolic index into concrete sequence in invariant loop")
    if hasattr(it, 'at'):
        return it.at(k)
    if isinstance(it, SObj) and it.cls is not None:
        interp = current_interp()
        return interp.call(interp.getattr(it, '__getitem__'), [k], {})
    raise Unsupported(f"element of {it!r}")


def type_tag(v):
    if v is None:
        return 'NoneType'
    if isinstance(v, bool):
        return 'bool'
    if isinstance(v, int):
        return 'int'
    if isinstance(v, (float, Fraction)):
        return 'float'
    if isinstance(v, Sym):
        return {'int': 'int', 'real': 'float', 'bool': 'bool'}[v.k]
    if isinstance(v, (SCplx, complex)):
        return 'complex'
    if isinstance(v, str):
        return 'str'
    if isinstance(v, SStr):
        return 'bytes' if v.is_bytes else 'str'
    if isinstance(v, bytes):
        return 'bytes'
    if isinstance(v, list):
        return 'list'
    if isinstance(v, tuple):
        return 'tuple'
    if isinstance(v, dict):
        return 'dict'
    if isinstance(v, SArr):
        return 'ndarray'
    if isinstance(v, (Closure, BoundMethod, SFunc)):
        return 'function'
    if isinstance(v, (SObj, ObjRef)):
        return 'object'
    if isinstance(v, slice):
        return 'slice'
    if isinstance(v, LazySeq):
        return 'list'
    t = getattr(v, 'type_tag', None)
    if t:
        return t
    return type(v).__name__


BUILTINS = {}
for _n in ['ValueError', 'TypeError', 'IndexError', 'KeyError', 'AttributeError', 'AssertionError',
           'FileNotFoundError', 'OSError', 'BaseException', 'Exception', 'ZeroDivisionError',
           'ImportError', 'RuntimeError', 'NotImplementedError', 'LookupError', 'StopIteration']:
    BUILTINS[_n] = ExcType(_n)
for _n in ['int', 'float', 'str', 'list', 'tuple', 'dict', 'bool', 'bytes', 'slice', 'complex', 'object',
           'bytearray', 'set']:
    BUILTINS[_n] = BuiltinType(_n)
for _n in ['len', 'abs', 'min', 'max', 'range', 'enumerate', 'isinstance', 'callable', 'round', 'sum',
           'zip', 'getattr', 'setattr', 'hasattr', 'type', 'print', 'filter', 'repr', 'sorted', 'any',
           'all', 'open', 'vars', 'map', 'iter', 'next', 'id', 'reversed']:
    BUILTINS[_n] = LibRef('builtins.' + _n)
BUILTINS['None'] = None
BUILTINS['True'] = True
BUILTINS['False'] = False
BUILTINS['Ellipsis'] = Ellipsis
BUILTINS['__file__'] = '/repo/setigen/__file__'
