"""Driver: ./check <Cxx> [--tier quick|thorough] [--replay path]

exit 0  every obligation discharged (unsat) and every bounded probe passed (known findings printed)
exit 1  VIOLATION (failed obligation / failing bounded probe not listed in KNOWN_FINDINGS.txt)
exit 2  undecided (solver unknown / timeout) - never reported as a violation
exit 3  engine / extraction / contract error - never reported as a violation
"""
import sys
import os
import json
import time
import importlib
import multiprocessing as mp
import subprocess
import re
import hashlib
import traceback

ROOT = os.path.dirname(os.path.dirname(os.path.abspath(__file__)))
sys.path.insert(0, ROOT)

from pyvc.vc import VC, explore  # noqa: E402

REPO = os.environ.get('VERIF_REPO', '/repo')
VENV_PY = '/venv/bin/python'


from pyvc.registry import REGISTRY, contract, PROP_TRUSTED, PROP_LEVEL, PROP_EXPLANATION  # noqa: E402


class ContractWallLimit(BaseException):
    """Raised by SIGALRM inside a worker: the symbolic execution of one contract exceeded its wall-clock limit (no verdict: engine error, exit 3)."""


def _on_alarm(signum, frame):
    raise ContractWallLimit()


def _run_contract(args):
    prop, modname, cname, tier, seed = args
    t0 = time.time()
    # a contract whose symbolic execution does not terminate on changed code must not keep the whole check (and its bounded run) from reporting
    limit = int(os.environ.get('VERIF_CONTRACT_WALL_S', '3000' if tier == 'thorough' else '900'))
    try:
        import signal
        signal.signal(signal.SIGALRM, _on_alarm)
        signal.alarm(limit)
    except Exception:
        pass
    try:
        return _run_contract_inner(args, t0)
    except ContractWallLimit:
        return {'contract': cname, 'results': [], 'errors': [f"{cname}: no verdict - symbolic execution exceeded the per-contract wall limit of {limit} s"],
                'paths': 0, 'functions': {}, 'dropped': [], 'covers': {}, 'wall': round(time.time() - t0, 3),
                'unlisted_reads': [], 'samples': [], 'declared_functions': [], 'note': ''}
    finally:
        try:
            signal.alarm(0)
        except Exception:
            pass


def _run_contract_inner(args, t0):
    prop, modname, cname, tier, seed = args
    try:
        importlib.import_module(modname)
        c = [c for c in REGISTRY if c.name == cname][0]
        vc = VC(c.name, prop, tier, seed)
        vc.default_mode = c.mode
        explore(c.fn, vc)
        return {
            'contract': cname,
            'results': [r.to_json() for r in vc.results],
            'errors': vc.engine_errors,
            'paths': vc.paths,
            'functions': vc.functions,
            'dropped': sorted(vc.dropped),
            'covers': vc.covers,
            'wall': round(time.time() - t0, 3),
            'unlisted_reads': [str(x[0]) for x in vc.unlisted_reads][:20],
            'samples': vc.samples[:3],
            'declared_functions': c.functions,
            'note': c.note,
        }
    except Exception as e:
        return {'contract': cname, 'results': [], 'errors': [f"{cname}: driver error {type(e).__name__}: {e}\n{traceback.format_exc(limit=6)}"],
                'paths': 0, 'functions': {}, 'dropped': [], 'covers': {}, 'wall': round(time.time() - t0, 3),
                'unlisted_reads': [], 'samples': [], 'declared_functions': [], 'note': ''}


def load_known(prop):
    path = os.path.join(ROOT, 'KNOWN_FINDINGS.txt')
    findings = []
    if os.path.exists(path):
        for line in open(path):
            line = line.strip()
            if line.startswith('finding:') and f'property={prop} ' in line:
                m = re.search(r'key=(\S+)', line)
                findings.append({'key': m.group(1) if m else None, 'text': line[len('finding:'):].strip().replace(f'property={prop} ', '', 1)})
    return findings


def sanitize(s):
    return re.sub(r'[^A-Za-z0-9_.#-]+', '_', s)[:150]


def run_standin(prop, tier, seed, extra=None):
    """Bounded stand-in / replay oracle: runs the real code natively under /venv python."""
    path = os.path.join(ROOT, 'standin', prop.lower() + '.py')
    if not os.path.exists(path):
        return None
    env = dict(os.environ)
    env['PYTHONPATH'] = REPO + os.pathsep + os.path.join(ROOT, 'standin')
    env['VERIF_SEED'] = str(seed)
    env['VERIF_TIER'] = tier
    env['SETIGEN_ENABLE_GPU'] = '0'
    env.setdefault('MPLBACKEND', 'Agg')
    cmd = [VENV_PY, '-W', 'ignore', path, '--tier', tier, '--seed', str(seed)]
    if extra:
        cmd += ['--model', json.dumps(extra)]
    t0 = time.time()
    try:
        p = subprocess.run(cmd, capture_output=True, text=True, env=env, timeout=3000 if tier == 'thorough' else 900, cwd=ROOT)
    except subprocess.TimeoutExpired:
        return {'error': 'stand-in timed out', 'cases': [], 'failures': [], 'wall': time.time() - t0}
    out = p.stdout.strip().splitlines()
    for line in reversed(out):
        if line.startswith('{'):
            try:
                r = json.loads(line)
                r['wall'] = round(time.time() - t0, 2)
                return r
            except json.JSONDecodeError:
                continue
    return {'error': f'stand-in produced no result (rc={p.returncode}): {p.stderr[-1500:]}', 'cases': [], 'failures': [],
            'wall': round(time.time() - t0, 2)}


def main(argv=None):
    argv = argv or sys.argv[1:]
    prop = argv[0]
    tier = os.environ.get('VERIF_TIER', 'quick')
    if '--tier' in argv:
        tier = argv[argv.index('--tier') + 1]
    if tier not in ('quick', 'thorough'):
        tier = 'quick'
    seed = int(os.environ.get('VERIF_SEED', '0') or 0)
    t0 = time.time()
    modname = 'contracts.' + prop.lower()
    try:
        del REGISTRY[:]
        importlib.import_module(modname)
    except Exception as e:
        print(f"ENGINE-ERROR cannot load contracts for {prop}: {e}")
        traceback.print_exc()
        return 3
    names = [c.name for c in REGISTRY if c.prop == prop]
    notes = {c.name: c.note for c in REGISTRY}
    jobs = [(prop, modname, n, tier, seed) for n in names]
    nproc = min(16, max(1, len(jobs)))
    ctx = mp.get_context('fork')
    with ctx.Pool(nproc) as pool:
        outs = pool.map(_run_contract, jobs, chunksize=1)

    results, errors, functions, dropped, covers = [], [], {}, set(), {}
    paths = 0
    per_contract = []
    for o in outs:
        results.extend(o['results'])
        errors.extend(o['errors'])
        functions.update(o['functions'])
        dropped |= set(o['dropped'])
        for k, v in o['covers'].items():
            covers[o['contract'] + '/' + k] = v
        paths += o['paths']
        per_contract.append({'contract': o['contract'], 'paths': o['paths'], 'obligations': len(o['results']), 'wall_s': o['wall']})

    # vacuity guards
    for o in outs:
        if not o['results'] and not o['errors']:
            errors.append(f"{o['contract']}: generated zero obligations (vacuity guard)")
    for k, v in covers.items():
        if not v:
            errors.append(f"cover {k} unreachable: precondition contradictory (vacuity guard)")

    # bounded stand-in
    standin = run_standin(prop, tier, seed)

    known = load_known(prop)
    known_keys = {k['key']: k for k in known}
    failed = [r for r in results if r['status'] == 'failed']
    unknown = [r for r in results if r['status'] == 'unknown']
    proved = [r for r in results if r['status'] == 'proved']

    violations = []
    matched_known = []
    seen = set()
    for r in failed:
        key = r['name']
        if key in seen:
            continue
        seen.add(key)
        if key in known_keys:
            matched_known.append(known_keys[key])
            continue
        violations.append(('obligation', key, r))
    bounded_fail = []
    if standin and standin.get('failures'):
        for f in standin['failures']:
            key = 'bounded:' + f.get('case', '?')
            if key in known_keys:
                if known_keys[key] not in matched_known:
                    matched_known.append(known_keys[key])
                continue
            bounded_fail.append(f)
    if standin and standin.get('error'):
        errors.append('stand-in: ' + standin['error'])

    os.makedirs(os.path.join(ROOT, 'replays', prop), exist_ok=True)
    vio_lines = []
    for kind, key, r in violations:
        rp = os.path.join(ROOT, 'replays', prop, sanitize(key) + '.json')
        # try to reproduce on the real code through the stand-in's neighbourhood search
        repro = None
        if standin is not None:
            sr = run_standin(prop, tier, seed, extra={'obligation': key, 'model': r.get('model')})
            if sr and sr.get('failures'):
                repro = sr['failures'][0]
        payload = {'property': prop, 'obligation': key, 'contract': r['contract'], 'solver': r['backend'],
                   'solver_output': 'sat', 'counter_model': r.get('model'), 'mode': r.get('mode'),
                   'replayed_on_real_code': repro, 'how_to_replay': f"./check {prop} --replay {rp}"}
        json.dump(payload, open(rp, 'w'), indent=1, default=str)
        vio_lines.append(f"VIOLATION property={prop} replay={rp}" + ('' if repro else ' no-failing-input-found'))
    for f in bounded_fail:
        rp = os.path.join(ROOT, 'replays', prop, sanitize('bounded_' + f.get('case', 'case')) + '.json')
        json.dump({'property': prop, 'bounded_case': f, 'how_to_replay': f"./check {prop} --replay {rp}"}, open(rp, 'w'), indent=1, default=str)
        vio_lines.append(f"VIOLATION property={prop} replay={rp}")

    level = PROP_LEVEL.get(prop, 'proof')
    by_backend, by_mode = {}, {}
    for r in proved:
        by_backend[r['backend']] = by_backend.get(r['backend'], 0) + 1
        by_mode[r['mode']] = by_mode.get(r['mode'], 0) + 1
    solver_time = round(sum(r['time'] for r in results), 3)
    slowest = sorted(results, key=lambda r: -r['time'])[:5]
    names_distinct = sorted({r['name'] for r in results})
    # obligations that fail exactly as a recorded known finding are reported separately (coverage.known_findings_matched)
    kf_names = {r['name'] for r in failed if r['name'] in known_keys}
    n_obl = len([r for r in results if r['name'] not in kf_names])
    n_dis = len(proved)
    # known-finding obligations are not counted as discharged; they are reported separately
    trusted = TRUSTED_COMMON + PROP_TRUSTED.get(prop, [])
    ev = {
        'property_id': prop, 'tier': tier, 'seed': seed, 'level': level,
        'coverage': {
            'obligations': n_obl, 'discharged': n_dis,
            'distinct_obligation_names': len(names_distinct),
            'checker_cmd': f"./check {prop} --tier {tier}",
            'trusted_base': trusted,
            'explanation': PROP_EXPLANATION.get(prop, ''),
            'functions_under_contract': functions,
            'contracts': per_contract,
            'paths_explored': paths,
            'by_backend': by_backend, 'by_mode': by_mode, 'solver_time_s': solver_time,
            'slowest': [{'name': r['name'], 's': r['time']} for r in slowest],
            'covers': covers,
            'dropped_by_extraction': sorted(dropped),
            'failed_obligations': sorted({r['name'] for r in failed}),
            'undecided_obligations': sorted({r['name'] for r in unknown}),
            'known_findings_matched': [k['text'] for k in matched_known],
            'bounded': (None if standin is None else {k: standin.get(k) for k in ('label', 'bound', 'evaluations', 'distinct_nontrivial', 'rule', 'wall')}),
            'samples': ([{'obligation': r['name'], 'contract': r['contract'], 'status': r['status'], 'mode': r['mode'], 'solver_s': r['time']} for r in results[:6]]
                        + ((standin or {}).get('samples') or [])[:4]) or [{'note': 'no obligations'}],
            'evaluations': (standin or {}).get('evaluations', 0) or 0,
            'distinct_nontrivial': (standin or {}).get('distinct_nontrivial', 0) or 0,
            'rule': (standin or {}).get('rule', ''),
        },
        'assumptions': trusted + [notes[n] for n in names if notes.get(n)],
        'wall_s': round(time.time() - t0, 2),
        'violations': len(vio_lines),
    }
    # runs against a scratch copy (VERIF_REPO, used for seeded changes) must not overwrite the evidence of the real tree
    evdir = 'evidence' if os.path.realpath(os.environ.get('VERIF_REPO', '/repo')) == '/repo' else os.path.join('replays', 'scratch-evidence')
    os.makedirs(os.path.join(ROOT, evdir), exist_ok=True)
    json.dump(ev, open(os.path.join(ROOT, evdir, prop + '.json'), 'w'), indent=1, default=str)

    print(f"[{prop}] tier={tier} contracts={len(names)} paths={paths} obligations={n_obl} discharged={n_dis} "
          f"failed={len(failed)} unknown={len(unknown)} solver_s={solver_time} wall_s={ev['wall_s']}")
    if standin is not None:
        print(f"[{prop}] bounded stand-in: evaluations={standin.get('evaluations')} failures={len(standin.get('failures', []))} ({standin.get('label', '')})")
    for k in matched_known:
        print(f"KNOWN-FINDING: property={prop} {k['text']}")
    for e in errors:
        print("ENGINE-ERROR " + e.replace('\n', '\n    '))
    for r in unknown[:10]:
        print(f"UNDECIDED {r['name']} ({r['reason']})")
    for line in vio_lines:
        print(line)
    if vio_lines:
        for kind, key, r in violations:
            print(f"  failed obligation: {key}  [contract {r['contract']}] model={json.dumps(r.get('model'))[:400]}")
        return 1
    if errors:
        return 3
    if unknown:
        return 2
    return 0


TRUSTED_COMMON = [
    "pyvc itself (self-built VC generator: symbolic execution of the real Python AST; arrays as index functions)",
    "z3 4.x/5.x as the deciding solver (cvc5 only as second opinion on unknown)",
    "library axioms in pyvc/lib.py for numpy/builtins/astropy-units entry points used by the code under contract",
    "floats treated as mathematical reals in 'real' mode; decimal literals denote their decimal value",
    "SETIGEN_ENABLE_GPU unset (xp is numpy); tqdm/print/progress output dropped by extraction",
]


def replay(path):
    d = json.load(open(path))
    print(json.dumps(d, indent=1)[:4000])
    prop = d['property']
    r = run_standin(prop, 'quick', 0, extra={'obligation': d.get('obligation'), 'model': d.get('counter_model'), 'case': d.get('bounded_case')})
    if r and r.get('failures'):
        print("REPRODUCED on the real code:", json.dumps(r['failures'][0])[:2000])
        return 1
    print("not reproduced by the native stand-in")
    return 0


if __name__ == '__main__':
    if '--replay' in sys.argv:
        sys.exit(replay(sys.argv[sys.argv.index('--replay') + 1]))
    sys.exit(main())
